package main

import (
	"context"
	"encoding/json"
	"io"
	"fmt"
	"math/rand"
	"net/http"
	"net/http/httptest"
	"strings"
	"sync"
	"sync/atomic"
	"time"

	"github.com/transparency-dev/witness/internal/config"
	"github.com/transparency-dev/witness/internal/feeder"
	"github.com/transparency-dev/witness/internal/feeder/pixelbt"
	"github.com/transparency-dev/witness/internal/feeder/rekor"
	"github.com/transparency-dev/witness/internal/feeder/serverless"
	"github.com/transparency-dev/witness/internal/feeder/sumdb"
	"github.com/transparency-dev/witness/internal/feeder/tiles"
)

func init() { scenarios["hostile"] = scenarioHostile }

type countingWitness struct {
	latest []byte
	calls  int
}

func (s *countingWitness) GetLatestCheckpoint(ctx context.Context, id string) ([]byte, error) {
	return s.latest, nil
}
func (s *countingWitness) Update(ctx context.Context, id string, o uint64, cp []byte, p [][]byte) ([]byte, error) {
	s.calls++
	return cp, nil
}

type feedFn func(context.Context, config.Log, feeder.Witness, *http.Client, time.Duration) error

// scenarioHostile: every feeder type against a log server that answers with log-signed checkpoints of hostile
// sizes / root lengths, and with truncated, oversized, random bodies and odd statuses. Each cycle runs under
// recover and a deadline; a panic or a cycle that does not end is reported.
func scenarioHostile(t *traceWriter, rng *rand.Rand) {
	origin := "go.sum database tree"
	key := genLogKey(rng, "hostile-log")
	mk := func(size uint64, hash []byte) []byte { return signNote(cpText(origin, size, hash), key.signer) }
	latest := mk(5, make([]byte, 32))
	feeders := []struct {
		name string
		f    feedFn
	}{{"sumdb", sumdb.FeedLog}, {"pixel", pixelbt.FeedLog}, {"tiles", tiles.FeedLog}, {"serverless", serverless.FeedLog}, {"rekor", rekor.FeedLog}}
	type hcase struct {
		desc   string
		cp     []byte
		status int
		tile   string // how tile / proof requests are answered: "404", "garbage", "empty", "huge"
		// JSON feeders (rekor): raw bodies for api/v1/log and api/v1/log/proof, the tree ID the witness is configured
		// with (default 7, the active shard of the default answer), and the feeders the case applies to ("" = all)
		logJSON, proofJSON, treeID, only string
	}
	var cases []hcase
	for _, sz := range []uint64{0, 6, 1 << 62, 1<<62 + 1, 1<<63 - 1, 1 << 63, 1<<64 - 1} {
		for _, hl := range []int{0, 5, 32, 33} {
			for _, tile := range []string{"404", "garbage"} {
				cases = append(cases, hcase{desc: fmt.Sprintf("signed.size=%d.hlen=%d.tile=%s", sz, hl, tile), cp: mk(sz, make([]byte, hl)), status: 200, tile: tile})
			}
		}
	}
	good := mk(9, make([]byte, 32))
	cases = append(cases,
		hcase{desc: "truncated", cp: good[:len(good)/2], status: 200, tile: "404"},
		hcase{desc: "empty", cp: []byte{}, status: 200, tile: "404"},
		hcase{desc: "random", cp: randHash(rng, 300), status: 200, tile: "garbage"},
		hcase{desc: "oversized", cp: append(append([]byte{}, good...), make([]byte, 3<<20)...), status: 200, tile: "huge"},
		hcase{desc: "status500", cp: good, status: 500, tile: "404"},
		hcase{desc: "status404", cp: good, status: 404, tile: "404"},
		hcase{desc: "good.tiles-empty", cp: good, status: 200, tile: "empty"},
		hcase{desc: "good.tiles-huge", cp: good, status: 200, tile: "huge"},
		hcase{desc: "good.tiles-garbage", cp: good, status: 200, tile: "garbage"},
		// no response at all: the connection is cut, the body ends before its declared length, nobody listens
		hcase{desc: "reset.checkpoint", cp: good, status: -1, tile: "404"},
		hcase{desc: "good.tiles-reset", cp: good, status: 200, tile: "reset"},
		hcase{desc: "short.checkpoint", cp: good, status: -2, tile: "404"},
		hcase{desc: "good.tiles-short", cp: good, status: 200, tile: "short"},
		hcase{desc: "down", cp: good, status: -3, tile: "404"},
	)
	// hostile JSON: every shape a JSON decoder can hand to code that expected an object with string fields
	goodQ := strings.ReplaceAll(strings.ReplaceAll(string(good), "\\", "\\\\"), "\n", "\\n")
	shard := fmt.Sprintf(`{"treeID":"8","treeSize":9,"signedTreeHead":"%s"}`, goodQ)
	for i, lj := range []string{`null`, `[]`, `"x"`, `{}`, `7`, `{"inactiveShards":[null]}`, `{"inactiveShards":[null,` + shard + `]}`,
		`{"inactiveShards":[` + shard + `,null]}`, `{"inactiveShards":null}`, `{"inactiveShards":{}}`, `{"inactiveShards":[[]]}`, `{"inactiveShards":[7,"x",true]}`,
		`{"treeID":7}`, `{"treeID":null,"signedTreeHead":null}`, `{"treeID":"8","signedTreeHead":null,"inactiveShards":[{"treeID":null}]}`,
		`{"treeSize":1e400,"treeID":"8"}`, `{"treeID":"8","signedTreeHead":"` + goodQ + `","inactiveShards":[{"treeID":"8","signedTreeHead":""}]}`,
		strings.Repeat("[", 20000) + strings.Repeat("]", 20000), `{"treeID":"8"`, `{"treeID":"\ud800"}`} {
		cases = append(cases, hcase{desc: fmt.Sprintf("json.log.%d", i), cp: good, status: 200, tile: "404", logJSON: lj, treeID: "8", only: "rekor"})
	}
	for i, pj := range []string{`null`, `{}`, `{"hashes":null}`, `{"hashes":[null]}`, `{"hashes":["zz"]}`, `{"hashes":[5]}`, `{"hashes":"x"}`, `{"hashes":{}}`,
		`{"hashes":["00","","abc"]}`, `{"hashes":[` + strings.Repeat(`"00",`, 100000) + `"00"]}`, `[]`, `{"hashes":[[]]}`, `{"hashes":["` + strings.Repeat("ab", 1<<20) + `"]}`} {
		cases = append(cases, hcase{desc: fmt.Sprintf("json.proof.%d", i), cp: good, status: 200, tile: "404", proofJSON: pj, only: "rekor"})
	}
	var hangs int32
	type job struct {
		fd  int
		c   hcase
		res string
		upd int
	}
	var jobs []*job
	for i := range feeders {
		for _, c := range cases {
			if c.only != "" && c.only != feeders[i].name {
				continue
			}
			jobs = append(jobs, &job{fd: i, c: c})
		}
	}
	sem := make(chan struct{}, 16)
	var wg sync.WaitGroup
	var rmu sync.Mutex
	for _, j := range jobs {
		j := j
		wg.Add(1)
		sem <- struct{}{}
		go func() {
			defer wg.Done()
			defer func() { <-sem }()
			if atomic.LoadInt32(&hangs) >= 4 {
				j.res = "SKIPPED"
				return
			}
			fd, c := feeders[j.fd], j.c
			cut := func(w http.ResponseWriter) {
				if hj, ok := w.(http.Hijacker); ok {
					if conn, _, err := hj.Hijack(); err == nil {
						conn.Close()
					}
				}
			}
			short := func(w http.ResponseWriter, b []byte) { // declares more than it sends, then the connection goes away
				w.Header().Set("Content-Length", fmt.Sprint(len(b)+1000))
				w.WriteHeader(200)
				w.Write(b)
				if f, ok := w.(http.Flusher); ok {
					f.Flush()
				}
				cut(w)
			}
			srv := httptest.NewServer(http.HandlerFunc(func(w http.ResponseWriter, r *http.Request) {
				p := r.URL.Path
				isCP := strings.HasSuffix(p, "/latest") || strings.HasSuffix(p, "checkpoint.txt") || strings.HasSuffix(p, "/checkpoint") || strings.HasSuffix(p, "api/v1/log")
				if isCP && c.status == -1 {
					cut(w)
					return
				}
				if isCP && c.status == -2 {
					short(w, c.cp[:len(c.cp)/2])
					return
				}
				switch {
				case strings.HasSuffix(p, "/latest"), strings.HasSuffix(p, "checkpoint.txt"), strings.HasSuffix(p, "/checkpoint"):
					w.WriteHeader(c.status)
					w.Write(c.cp)
				case strings.HasSuffix(p, "api/v1/log"):
					w.WriteHeader(c.status)
					if c.logJSON != "" {
						io.WriteString(w, c.logJSON)
					} else {
						json.NewEncoder(w).Encode(map[string]interface{}{"signedTreeHead": string(c.cp), "treeID": "7", "treeSize": 9})
					}
				case strings.HasSuffix(p, "api/v1/log/proof") && c.proofJSON != "":
					io.WriteString(w, c.proofJSON)
				default:
					switch c.tile {
					case "garbage":
						rmu.Lock()
						g := randHash(rng, 1+rng.Intn(100))
						rmu.Unlock()
						w.Write(g)
					case "empty":
						w.WriteHeader(200)
					case "huge":
						w.Write(make([]byte, 2<<20))
					case "reset":
						cut(w)
					case "short":
						short(w, make([]byte, 40))
					default:
						http.NotFound(w, r)
					}
				}
			}))
			if c.status == -3 {
				srv.Close() // nobody listens at the configured address any more
			}
			u := srv.URL + "/"
			if fd.name == "rekor" {
				u = srv.URL + "/?treeID=7"
				if c.treeID != "" {
					u = srv.URL + "/?treeID=" + c.treeID
				}
			}
			if fd.name == "sumdb" {
				u = srv.URL
			}
			lc, err := config.NewLog(origin, key.vkey, u)
			if err != nil {
				panic(err)
			}
			sw := &countingWitness{latest: latest}
			done := make(chan string, 1)
			ctx, cancel := context.WithTimeout(context.Background(), 1200*time.Millisecond)
			go func() {
				defer func() {
					if r := recover(); r != nil {
						done <- "PANIC"
					}
				}()
				err := fd.f(ctx, lc, sw, &http.Client{Timeout: time.Second}, 0)
				if err != nil {
					done <- "err"
				} else {
					done <- "ok"
				}
			}()
			select {
			case j.res = <-done:
			case <-time.After(6 * time.Second):
				j.res = "HANG"
				atomic.AddInt32(&hangs, 1)
			}
			cancel()
			srv.Close()
			j.upd = sw.calls
		}()
	}
	wg.Wait()
	for _, j := range jobs {
		t.line("HF feeder=%s case=%s => res=%s updates=%d", feeders[j.fd].name, j.c.desc, j.res, j.upd)
	}
}
