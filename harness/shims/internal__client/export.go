//go:build verif

package client

// VerifTilePath exposes tilePath to the verification harness.
func (c *SumDBClient) VerifTilePath(offset int) string { return c.tilePath(offset) }
