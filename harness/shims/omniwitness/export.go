//go:build verif

package omniwitness

import (
	"github.com/transparency-dev/witness/internal/feeder"
	"github.com/transparency-dev/witness/internal/witness"
)

// VerifNewAdapter exposes the witnessAdapter that Main puts between the witness and its feeders,
// bastion endpoint and distributor.
func VerifNewAdapter(w *witness.Witness) feeder.Witness { return witnessAdapter{w: w} }

// VerifAdapterGet is the distributor-facing half of the same adapter.
type VerifAdapter = witnessAdapter
