//go:build verif

package omniwitness

import "os"

// Verification hook (overlaid at build time, never committed): the production binary reads its log configuration from
// a file compiled into it; with VERIF_CONFIG_LOGS set, the harness's generated configuration (logs it holds the keys
// of) takes its place, so that the unmodified cmd/omniwitness main() can be driven end to end.
func init() {
	if p := os.Getenv("VERIF_CONFIG_LOGS"); p != "" {
		if b, err := os.ReadFile(p); err == nil {
			ConfigLogs = b
		}
	}
}
