//go:build verif

package main

// Verification hook (overlaid at build time, never committed to the repository): lets the harness obtain the request
// bodies that this binary's own bastionClient.Update writes, without a network.  With VERIF_FEEDBASTION_WRITER set,
// the process reads "old proof cp" lines (proof: comma-separated hex or "-", cp: hex or ".") from stdin, prints the
// hex of the body Update sends for each, and exits before main runs.

import (
	"bufio"
	"context"
	"encoding/hex"
	"fmt"
	"io"
	"net/http"
	"os"
	"strconv"
	"strings"
)

type verifCaptureRT struct{ body *[]byte }

func (c verifCaptureRT) RoundTrip(r *http.Request) (*http.Response, error) {
	if r.Body != nil {
		b, _ := io.ReadAll(r.Body)
		r.Body.Close()
		*c.body = b
	}
	return &http.Response{StatusCode: 200, Status: "200 OK", Body: io.NopCloser(strings.NewReader("")), Header: http.Header{}, Request: r}, nil
}

func init() {
	if os.Getenv("VERIF_FEEDBASTION_WRITER") == "" {
		return
	}
	sc := bufio.NewScanner(os.Stdin)
	sc.Buffer(make([]byte, 1<<20), 64<<20)
	w := bufio.NewWriter(os.Stdout)
	for sc.Scan() {
		f := strings.Fields(sc.Text())
		if len(f) != 3 {
			continue
		}
		old, _ := strconv.ParseUint(f[0], 10, 64)
		var proof [][]byte
		if f[1] != "-" {
			for _, h := range strings.Split(f[1], ",") {
				b, _ := hex.DecodeString(h)
				proof = append(proof, b)
			}
		}
		var cp []byte
		if f[2] != "." {
			cp, _ = hex.DecodeString(f[2])
		}
		var captured []byte
		bc := &bastionClient{httpClient: &http.Client{Transport: verifCaptureRT{&captured}}, url: "http://capture.invalid/", originByLogID: map[string]string{}}
		_, _ = bc.Update(context.Background(), "verif", old, cp, proof)
		if len(captured) == 0 {
			fmt.Fprintln(w, ".")
		} else {
			fmt.Fprintln(w, hex.EncodeToString(captured))
		}
	}
	w.Flush()
	os.Exit(0)
}
