// Harness for the correspondence check: drives the real transparency-dev/witness code in-process and
// writes one trace record per operation; the Lean driver (wdrv) replays the records through the model.
// This package is overlaid into /repo/internal/zzverif at build time (go build -overlay); /repo is not modified.
package main

import (
	"bufio"
	"bytes"
	"crypto/ed25519"
	"crypto/sha256"
	"database/sql"
	"encoding/base64"
	"encoding/binary"
	"encoding/hex"
	"errors"
	"fmt"
	"math/rand"
	"os"
	"path/filepath"
	"sort"
	"strings"
	"sync"
	"syscall"
	"time"

	_ "github.com/mattn/go-sqlite3"
	f_log "github.com/transparency-dev/formats/log"
	f_note "github.com/transparency-dev/formats/note"
	"github.com/transparency-dev/merkle/rfc6962"
	"github.com/transparency-dev/witness/internal/persistence"
	"github.com/transparency-dev/witness/internal/persistence/inmemory"
	psql "github.com/transparency-dev/witness/internal/persistence/sql"
	"github.com/transparency-dev/witness/internal/witness"
	"github.com/transparency-dev/witness/monitoring"
	prom "github.com/transparency-dev/witness/monitoring/prometheus"
	"golang.org/x/mod/sumdb/note"
	"google.golang.org/grpc/codes"
	"google.golang.org/grpc/status"
)

// ---------------------------------------------------------------- trace writer

type traceWriter struct {
	mu    sync.Mutex
	w     *bufio.Writer
	seenV map[string]bool
	lines int
}

func newTrace(path string) (*traceWriter, func()) {
	f, err := os.Create(path)
	if err != nil {
		panic(err)
	}
	t := &traceWriter{w: bufio.NewWriterSize(f, 1<<20), seenV: map[string]bool{}}
	return t, func() { t.w.Flush(); f.Close() }
}

func (t *traceWriter) line(format string, a ...interface{}) {
	t.mu.Lock()
	defer t.mu.Unlock()
	fmt.Fprintf(t.w, format+"\n", a...)
	t.lines++
}

func hx(b []byte) string {
	if len(b) == 0 {
		return "."
	}
	return hex.EncodeToString(b)
}

func hxList(l [][]byte) string {
	if len(l) == 0 {
		return "-"
	}
	s := make([]string, len(l))
	for i, b := range l {
		s[i] = hx(b)
	}
	return strings.Join(s, ",")
}

// ---------------------------------------------------------------- recording verifier / signer

var vidCounter int
var vidMu sync.Mutex

func newVid(prefix string) string {
	vidMu.Lock()
	defer vidMu.Unlock()
	vidCounter++
	return fmt.Sprintf("%s%d", prefix, vidCounter)
}

// recVerifier records every query the code under test makes to a verifier.
type recVerifier struct {
	inner note.Verifier
	vid   string
	t     *traceWriter
}

func (r *recVerifier) Name() string    { return r.inner.Name() }
func (r *recVerifier) KeyHash() uint32 { return r.inner.KeyHash() }
func (r *recVerifier) Verify(msg, sig []byte) bool {
	ok := r.inner.Verify(msg, sig)
	k := r.vid + " " + hx(msg) + " " + hx(sig)
	r.t.mu.Lock()
	if !r.t.seenV[k] {
		r.t.seenV[k] = true
		b := 0
		if ok {
			b = 1
		}
		fmt.Fprintf(r.t.w, "V %s %d\n", k, b)
		r.t.lines++
	}
	r.t.mu.Unlock()
	return ok
}

// indVerifier verifies a witness signature without using the note libraries' verifiers:
// plain ed25519 over the message it reconstructs itself.
type indVerifier struct {
	name string
	hash uint32
	pub  ed25519.PublicKey
	kind string // "ed25519" or "cosigv1"
}

func (v *indVerifier) Name() string    { return v.name }
func (v *indVerifier) KeyHash() uint32 { return v.hash }
func (v *indVerifier) Verify(msg, sig []byte) bool {
	if v.kind == "ed25519" {
		return ed25519.Verify(v.pub, msg, sig)
	}
	if len(sig) != 8+64 {
		return false
	}
	t := binary.BigEndian.Uint64(sig[:8])
	m := []byte(fmt.Sprintf("cosignature/v1\ntime %d\n%s", t, msg))
	return ed25519.Verify(v.pub, m, sig[8:])
}

type recSigner struct {
	inner note.Signer
	sid   string
	idx   int
	t     *traceWriter
	fail  *bool
}

func (r *recSigner) Name() string    { return r.inner.Name() }
func (r *recSigner) KeyHash() uint32 { return r.inner.KeyHash() }
func (r *recSigner) Sign(msg []byte) ([]byte, error) {
	sig, err := r.inner.Sign(msg)
	if err == nil {
		r.t.line("SG %s %d %s %s", r.sid, r.idx, hx(msg), hx(sig))
	}
	return sig, err
}

// ---------------------------------------------------------------- deterministic keys

type detReader struct{ r *rand.Rand }

func (d detReader) Read(p []byte) (int, error) {
	for i := range p {
		p[i] = byte(d.r.Intn(256))
	}
	return len(p), nil
}

type logKey struct {
	name   string
	skey   string
	vkey   string
	signer note.Signer
	verif  note.Verifier
}

func genLogKey(rng *rand.Rand, name string) logKey {
	skey, vkey, err := note.GenerateKey(detReader{rng}, name)
	if err != nil {
		panic(err)
	}
	s, err := note.NewSigner(skey)
	if err != nil {
		panic(err)
	}
	v, err := note.NewVerifier(vkey)
	if err != nil {
		panic(err)
	}
	return logKey{name: name, skey: skey, vkey: vkey, signer: s, verif: v}
}

type witKey struct {
	kind   string
	signer note.Signer
	ind    *indVerifier
	verif  note.Verifier
	skey   string
}

func genWitKey(rng *rand.Rand, name string, kind string) witKey {
	skey, vkey, err := note.GenerateKey(detReader{rng}, name)
	if err != nil {
		panic(err)
	}
	// public key bytes
	parts := strings.SplitN(vkey, "+", 3)
	kb, _ := base64.StdEncoding.DecodeString(parts[2])
	pub := ed25519.PublicKey(kb[1:])
	if kind == "ed25519" {
		s, err := note.NewSigner(skey)
		if err != nil {
			panic(err)
		}
		v, _ := note.NewVerifier(vkey)
		return witKey{kind: kind, signer: s, verif: v, skey: skey,
			ind: &indVerifier{name: s.Name(), hash: s.KeyHash(), pub: pub, kind: kind}}
	}
	s, err := f_note.NewSignerForCosignatureV1(skey)
	if err != nil {
		panic(err)
	}
	return witKey{kind: kind, signer: s, verif: s.Verifier(), skey: skey,
		ind: &indVerifier{name: s.Name(), hash: s.KeyHash(), pub: pub, kind: kind}}
}

// ---------------------------------------------------------------- own RFC 6962 (independent of the merkle module)

func leafHash(data []byte) []byte {
	h := sha256.Sum256(append([]byte{0}, data...))
	return h[:]
}

func nodeHash(l, r []byte) []byte {
	b := make([]byte, 0, 1+len(l)+len(r))
	b = append(b, 1)
	b = append(b, l...)
	b = append(b, r...)
	h := sha256.Sum256(b)
	return h[:]
}

func emptyRoot() []byte { h := sha256.Sum256(nil); return h[:] }

func splitPoint(n uint64) uint64 { // largest power of two < n, n >= 2
	k := uint64(1)
	for k < 1<<63 && k<<1 < n { // k<<1 would wrap to 0 for sizes above 2^63
		k <<= 1
	}
	return k
}

// branch is a log history: either explicit leaf hashes or a piecewise-uniform virtual tree
// (leaves [0,forkAt) hash to ua, the rest to ub) whose range hashes are computable for any size.
type branch struct {
	name     string
	leaves   [][]byte // explicit
	virtual  bool
	forkAt   uint64
	ua, ub   []byte
	memoU    map[string][]byte
	memoR    map[[2]uint64][]byte
	maxSize  uint64
	mu       sync.Mutex
}

func (b *branch) size() uint64 {
	if b.virtual {
		return b.maxSize
	}
	return uint64(len(b.leaves))
}

func (b *branch) uniformU(leaf []byte, n uint64) []byte {
	if n == 1 {
		return leaf
	}
	k := fmt.Sprintf("%x/%d", leaf[:4], n)
	if v, ok := b.memoU[k]; ok {
		return v
	}
	s := splitPoint(n)
	v := nodeHash(b.uniformU(leaf, s), b.uniformU(leaf, n-s))
	b.memoU[k] = v
	return v
}

// rangeRoot is MTH(D[lo:hi]).
func (b *branch) rangeRootU(lo, hi uint64) []byte {
	if hi == lo {
		return emptyRoot()
	}
	if b.virtual {
		if hi <= b.forkAt {
			return b.uniformU(b.ua, hi-lo)
		}
		if lo >= b.forkAt {
			return b.uniformU(b.ub, hi-lo)
		}
	}
	if hi-lo == 1 {
		return b.leaves[lo]
	}
	key := [2]uint64{lo, hi}
	if v, ok := b.memoR[key]; ok {
		return v
	}
	k := splitPoint(hi - lo)
	v := nodeHash(b.rangeRootU(lo, lo+k), b.rangeRootU(lo+k, hi))
	b.memoR[key] = v
	return v
}

// the memo tables make a branch stateful: the public entry points serialise
func (b *branch) rangeRoot(lo, hi uint64) []byte {
	b.mu.Lock()
	defer b.mu.Unlock()
	return b.rangeRootU(lo, hi)
}

func (b *branch) root(n uint64) []byte { return b.rangeRoot(0, n) }

// consistency is RFC 6962 PROOF(m, D[0:n]), 0 < m <= n.
func (b *branch) consistency(m, n uint64) [][]byte {
	if m == n || m == 0 {
		return [][]byte{}
	}
	b.mu.Lock()
	defer b.mu.Unlock()
	return b.subproofU(m, 0, n, true)
}

func (b *branch) subproofU(m, lo, hi uint64, complete bool) [][]byte {
	n := hi - lo
	if m == n {
		if complete {
			return [][]byte{}
		}
		return [][]byte{b.rangeRootU(lo, hi)}
	}
	k := splitPoint(n)
	if m <= k {
		return append(b.subproofU(m, lo, lo+k, complete), b.rangeRootU(lo+k, hi))
	}
	return append(b.subproofU(m-k, lo+k, hi, false), b.rangeRootU(lo, lo+k))
}

func newExplicitBranch(name string, n int, forkFrom *branch, forkAt int) *branch {
	b := &branch{name: name, memoU: map[string][]byte{}, memoR: map[[2]uint64][]byte{}}
	for i := 0; i < n; i++ {
		if forkFrom != nil && i < forkAt {
			b.leaves = append(b.leaves, forkFrom.leaves[i])
		} else {
			b.leaves = append(b.leaves, leafHash([]byte(fmt.Sprintf("%s-leaf-%d", name, i))))
		}
	}
	return b
}

func newVirtualBranch(name string, forkAt, maxSize uint64, tagA, tagB string) *branch {
	return &branch{name: name, virtual: true, forkAt: forkAt, maxSize: maxSize,
		ua: leafHash([]byte(tagA)), ub: leafHash([]byte(tagB)),
		memoU: map[string][]byte{}, memoR: map[[2]uint64][]byte{}}
}

// ---------------------------------------------------------------- checkpoints

func cpText(origin string, size uint64, root []byte, ext ...string) string {
	s := fmt.Sprintf("%s\n%d\n%s\n", origin, size, base64.StdEncoding.EncodeToString(root))
	for _, e := range ext {
		s += e + "\n"
	}
	return s
}

func signNote(text string, signers ...note.Signer) []byte {
	b, err := note.Sign(&note.Note{Text: text}, signers...)
	if err != nil {
		panic(fmt.Sprintf("sign: %v (text %q)", err, text))
	}
	return b
}

// ---------------------------------------------------------------- metrics

type recCounter struct {
	mu   sync.Mutex
	vals map[string]uint64
}

func (c *recCounter) Inc(labelVals ...string) {
	c.mu.Lock()
	c.vals[strings.Join(labelVals, "|")]++
	c.mu.Unlock()
}
func (c *recCounter) get(k string) uint64 { c.mu.Lock(); defer c.mu.Unlock(); return c.vals[k] }

type recFactory struct {
	mu       sync.Mutex
	counters map[string]*recCounter
}

func (f *recFactory) NewCounter(name, help string, labelNames ...string) monitoring.Counter {
	f.mu.Lock()
	defer f.mu.Unlock()
	c := &recCounter{vals: map[string]uint64{}}
	f.counters[name] = c
	return c
}

var metrics = &recFactory{counters: map[string]*recCounter{}}

func init() {
	// the production binary counts with Prometheus; a child process of the harness may ask for that factory
	if os.Getenv("VERIF_METRICS") == "prom" {
		monitoring.SetMetricFactory(prom.MetricFactory{Prefix: "verif_"})
		return
	}
	monitoring.SetMetricFactory(metrics)
}

var witnessCounterNames = []string{"witness_update_request", "witness_update_success", "witness_update_invalid_consistency", "witness_update_inconsistent_checkpoints"}

func readCounters(logID string) [4]uint64 {
	var r [4]uint64
	for i, n := range witnessCounterNames {
		metrics.mu.Lock()
		c := metrics.counters[n]
		metrics.mu.Unlock()
		if c != nil {
			r[i] = c.get(logID)
		}
	}
	return r
}

// ---------------------------------------------------------------- stores

type storeHandle struct {
	kind  string
	p     persistence.LogStatePersistence
	close func()
}

func scratchDir() string {
	// under the run's own directory when the check names one (removed with it, also after a kill); the system's
	// temporary directory otherwise
	d, err := os.MkdirTemp(os.Getenv("VERIF_SCRATCH"), "wverif-")
	if err != nil {
		panic(err)
	}
	return d
}

func newStore(kind string) storeHandle {
	switch kind {
	case "mem":
		return storeHandle{kind: kind, p: inmemory.NewPersistence(), close: func() {}}
	case "sql":
		db, err := sql.Open("sqlite3", ":memory:")
		if err != nil {
			panic(err)
		}
		db.SetMaxOpenConns(1)
		return storeHandle{kind: kind, p: psql.NewPersistence(db), close: func() { db.Close() }}
	case "sqlfile":
		dir := scratchDir()
		db, err := sql.Open("sqlite3", filepath.Join(dir, "w.db"))
		if err != nil {
			panic(err)
		}
		db.SetMaxOpenConns(1)
		return storeHandle{kind: kind, p: psql.NewPersistence(db), close: func() { db.Close(); os.RemoveAll(dir) }}
	}
	panic("unknown store " + kind)
}

// ---------------------------------------------------------------- session: one witness instance

type logDef struct {
	origin string
	key    logKey
	id     string
	rv     *recVerifier
}

type session struct {
	id     string
	t      *traceWriter
	w      *witness.Witness
	store  storeHandle
	logs   []*logDef
	wkeys  []witKey
	wrv    []*recVerifier // recording wrappers around the independent witness verifiers
	unknownIDs []string
	// fault injection (scenario fault): interface-level fault letters, driver-level fault names
	faults    string
	ctl       *lspCtl
	useDrv    bool
	drvFaults []string
	signFail  *bool
	dead      bool // a storage operation hung: nothing more can be done with this witness
	prerecord bool // the witness uses verifiers the harness cannot wrap: record the oracle with the harness's own
	readExt   func(id string) string // the witness is another process: how its state is read
}

var sessCounter int

// hangCount counts operations that did not return; scenarios stop early once a few were seen.
var hangCount int

func newSession(t *traceWriter, storeKind string, logs []*logDef, wkeys []witKey) *session {
	return newSessionWith(t, storeKind, logs, wkeys, nil, nil)
}

func newSessionWith(t *traceWriter, storeKind string, logs []*logDef, wkeys []witKey, lsp persistence.LogStatePersistence, signFail *bool) *session {
	sessCounter++
	s := &session{id: fmt.Sprintf("S%d", sessCounter), t: t, logs: logs, wkeys: wkeys}
	if lsp != nil {
		s.store = storeHandle{kind: storeKind, p: lsp, close: func() {}}
	} else {
		s.store = newStore(storeKind)
	}
	t.line("CFG %s %s", s.id, storeKind)
	known := map[string]witness.LogInfo{}
	for _, l := range logs {
		l.id = f_log.ID(l.origin)
		l.rv = &recVerifier{inner: l.key.verif, vid: newVid("L"), t: t}
		known[l.id] = witness.LogInfo{SigV: l.rv, Origin: l.origin, Hasher: rfc6962.DefaultHasher}
		t.line("LOG %s %s %s %s %d %s", s.id, hx([]byte(l.id)), hx([]byte(l.origin)), hx([]byte(l.key.verif.Name())), l.key.verif.KeyHash(), l.rv.vid)
	}
	var signers []note.Signer
	for i, k := range wkeys {
		var in note.Signer = k.signer
		if signFail != nil {
			in = &failingSigner{inner: k.signer, fail: signFail}
		}
		signers = append(signers, &recSigner{inner: in, sid: s.id, idx: i, t: t})
		rv := &recVerifier{inner: k.ind, vid: newVid("W"), t: t}
		s.wrv = append(s.wrv, rv)
		t.line("SGN %s %s %d %s %s", s.id, hx([]byte(k.signer.Name())), k.signer.KeyHash(), rv.vid, k.kind)
	}
	w, err := witness.New(witness.Opts{Persistence: s.store.p, Signers: signers, KnownLogs: known})
	if err != nil {
		panic(err)
	}
	s.w = w
	return s
}

// newExternalSession describes a witness that runs in another process: the same CFG/LOG/SGN lines, no in-process
// Witness; its state is read with readExt (the public HTTP API).
func newExternalSession(t *traceWriter, storeKind string, logs []*logDef, wkeys []witKey, readExt func(id string) string) *session {
	sessCounter++
	s := &session{id: fmt.Sprintf("S%d", sessCounter), t: t, logs: logs, wkeys: wkeys, readExt: readExt}
	s.store = storeHandle{kind: storeKind, close: func() {}}
	t.line("CFG %s %s", s.id, storeKind)
	for _, l := range logs {
		l.id = f_log.ID(l.origin)
		l.rv = &recVerifier{inner: l.key.verif, vid: newVid("L"), t: t}
		t.line("LOG %s %s %s %s %d %s", s.id, hx([]byte(l.id)), hx([]byte(l.origin)), hx([]byte(l.key.verif.Name())), l.key.verif.KeyHash(), l.rv.vid)
	}
	for _, k := range wkeys {
		rv := &recVerifier{inner: k.ind, vid: newVid("W"), t: t}
		s.wrv = append(s.wrv, rv)
		t.line("SGN %s %s %d %s %s", s.id, hx([]byte(k.signer.Name())), k.signer.KeyHash(), rv.vid, k.kind)
	}
	return s
}

func (s *session) end() {
	s.t.line("END %s", s.id)
	if s.dead {
		return // closing a wedged database would block too
	}
	s.store.close()
}

func (s *session) readState(logID string) string {
	if s.dead {
		return "!"
	}
	if s.readExt != nil {
		return s.readExt(logID)
	}
	if s.ctl != nil || s.store.kind != "mem" {
		// a read on a store whose only connection is pinned by a transaction left open never returns
		var r string
		if !withDeadline(3*time.Second, func() { r = s.readStateRaw(logID) }) {
			s.dead = true
			hangCount++
			return "!"
		}
		return r
	}
	return s.readStateRaw(logID)
}

func (s *session) readStateRaw(logID string) string {
	b, err := s.w.GetCheckpoint(logID)
	if err != nil {
		if status.Code(err) == codes.NotFound {
			return "-"
		}
		return "!"
	}
	return hx(b)
}

// allState is a digest of everything the witness holds: every configured log's checkpoint and the log list.
func (s *session) allState() string {
	h := sha256.New()
	for _, l := range s.logs {
		fmt.Fprintf(h, "%s=%s;", l.id, s.readState(l.id))
	}
	for _, id := range s.unknownIDs {
		fmt.Fprintf(h, "%s=%s;", id, s.readState(id))
	}
	if s.dead {
		return "!"
	}
	var ls []string
	var err error
	if s.ctl != nil || s.store.kind != "mem" {
		if !withDeadline(3*time.Second, func() { ls, err = s.w.GetLogs() }) {
			s.dead = true
			return "!"
		}
	} else {
		ls, err = s.w.GetLogs()
	}
	sort.Strings(ls)
	fmt.Fprintf(h, "logs=%v err=%v", ls, err != nil)
	return hex.EncodeToString(h.Sum(nil)[:8])
}

func errClass(err error) string {
	switch {
	case err == nil:
		return "none"
	case errors.Is(err, witness.ErrUnknownLog):
		return "unknownLog"
	case errors.Is(err, witness.ErrNoValidSignature):
		return "noValidSig"
	case errors.Is(err, witness.ErrOldSizeInvalid):
		return "oldSizeInvalid"
	case errors.Is(err, witness.ErrCheckpointStale):
		return "stale"
	case errors.Is(err, witness.ErrRootMismatch):
		return "rootMismatch"
	case errors.Is(err, witness.ErrInvalidProof):
		return "invalidProof"
	}
	return "other"
}

type updResult struct {
	ret []byte
	err error
	cls string
}

// update performs one Update on the real witness and writes the U record.
func (s *session) update(logID string, old uint64, cp []byte, proof [][]byte, extra string) updResult {
	if s.dead {
		return updResult{cls: "other", err: errors.New("witness wedged")}
	}
	pre := s.readState(logID)
	allpre := s.allState()
	c0 := readCounters(logID)
	faultLetters := s.faults
	if s.ctl != nil {
		s.ctl.take()
		s.ctl.setFaults(strings.ReplaceAll(s.faults, "N", ""))
	}
	if s.signFail != nil {
		*s.signFail = strings.Contains(s.faults, "N")
	}
	if s.useDrv {
		drvCtl.take()
		drvCtl.setFaults(s.drvFaults)
		for _, d := range s.drvFaults {
			faultLetters += map[string]string{"begin": "W", "query": "R", "next": "R", "exec": "S", "commit": "S", "rollback": "C"}[d]
		}
	}
	// ground truth for the oracle: the harness asks its own recording verifier about the submitted note,
	// so the model never depends on which verifications the code under test chose to perform
	xread := ""
	{
		for _, l := range s.logs {
			if l.id == logID {
				_, _ = note.Open(cp, note.VerifierList(l.rv))
				if s.ctl != nil && strings.Contains(s.faults, "X") {
					// fault X: the write handle's read returns damaged bytes; which bytes, and what the log's verifier says of them
					xread = " xread=-"
					if b, err := hexDecode(pre); err == nil && pre != "-" && pre != "!" {
						d := corruptRead(b, s.ctl.xkind)
						xread = " xread=" + hx(d)
						_, _ = note.Open(d, note.VerifierList(l.rv))
					}
				}
			}
		}
	}
	t0 := time.Now().Unix()
	var ret []byte
	var err error
	hang := 0
	if s.ctl != nil {
		if !withDeadline(5*time.Second, func() { ret, err = s.w.Update(bgctx, logID, old, cp, proof) }) {
			hang = 1
			s.dead = true
			hangCount++
			err = errors.New("update did not return")
		}
	} else {
		ret, err = s.w.Update(bgctx, logID, old, cp, proof)
	}
	t1 := time.Now().Unix()
	calls, dops := "", ""
	if s.ctl != nil {
		calls = " calls=" + s.ctl.take()
		s.ctl.setFaults("")
	}
	if s.signFail != nil {
		*s.signFail = false
	}
	if s.useDrv {
		dops = " dops=" + drvCtl.take()
		drvCtl.setFaults(nil)
	}
	c1 := readCounters(logID)
	post, allpost := "!", "!"
	if s.ctl != nil {
		// the next operation on the store must complete: no transaction left open on the single connection
		post = s.readState(logID)
		allpost = s.allState()
		if s.dead && hang == 0 {
			hang = 2
			hangCount++
		}
	} else {
		post = s.readState(logID)
		allpost = s.allState()
	}
	cls := errClass(err)
	if err == nil && ret != nil {
		// record what an independent verification of the returned note says
		vs := []note.Verifier{}
		for _, l := range s.logs {
			if l.id == logID {
				vs = append(vs, l.rv)
			}
		}
		for _, rv := range s.wrv {
			vs = append(vs, rv)
		}
		_, _ = note.Open(ret, note.VerifierList(vs...))
	}
	r := "-"
	if ret != nil {
		r = hx(ret)
	}
	fl := ""
	if s.ctl != nil {
		fl = fmt.Sprintf(" faults=%s hang=%d%s", faultLetters, hang, xread)
	}
	s.t.line("U %s log=%s old=%d cp=%s proof=%s pre=%s tw=%d,%d allpre=%s allpost=%s %s%s%s%s err=%s ret=%s post=%s ctr=%d,%d,%d,%d",
		s.id, hx([]byte(logID)), old, hx(cp), hxList(proof), pre, t0, t1, allpre, allpost, extra, fl, calls, dops, cls, r, post,
		c1[0]-c0[0], c1[1]-c0[1], c1[2]-c0[2], c1[3]-c0[3])
	return updResult{ret: ret, err: err, cls: cls}
}

func (s *session) truth(l *logDef, b *branch, sizes []uint64) {
	for _, n := range sizes {
		s.t.line("TRUTH %s %s %s %d %s", s.id, hx([]byte(l.id)), b.name, n, hx(b.root(n)))
	}
}

var _ = bytes.Equal

func killSelf() {
	syscall.Kill(os.Getpid(), syscall.SIGKILL)
	select {}
}

func hexDecode(s string) ([]byte, error) {
	if s == "." {
		return []byte{}, nil
	}
	return hex.DecodeString(s)
}
