package main

import (
	"bytes"
	"encoding/base64"
	"encoding/binary"
	"fmt"
	"math/rand"
	"strings"
	"time"

	f_log "github.com/transparency-dev/formats/log"
	"golang.org/x/mod/sumdb/note"
)

func init() {
	scenarios["exhaustive"] = scenarioExhaustive
	scenarios["hist"] = scenarioHist
	scenarios["notemut"] = scenarioNoteMut
}

// ---------------------------------------------------------------- request construction

type proofClass int

const (
	pEmpty proofClass = iota
	pCorrect
	pOtherSizes
	pFlipped
	pDropped
	pAdded
	pRandom
	pOddLen
	nProofClasses
)

var proofClassNames = []string{"empty", "correct", "otherSizes", "flipped", "dropped", "added", "random", "oddLen"}

func cloneProof(p [][]byte) [][]byte {
	r := make([][]byte, len(p))
	for i := range p {
		r[i] = append([]byte{}, p[i]...)
	}
	return r
}

func randHash(rng *rand.Rand, n int) []byte {
	b := make([]byte, n)
	for i := range b {
		b[i] = byte(rng.Intn(256))
	}
	return b
}

// mkProof builds a proof of the given class for (from -> to) on branch b.
func mkProof(rng *rand.Rand, b *branch, from, to uint64, c proofClass) [][]byte {
	correct := [][]byte{}
	if from > 0 && from < to && to <= b.size() {
		correct = b.consistency(from, to)
	}
	switch c {
	case pEmpty:
		return [][]byte{}
	case pCorrect:
		return correct
	case pOtherSizes:
		// correct proof for neighbouring sizes
		f2, t2 := from, to
		if rng.Intn(2) == 0 && f2 > 1 {
			f2--
		} else if t2+1 <= b.size() {
			t2++
		} else if f2+1 < t2 {
			f2++
		}
		if f2 > 0 && f2 < t2 && t2 <= b.size() {
			return b.consistency(f2, t2)
		}
		return [][]byte{randHash(rng, 32)}
	case pFlipped:
		p := cloneProof(correct)
		if len(p) == 0 {
			return [][]byte{randHash(rng, 32)}
		}
		i := rng.Intn(len(p))
		p[i][rng.Intn(len(p[i]))] ^= 1 << uint(rng.Intn(8))
		return p
	case pDropped:
		p := cloneProof(correct)
		if len(p) == 0 {
			return p
		}
		i := rng.Intn(len(p))
		return append(p[:i], p[i+1:]...)
	case pAdded:
		p := cloneProof(correct)
		i := rng.Intn(len(p) + 1)
		p = append(p[:i], append([][]byte{randHash(rng, 32)}, p[i:]...)...)
		return p
	case pRandom:
		n := rng.Intn(8)
		p := [][]byte{}
		for i := 0; i < n; i++ {
			p = append(p, randHash(rng, 32))
		}
		return p
	case pOddLen:
		p := cloneProof(correct)
		if len(p) == 0 {
			return [][]byte{randHash(rng, 5)}
		}
		i := rng.Intn(len(p))
		p[i] = p[i][:rng.Intn(len(p[i]))]
		return p
	}
	return correct
}

// ---------------------------------------------------------------- exhaustive small scope (C09, C01, C03, C20)

func scenarioExhaustive(t *traceWriter, rng *rand.Rand) {
	N := pick(5, 9)
	key := genLogKey(rng, "exh-log")
	wk := []witKey{genWitKey(rng, "exh-wit", "ed25519"), genWitKey(rng, "exh-wit", "cosigv1")}
	trunk := newExplicitBranch("trunk", N+2, nil, 0)
	forks := []*branch{newExplicitBranch("f0", N+2, trunk, 0)}
	for _, f := range []int{1, 2, 4} {
		if f < N {
			forks = append(forks, newExplicitBranch(fmt.Sprintf("f%d", f), N+2, trunk, f))
		}
	}
	type ecase struct {
		stored    int // -1 none
		submitted int
		old       uint64
		diffRoot  bool
		pc        proofClass
	}
	var cases []ecase
	for stored := -1; stored <= N; stored++ {
		for sub := 0; sub <= N; sub++ {
			olds := []uint64{}
			for o := 0; o <= N+1; o++ {
				olds = append(olds, uint64(o))
			}
			olds = append(olds, ^uint64(0))
			for _, old := range olds {
				for _, diff := range []bool{false, true} {
					for pc := proofClass(0); pc < nProofClasses; pc++ {
						cases = append(cases, ecase{stored, sub, old, diff, pc})
					}
				}
			}
		}
	}
	stores := []string{"mem", "sql"}
	const batch = 150
	for start := 0; start < len(cases); start += batch {
		end := start + batch
		if end > len(cases) {
			end = len(cases)
		}
		var logs []*logDef
		for i := start; i < end; i++ {
			logs = append(logs, &logDef{origin: fmt.Sprintf("exh.example/log-%d", i), key: key})
		}
		s := newSession(t, stores[(start/batch)%len(stores)], logs, wk)
		for i := start; i < end; i++ {
			c := cases[i]
			l := logs[i-start]
			if c.stored >= 0 {
				cp := signNote(cpText(l.origin, uint64(c.stored), trunk.root(uint64(c.stored))), key.signer)
				s.update(l.id, 0, cp, [][]byte{}, "class=setup")
			}
			br := trunk
			if c.diffRoot {
				br = forks[rng.Intn(len(forks))]
			}
			from := uint64(0)
			if c.stored > 0 {
				from = uint64(c.stored)
			}
			proof := mkProof(rng, br, from, uint64(c.submitted), c.pc)
			subRoot := br.root(uint64(c.submitted))
			if c.diffRoot && c.submitted == 0 {
				subRoot = randHash(rng, 32) // every branch has the same empty tree: a log can still sign another root beside size 0
			}
			cp := signNote(cpText(l.origin, uint64(c.submitted), subRoot), key.signer)
			// ground truth for the split-view monitor
			s.truth(l, trunk, seq(1, uint64(N+1)))
			if c.diffRoot {
				s.truth(l, br, seq(1, uint64(N+1)))
			}
			s.update(l.id, c.old, cp, proof, fmt.Sprintf("class=exh.%s", proofClassNames[c.pc]))
		}
		s.end()
	}
	// the note format's 100-signature-line limit, at every distance from the boundary: for witness key sets of
	// 1..3 keys, a submitted checkpoint with 96..101 signature lines (the log's plus unknown ones) on the
	// first-use, growth and refresh paths, each followed by an honest probe (log line only)
	T := uint64(N + 1)
	for k := 1; k <= 3; k++ {
		kinds := []string{"cosigv1", "ed25519", "cosigv1"}
		var pwk []witKey
		for i := 0; i < k; i++ {
			pwk = append(pwk, genWitKey(rng, fmt.Sprintf("pad-wit%d", i), kinds[i]))
		}
		var logs []*logDef
		for i := 0; i < 18; i++ {
			logs = append(logs, &logDef{origin: fmt.Sprintf("pad.example/%d/log-%d", k, i), key: key})
		}
		s := newSession(t, stores[k%len(stores)], logs, pwk)
		li := 0
		for inLines := 96; inLines <= 101; inLines++ {
			for path := 0; path < 3; path++ {
				l := logs[li]
				li++
				s.truth(l, trunk, seq(1, uint64(N+1)))
				stored := uint64(0)
				var proof [][]byte
				if path > 0 {
					stored = []uint64{0, 2, T}[path]
					s.update(l.id, 0, signNote(cpText(l.origin, stored, trunk.root(stored)), key.signer), [][]byte{}, "class=setup")
					proof = trunk.consistency(stored, T)
				}
				if proof == nil {
					proof = [][]byte{}
				}
				cp := signNote(cpText(l.origin, T, trunk.root(T)), key.signer)
				cp = append(cp, junkSigLines(rng, inLines-1)...)
				res := s.update(l.id, stored, cp, proof, fmt.Sprintf("class=pad.%d.%d", k, inLines))
				at := stored
				if res.cls == "none" {
					at = T
				}
				if at > 0 {
					pr := trunk.consistency(at, T)
					if pr == nil {
						pr = [][]byte{}
					}
					s.update(l.id, at, signNote(cpText(l.origin, T, trunk.root(T)), key.signer), pr, "class=probe probe=1")
				}
			}
		}
		s.end()
	}
}

func seq(a, b uint64) []uint64 {
	r := []uint64{}
	for i := a; i <= b; i++ {
		r = append(r, i)
	}
	return r
}

// ---------------------------------------------------------------- random histories

type world struct {
	rng      *rand.Rand
	t        *traceWriter
	keys     []logKey
	wk       []witKey
	otherKey logKey
}

type logState struct {
	l        *logDef
	branches []*branch
	cur      *branch // branch of the stored checkpoint (nil if unknown / nothing stored)
	curSize  uint64
	has      bool
}

func (ls *logState) observe(res updResult, plain note.Verifier) {
	if res.cls != "none" || res.ret == nil {
		return
	}
	cp, _, _, err := f_log.ParseCheckpoint(res.ret, ls.l.origin, plain)
	if err != nil {
		// what the witness returned does not open (e.g. more than 100 signature lines): read size and root from the
		// text, which is the log's, so that the honest probe still knows where the log stands
		if i := bytes.LastIndex(res.ret, []byte("\n\n")); i >= 0 {
			var c2 f_log.Checkpoint
			if _, e2 := c2.Unmarshal(res.ret[:i+1]); e2 == nil {
				cp = &c2
			}
		}
		if cp == nil {
			ls.has, ls.cur = true, nil
			return
		}
	}
	ls.has = true
	ls.curSize = cp.Size
	// keep the current branch if it still matches, else find one
	cands := ls.branches
	if ls.cur != nil {
		cands = append([]*branch{ls.cur}, ls.branches...)
	}
	ls.cur = nil
	for _, b := range cands {
		if cp.Size <= b.size() && string(b.root(cp.Size)) == string(cp.Hash) {
			ls.cur = b
			return
		}
	}
}

func bigSize(rng *rand.Rand) uint64 {
	switch rng.Intn(6) {
	case 0:
		return uint64(1) << uint(rng.Intn(63))
	case 1:
		return (uint64(1) << uint(1+rng.Intn(62))) - 1
	case 2:
		return (uint64(1) << uint(1+rng.Intn(62))) + 1
	case 3:
		return uint64(rng.Int63())
	case 4:
		return uint64(rng.Intn(1 << 16))
	}
	return uint64(rng.Intn(40))
}

// genRequest builds one request against log state ls; returns old, cp, proof, class.
func (w *world) genRequest(ls *logState) (uint64, []byte, [][]byte, string) {
	rng := w.rng
	l := ls.l
	stored := uint64(0)
	if ls.has {
		stored = ls.curSize
	}
	cur := ls.cur
	if cur == nil {
		cur = ls.branches[0]
	}
	maxSz := cur.size()
	pickSize := func(b *branch, atLeast uint64) uint64 {
		if b.virtual {
			for i := 0; i < 10; i++ {
				s := bigSize(rng)
				if s >= atLeast && s <= b.size() {
					return s
				}
			}
			return atLeast
		}
		if atLeast >= b.size() {
			return b.size()
		}
		return atLeast + uint64(rng.Intn(int(b.size()-atLeast)+1))
	}
	class := rng.Intn(100)
	if (!ls.has || stored == 0) && rng.Intn(6) == 0 {
		// the size-0 placeholder: Update has a branch of its own for it.  The empty tree's root, or any other 32 bytes a
		// log chooses to sign beside size 0; another text for the same tree head; a proof between two empty trees
		root := [][]byte{cur.root(0), cur.root(0), randHash(rng, 32), cur.root(min64(1, maxSz))}[rng.Intn(4)]
		ext := []string{}
		if rng.Intn(2) == 0 {
			ext = append(ext, fmt.Sprintf("Timestamp: %d", rng.Int63()))
		}
		proof := [][]byte{}
		if rng.Intn(4) == 0 {
			proof = [][]byte{randHash(rng, 32)}
		}
		old := uint64(0)
		if rng.Intn(8) == 0 {
			old = 1
		}
		return old, signNote(cpText(l.origin, 0, root, ext...), l.key.signer), proof, "zero"
	}
	switch {
	case class < 30: // honest next / refresh
		size := pickSize(cur, stored)
		if size < stored {
			size = stored
		}
		if size > maxSz {
			size = maxSz
		}
		proof := [][]byte{}
		if stored > 0 && stored < size {
			proof = cur.consistency(stored, size)
		}
		cp := signNote(cpText(l.origin, size, cur.root(size)), l.key.signer)
		return stored, cp, proof, "honest"
	case class < 40: // fork: other branch, consistent sizes, that branch's proof
		b := ls.branches[rng.Intn(len(ls.branches))]
		size := pickSize(b, stored)
		pc := proofClass(rng.Intn(int(nProofClasses)))
		proof := mkProof(rng, b, stored, size, pc)
		cp := signNote(cpText(l.origin, size, b.root(size)), l.key.signer)
		return stored, cp, proof, "fork." + proofClassNames[pc]
	case class < 48: // smaller checkpoint
		size := uint64(0)
		if stored > 0 {
			size = uint64(rng.Int63n(int64(stored%(1<<62)) + 1))
		}
		old := stored
		if rng.Intn(2) == 0 {
			old = size
		}
		cp := signNote(cpText(l.origin, size, cur.root(min64(size, maxSz))), l.key.signer)
		return old, cp, mkProof(rng, cur, size, stored, proofClass(rng.Intn(int(nProofClasses)))), "smaller"
	case class < 60: // wrong old size
		size := pickSize(cur, stored)
		olds := []uint64{stored + 1, stored - 1, 0, ^uint64(0), size, size + 1, bigSize(rng)}
		old := olds[rng.Intn(len(olds))]
		proof := mkProof(rng, cur, old, size, proofClass(rng.Intn(int(nProofClasses))))
		cp := signNote(cpText(l.origin, size, cur.root(size)), l.key.signer)
		return old, cp, proof, "wrongOld"
	case class < 75: // proof mutations on an otherwise honest step
		size := pickSize(cur, stored)
		pc := proofClass(rng.Intn(int(nProofClasses)))
		proof := mkProof(rng, cur, stored, size, pc)
		cp := signNote(cpText(l.origin, size, cur.root(size)), l.key.signer)
		return stored, cp, proof, "proof." + proofClassNames[pc]
	case class < 80: // same size different root
		b := ls.branches[rng.Intn(len(ls.branches))]
		size := stored
		if size > b.size() {
			size = b.size()
		}
		cp := signNote(cpText(l.origin, size, b.root(size)), l.key.signer)
		return stored, cp, mkProof(rng, b, stored, size, proofClass(rng.Intn(2))), "sameSize"
	case class < 90: // note shapes that should still be accepted (extension lines, extra signature lines)
		size := pickSize(cur, stored)
		proof := [][]byte{}
		if stored > 0 && stored < size {
			proof = cur.consistency(stored, size)
		}
		ext := []string{}
		for i := rng.Intn(3); i > 0; i-- {
			ext = append(ext, fmt.Sprintf("ext-%d %x", i, rng.Int63()))
			if rng.Intn(3) == 0 {
				// bytes that mean something to printf, templates, URLs, shells or JSON when text is mishandled on its way out
				specials := []string{"93% full", "%s %d %v %!x(MISSING)", "100%", "a%20b%0A", "{{.}} ${HOME} `x`", "\\n \\x00 \"q\"", "<&>", "é→✓ \u2028"}
				ext = append(ext, specials[rng.Intn(len(specials))])
			}
		}
		text := cpText(l.origin, size, cur.root(size), ext...)
		signers := []note.Signer{l.key.signer}
		switch rng.Intn(7) {
		case 5, 6:
			// lines that impersonate the witness: its name under ANOTHER key hash (so note.Sign does not replace them),
			// shaped like a cosignature/v1 (8-byte timestamp + 64-byte signature) dated far in the future or at 0,
			// or like a legacy signature; nothing such a line says may matter to the witness
			wkx := w.wk[rng.Intn(len(w.wk))]
			ts := []uint64{1<<63 - 1, uint64(time.Now().Unix()) + 10*365*86400, 0, 1 << 62}[rng.Intn(4)]
			signers = append(signers, impersonator{name: wkx.signer.Name(), hash: wkx.signer.KeyHash() + 1 + uint32(rng.Intn(3)), ts: ts, legacy: rng.Intn(3) == 0, rng: rng})
		case 0:
			signers = append(signers, w.otherKey.signer)
		case 1:
			signers = append([]note.Signer{w.otherKey.signer}, signers...)
		case 2: // stale witness signatures
			for _, k := range w.wk {
				signers = append(signers, k.signer)
			}
		case 3: // forged line in the witness's name
			signers = append(signers, forgedSigner{name: w.wk[0].signer.Name(), hash: w.wk[0].signer.KeyHash(), rng: rng})
		}
		cp := signNote(text, signers...)
		if rng.Intn(4) == 0 { // extra junk signature lines
			cp = append(cp, junkSigLines(rng, 1+rng.Intn(5))...)
		} else if rng.Intn(6) == 0 { // up to the note format's maximum number of signature lines (100)
			have := bytes.Count(cp[bytes.LastIndex(cp, []byte("\n\n"))+2:], []byte("\n"))
			cp = append(cp, junkSigLines(rng, 100-have-rng.Intn(4))...)
		}
		return stored, cp, proof, "shape"
	default: // corrupted / unauthentic
		size := pickSize(cur, stored)
		text := cpText(l.origin, size, cur.root(size))
		var cp []byte
		kind := rng.Intn(7)
		switch kind {
		case 0: // signed by another key only
			cp = signNote(text, w.otherKey.signer)
		case 1: // wrong origin
			cp = signNote(cpText(l.origin+"x", size, cur.root(size)), l.key.signer)
		case 2: // bit flip
			cp = signNote(text, l.key.signer)
			cp[rng.Intn(len(cp))] ^= 1 << uint(rng.Intn(8))
		case 3: // truncation
			cp = signNote(text, l.key.signer)
			cp = cp[:rng.Intn(len(cp))]
		case 4: // forged log signature
			cp = signNote(text, forgedSigner{name: l.key.signer.Name(), hash: l.key.signer.KeyHash(), rng: rng})
		case 5: // body that does not parse as a checkpoint but is validly signed
			bodies := []string{l.origin + "\n", l.origin + "\nnotanumber\nAAAA\n", l.origin + "\n18446744073709551616\nAAAA\n",
				l.origin + "\n5\n!!!!\n", "\n5\nAAAA\n", l.origin + "\n05\nAAAA\n", l.origin + "\n+5\nAAAA\n", l.origin + "\n5\nAAAA"}
			b := bodies[rng.Intn(len(bodies))]
			if !strings.HasSuffix(b, "\n") {
				b += "\n"
			}
			cp = signNote(b, l.key.signer)
		default: // random bytes
			cp = randHash(rng, rng.Intn(200))
		}
		return stored, cp, [][]byte{}, fmt.Sprintf("corrupt.%d", kind)
	}
}

func min64(a, b uint64) uint64 {
	if a < b {
		return a
	}
	return b
}

type forgedSigner struct {
	name string
	hash uint32
	rng  *rand.Rand
}

func (f forgedSigner) Name() string    { return f.name }
func (f forgedSigner) KeyHash() uint32 { return f.hash }
func (f forgedSigner) Sign(msg []byte) ([]byte, error) {
	return randHash(f.rng, 64), nil
}

// impersonator signs under somebody else's name with its own key hash: a cosignature/v1-shaped blob (timestamp ts,
// then 64 bytes) or a bare 64-byte one.
type impersonator struct {
	name   string
	hash   uint32
	ts     uint64
	legacy bool
	rng    *rand.Rand
}

func (f impersonator) Name() string    { return f.name }
func (f impersonator) KeyHash() uint32 { return f.hash }
func (f impersonator) Sign(msg []byte) ([]byte, error) {
	if f.legacy {
		return randHash(f.rng, 64), nil
	}
	b := make([]byte, 8)
	binary.BigEndian.PutUint64(b, f.ts)
	return append(b, randHash(f.rng, 64)...), nil
}

func junkSigLines(rng *rand.Rand, n int) []byte {
	var b []byte
	for i := 0; i < n; i++ {
		raw := randHash(rng, 4+64)
		b = append(b, []byte(fmt.Sprintf("— junk%d-%d %s\n", i, rng.Intn(1000), base64.StdEncoding.EncodeToString(raw)))...)
	}
	return b
}

func (w *world) newLogState(origin string, key logKey, virtual bool) *logState {
	ls := &logState{l: &logDef{origin: origin, key: key}}
	if virtual {
		max := uint64(1)<<63 - 1
		trunk := newVirtualBranch("vtrunk", max, max, origin+"/a", origin+"/a")
		ls.branches = []*branch{trunk}
		for _, f := range []uint64{0, 1, 5, 1 << 20, 1<<40 + 3} {
			ls.branches = append(ls.branches, newVirtualBranch(fmt.Sprintf("vf%d", f), f, max, origin+"/a", origin+"/b"))
		}
	} else {
		n := 20
		trunk := newExplicitBranch("trunk", n, nil, 0)
		ls.branches = []*branch{trunk}
		for _, f := range []int{0, 1, 4, 8, 9} {
			ls.branches = append(ls.branches, newExplicitBranch(fmt.Sprintf("f%d", f), n, trunk, f))
		}
	}
	return ls
}

func scenarioHist(t *traceWriter, rng *rand.Rand) {
	nHist := pick(120, 3000)
	maxLen := 12
	if thorough() {
		maxLen = 40
	}
	w := &world{rng: rng, t: t}
	w.otherKey = genLogKey(rng, "other-log")
	keyA := genLogKey(rng, "log-a")
	keyB := genLogKey(rng, "log-b")
	wkSets := [][]witKey{
		{genWitKey(rng, "wit-1", "ed25519"), genWitKey(rng, "wit-1", "cosigv1")},
		{genWitKey(rng, "wit-2", "cosigv1")},
		{genWitKey(rng, "wit-3", "ed25519")},
		{genWitKey(rng, "wit-4", "ed25519"), genWitKey(rng, "wit-5", "cosigv1"), genWitKey(rng, "wit-6", "cosigv1")},
	}
	stores := []string{"mem", "sql", "mem", "sqlfile"}
	for h := 0; h < nHist; h++ {
		w.wk = wkSets[rng.Intn(len(wkSets))]
		nLogs := 1 + rng.Intn(3)
		var lss []*logState
		for i := 0; i < nLogs; i++ {
			key := keyA
			if i == 2 {
				key = keyB
			} // logs 0 and 1 share a key under different origins
			lss = append(lss, w.newLogState(fmt.Sprintf("hist.example/%d/log%d", h, i), key, rng.Intn(4) == 0))
		}
		var defs []*logDef
		for _, ls := range lss {
			defs = append(defs, ls.l)
		}
		s := newSession(t, stores[h%len(stores)], defs, w.wk)
		s.unknownIDs = []string{f_log.ID("unknown.example/log")}
		for _, ls := range lss {
			if !ls.branches[0].virtual {
				for _, b := range ls.branches {
					s.truth(ls.l, b, seq(1, b.size()))
				}
			}
		}
		plain := map[*logState]note.Verifier{}
		for _, ls := range lss {
			plain[ls] = ls.l.key.verif
		}
		n := 1 + rng.Intn(maxLen)
		type pastReq struct {
			old   uint64
			cp    []byte
			proof [][]byte
			from  *logState
		}
		var past []pastReq
		for i := 0; i < n; i++ {
			ls := lss[rng.Intn(len(lss))]
			if len(past) > 0 && rng.Intn(8) == 0 {
				// replay bytes this witness has already seen, under the same or another configured log's ID
				pr := past[rng.Intn(len(past))]
				target := lss[rng.Intn(len(lss))]
				cls := "replay.same"
				if target != pr.from {
					cls = "replay.crossLog"
				}
				old := pr.old
				if rng.Intn(2) == 0 && target.has {
					old = target.curSize
				}
				res := s.update(target.l.id, old, pr.cp, pr.proof, "class="+cls)
				target.observe(res, plain[target])
				continue
			}
			if rng.Intn(25) == 0 { // unknown log id, or a checkpoint filed under another configured log's id
				old, cp, proof, _ := w.genRequest(ls)
				id := s.unknownIDs[0]
				cls := "unknownLog"
				if len(lss) > 1 && rng.Intn(2) == 0 {
					other := lss[rng.Intn(len(lss))]
					id, cls = other.l.id, "crossLog"
					res := s.update(id, old, cp, proof, "class="+cls)
					other.observe(res, plain[other])
					continue
				}
				s.update(id, old, cp, proof, "class="+cls)
				continue
			}
			old, cp, proof, class := w.genRequest(ls)
			res := s.update(ls.l.id, old, cp, proof, "class="+class)
			ls.observe(res, plain[ls])
			past = append(past, pastReq{old, cp, proof, ls})
		}
		// honest probes: an honest log can always move the witness forward (C08)
		for _, ls := range lss {
			if ls.has && ls.cur == nil {
				continue // the witness holds a checkpoint of no known branch: no honest log to speak of
			}
			cur := ls.cur
			if cur == nil {
				cur = ls.branches[0]
			}
			stored := uint64(0)
			if ls.has {
				stored = ls.curSize
			}
			size := stored
			if !cur.virtual {
				size = stored + uint64(rng.Intn(int(cur.size()-stored)+1))
			} else if rng.Intn(2) == 0 {
				size = stored + uint64(rng.Int63n(1<<40))
			}
			proof := [][]byte{}
			if stored > 0 && stored < size {
				proof = cur.consistency(stored, size)
			}
			cp := signNote(cpText(ls.l.origin, size, cur.root(size)), ls.l.key.signer)
			res := s.update(ls.l.id, stored, cp, proof, "class=probe probe=1")
			ls.observe(res, plain[ls])
		}
		s.end()
	}
}

// ---------------------------------------------------------------- C02: mutation streams over one valid checkpoint

func scenarioNoteMut(t *traceWriter, rng *rand.Rand) {
	nCfg := pick(2, 8)
	for c := 0; c < nCfg; c++ {
		keyA := genLogKey(rng, fmt.Sprintf("mut-a%d", c))
		keyB := genLogKey(rng, fmt.Sprintf("mut-b%d", c))
		wk := []witKey{genWitKey(rng, "mwit", "ed25519"), genWitKey(rng, "mwit", "cosigv1")}
		tr := newExplicitBranch("trunk", 9, nil, 0)
		defs := []*logDef{
			{origin: fmt.Sprintf("mut.example/%d/a", c), key: keyA},
			{origin: fmt.Sprintf("mut.example/%d/a2", c), key: keyA}, // shares the key of the first
			{origin: fmt.Sprintf("mut.example/%d/b", c), key: keyB},
		}
		s := newSession(t, []string{"mem", "sql"}[c%2], defs, wk)
		l := defs[0]
		withState := c%2 == 1
		if withState {
			s.update(l.id, 0, signNote(cpText(l.origin, 3, tr.root(3)), l.key.signer), [][]byte{}, "class=setup")
		}
		old := uint64(0)
		proof := [][]byte{}
		if withState {
			old = 3
			proof = tr.consistency(3, 7)
		}
		valid := signNote(cpText(l.origin, 7, tr.root(7)), l.key.signer)
		try := func(cp []byte, class string) {
			res := s.update(l.id, old, cp, proof, "class="+class)
			if res.cls == "none" {
				// put the state back so that every mutation meets the same state
				s.end2reset(l, withState, tr)
			}
		}
		_ = try
		// every single-bit flip
		step := 1
		if !thorough() {
			step = 3
		}
		for i := 0; i < len(valid)*8; i += step {
			m := append([]byte{}, valid...)
			m[i/8] ^= 1 << uint(i%8)
			s.updateFresh(defs, wk, l, withState, tr, old, m, proof, "mut.bitflip")
		}
		for n := 0; n < len(valid); n += step {
			s.updateFresh(defs, wk, l, withState, tr, old, valid[:n], proof, "mut.trunc")
		}
		// line edits
		lines := strings.SplitAfter(string(valid), "\n")
		for i := range lines {
			// delete, duplicate, swap with next, CR, tab, non-UTF-8, control byte
			del := strings.Join(append(append([]string{}, lines[:i]...), lines[i+1:]...), "")
			s.updateFresh(defs, wk, l, withState, tr, old, []byte(del), proof, "mut.lineDel")
			dup := strings.Join(append(append(append([]string{}, lines[:i+1]...), lines[i]), lines[i+1:]...), "")
			s.updateFresh(defs, wk, l, withState, tr, old, []byte(dup), proof, "mut.lineDup")
			if i+1 < len(lines) {
				sw := append([]string{}, lines...)
				sw[i], sw[i+1] = sw[i+1], sw[i]
				s.updateFresh(defs, wk, l, withState, tr, old, []byte(strings.Join(sw, "")), proof, "mut.lineSwap")
			}
			for _, ins := range []string{"\r", "\t", "\xff", "\x01", " ", "\n", " ", " "} {
				ed := append([]string{}, lines...)
				ed[i] = strings.TrimSuffix(ed[i], "\n") + ins + "\n"
				s.updateFresh(defs, wk, l, withState, tr, old, []byte(strings.Join(ed, "")), proof, "mut.lineIns")
				ed2 := append([]string{}, lines...)
				ed2[i] = ins + ed2[i]
				s.updateFresh(defs, wk, l, withState, tr, old, []byte(strings.Join(ed2, "")), proof, "mut.linePre")
			}
		}
		// signature-block edits
		text := cpText(l.origin, 7, tr.root(7))
		sigBlocks := [][]note.Signer{
			{keyB.signer},               // other configured log's key
			{keyB.signer, l.key.signer}, // both
			{l.key.signer, keyB.signer},
			{forgedSigner{l.key.signer.Name(), l.key.signer.KeyHash(), rng}},             // right name/hash, bad signature
			{forgedSigner{l.key.signer.Name(), l.key.signer.KeyHash() + 1, rng}},         // wrong key hash
			{forgedSigner{l.key.signer.Name() + "x", l.key.signer.KeyHash(), rng}},       // wrong name
			{forgedSigner{l.key.signer.Name(), l.key.signer.KeyHash(), rng}, l.key.signer}, // invalid first, valid second (same key)
			{l.key.signer, forgedSigner{l.key.signer.Name(), l.key.signer.KeyHash(), rng}}, // valid first, invalid duplicate
			{keyB.signer, forgedSigner{l.key.signer.Name(), l.key.signer.KeyHash(), rng}},
			{l.key.signer, wk[0].signer, wk[1].signer},
		}
		for _, sb := range sigBlocks {
			s.updateFresh(defs, wk, l, withState, tr, old, signNote(text, sb...), proof, "mut.sigBlock")
		}
		// cross-log replays: a's checkpoint under a2 and b; a2's checkpoint (same key, other origin) under a
		for _, other := range defs[1:] {
			s.updateFresh(defs, wk, other, false, tr, 0, valid, [][]byte{}, "mut.crossLog")
			oc := signNote(cpText(other.origin, 7, tr.root(7)), other.key.signer)
			s.updateFresh(defs, wk, l, withState, tr, old, oc, proof, "mut.crossOrigin")
		}
		// relabelled signatures: a text carrying one log's origin but signed by ANOTHER configured log's key is
		// first shown to the witness under that other log's id (so that key verifies it, whatever the verdict),
		// then resubmitted under the origin's own id with the signature line relabelled to the right key's
		// name and hash (signature bytes unchanged).  Anything remembered about "this text and signature were
		// good" without remembering under which key shows here.
		for _, pair := range [][2]*logDef{{defs[0], defs[2]}, {defs[2], defs[0]}} {
			victim, signer := pair[0], pair[1]
			forged := signNote(cpText(victim.origin, 7, tr.root(7)), signer.key.signer)
			s.updateFresh(defs, wk, signer, false, tr, 0, forged, [][]byte{}, "mut.relabelPrime")
			rl := relabelSig(forged, victim.key.verif.Name(), victim.key.verif.KeyHash())
			vold, vproof := uint64(0), [][]byte{}
			if victim == l {
				vold, vproof = old, proof
			}
			s.updateFresh(defs, wk, victim, withState, tr, vold, rl, vproof, "mut.relabel")
		}
		// unknown id
		s.update(f_log.ID("nobody.example/x"), 0, valid, [][]byte{}, "class=mut.unknownLog")
		// ids that are NOT configured but resemble a configured one: other letter case, padding, prefix, suffix
		for _, v := range []string{strings.ToUpper(l.id), strings.ToUpper(l.id[:1]) + l.id[1:], l.id[:len(l.id)-1] + strings.ToUpper(l.id[len(l.id)-1:]),
			l.id + " ", " " + l.id, l.id + "\n", l.id[:len(l.id)-1], l.id + "0", "0x" + l.id, l.id + "/", strings.Repeat("0", 64), ""} {
			if v == l.id {
				continue
			}
			s.updateFreshID(defs, wk, v, valid, "mut.unknownLogVariant")
		}
		// boundary shift: a genuine checkpoint with extension lines is accepted; then its last text lines are moved
		// into the signature blob (text cut after line 3 or 4, signature = key hash ‖ the cut-off lines ‖ the genuine
		// signature).  text‖signature is byte-for-byte what the log signed, split elsewhere: it must not verify.
		{
			ve := signNote(cpText(l.origin, 7, tr.root(7), "ext-one", "ext-two 93%"), l.key.signer)
			res := s.update(l.id, old, ve, proof, "class=mut.primeExt")
			at := old
			if res.cls == "none" {
				at = 7
			}
			for _, keep := range []int{3, 4} {
				s.update(l.id, at, shiftBoundary(ve, keep), [][]byte{}, "class=mut.boundaryShift")
			}
		}
		s.end()
	}
}

// updateFresh runs one request; when it is accepted the log's state is restored by recreating the witness
// lazily: simplest sound way here is to run every mutation in the same session and, after an acceptance,
// continue in a fresh session (the session id changes, the model follows).
// updateFreshID: a request under an id that is not configured; if it is accepted all the same, go on in a fresh session.
func (s *session) updateFreshID(defs []*logDef, wk []witKey, id string, cp []byte, class string) {
	s.unknownIDs = append(s.unknownIDs, id)
	res := s.update(id, 0, cp, [][]byte{}, "class="+class)
	if res.cls == "none" {
		s.t.line("END %s", s.id)
		s.store.close()
		ns := newSession(s.t, s.store.kind, defs, wk)
		*s = *ns
	}
}

func (s *session) updateFresh(defs []*logDef, wk []witKey, l *logDef, withState bool, tr *branch, old uint64, cp []byte, proof [][]byte, class string) {
	res := s.update(l.id, old, cp, proof, "class="+class)
	if res.cls == "none" {
		// restore: new store, same configuration
		s.t.line("END %s", s.id)
		s.store.close()
		ns := newSession(s.t, s.store.kind, defs, wk)
		*s = *ns
		if withState {
			s.update(defs[0].id, 0, signNote(cpText(defs[0].origin, 3, tr.root(3)), defs[0].key.signer), [][]byte{}, "class=setup")
		}
	}
}

// shiftBoundary keeps the first `keep` lines of a note's text and moves the rest of the text into the signature
// blob of the (single) signature line, right after the 4 key-hash bytes.
func shiftBoundary(n []byte, keep int) []byte {
	i := bytes.LastIndex(n, []byte("\n\n"))
	if i < 0 {
		return n
	}
	text, sigs := string(n[:i+1]), strings.TrimSuffix(string(n[i+2:]), "\n")
	lines := strings.SplitAfter(text, "\n")
	if keep >= len(lines) {
		return n
	}
	moved := strings.Join(lines[keep:], "")
	sp := strings.LastIndex(sigs, " ")
	raw, err := base64.StdEncoding.DecodeString(sigs[sp+1:])
	if err != nil || len(raw) < 5 {
		return n
	}
	nraw := append(append(append([]byte{}, raw[:4]...), []byte(moved)...), raw[4:]...)
	return []byte(strings.Join(lines[:keep], "") + "\n" + sigs[:sp+1] + base64.StdEncoding.EncodeToString(nraw) + "\n")
}

// relabelSig rewrites the last signature line of a note to carry another key name and key hash, keeping the
// signature bytes.
func relabelSig(n []byte, name string, hash uint32) []byte {
	lines := strings.Split(strings.TrimSuffix(string(n), "\n"), "\n")
	last := lines[len(lines)-1]
	i := strings.LastIndex(last, " ")
	raw, err := base64.StdEncoding.DecodeString(last[i+1:])
	if err != nil || len(raw) < 5 {
		return n
	}
	binary.BigEndian.PutUint32(raw[:4], hash)
	lines[len(lines)-1] = "\u2014 " + name + " " + base64.StdEncoding.EncodeToString(raw)
	return []byte(strings.Join(lines, "\n") + "\n")
}

func (s *session) end2reset(l *logDef, withState bool, tr *branch) {}

// ---------------------------------------------------------------- C12: merged history vs each log's history alone

func init() { scenarios["isolation"] = scenarioIsolation }

type preReq struct {
	old   uint64
	cp    []byte
	proof [][]byte
}

func textDigest(b []byte) string {
	if b == nil {
		return "-"
	}
	i := bytes.LastIndex(b, []byte("\n\n"))
	if i < 0 {
		return "?"
	}
	return hx(leafHash(b[:i+1])[:6])
}

func scenarioIsolation(t *traceWriter, rng *rand.Rand) {
	n := pick(30, 400)
	keyA := genLogKey(rng, "iso-a")
	keyB := genLogKey(rng, "iso-b")
	wk := []witKey{genWitKey(rng, "isowit", "ed25519"), genWitKey(rng, "isowit", "cosigv1")}
	stores := []string{"mem", "sql"}
	for c := 0; c < n; c++ {
		nLogs := 2 + rng.Intn(4)
		tr := newExplicitBranch("trunk", 48, nil, 0)
		fk := newExplicitBranch("f3", 48, tr, 3)
		var defs []*logDef
		hist := map[int][]preReq{}
		for i := 0; i < nLogs; i++ {
			k := keyA
			if i >= 3 {
				k = keyB
			} // the first three share a key under different origins
			defs = append(defs, &logDef{origin: fmt.Sprintf("iso.example/%d/log%d", c, i), key: k})
		}
		for i, l := range defs {
			// a state-independent history: a chain of honest steps with some bad requests thrown in
			sizes := []uint64{uint64(rng.Intn(4))}
			for len(sizes) < 2+rng.Intn(4) {
				sizes = append(sizes, sizes[len(sizes)-1]+uint64(rng.Intn(4)))
			}
			prev := uint64(0)
			first := true
			for _, sz := range sizes {
				pr := [][]byte{}
				if !first && prev > 0 && prev < sz {
					pr = tr.consistency(prev, sz)
				}
				old := prev
				if first {
					old = 0
				}
				hist[i] = append(hist[i], preReq{old, signNote(cpText(l.origin, sz, tr.root(sz)), l.key.signer), pr})
				switch rng.Intn(5) {
				case 0: // a fork attempt
					hist[i] = append(hist[i], preReq{sz, signNote(cpText(l.origin, sz+2, fk.root(sz+2)), l.key.signer), fk.consistency(maxU(sz, 1), sz+2)})
				case 1: // another configured log's checkpoint under this ID
					o := defs[rng.Intn(len(defs))]
					xp := [][]byte{}
					if sz > 0 {
						xp = tr.consistency(sz, sz+1)
					}
					hist[i] = append(hist[i], preReq{sz, signNote(cpText(o.origin, sz+1, tr.root(sz+1)), o.key.signer), xp})
				case 2: // stale
					hist[i] = append(hist[i], preReq{sz + 5, signNote(cpText(l.origin, sz+6, tr.root(sz+6)), l.key.signer), [][]byte{}})
				}
				prev, first = sz, false
			}
		}
		// merged run
		type outc struct{ per map[int][]string }
		run := func(order [][2]int, only int) map[int][]string {
			s := newSession(t, stores[c%2], defs, wk)
			res := map[int][]string{}
			for _, o := range order {
				li, ri := o[0], o[1]
				if only >= 0 && li != only {
					continue
				}
				r := hist[li][ri]
				u := s.update(defs[li].id, r.old, r.cp, r.proof, "class=iso")
				res[li] = append(res[li], u.cls+":"+textDigest(u.ret))
			}
			for li, l := range defs {
				if only >= 0 && li != only {
					continue
				}
				res[li] = append(res[li], "final:"+textDigest(mustState(s, l.id)))
			}
			s.end()
			return res
		}
		// a random merge preserving each log's own order
		var order [][2]int
		idx := make([]int, nLogs)
		for {
			var cand []int
			for i := range defs {
				if idx[i] < len(hist[i]) {
					cand = append(cand, i)
				}
			}
			if len(cand) == 0 {
				break
			}
			i := cand[rng.Intn(len(cand))]
			order = append(order, [2]int{i, idx[i]})
			idx[i]++
		}
		merged := run(order, -1)
		for i, l := range defs {
			alone := run(order, i)
			t.line("ISO log=%s merged=%s alone=%s", hx([]byte(l.id)), strings.Join(merged[i], ","), strings.Join(alone[i], ","))
		}
	}
}

func maxU(a, b uint64) uint64 {
	if a > b {
		return a
	}
	return b
}
