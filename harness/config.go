package main

import (
	"net"
	"sync"
	"bytes"
	"context"
	"crypto/ecdsa"
	"crypto/elliptic"
	"crypto/sha256"
	"crypto/x509"
	"encoding/base64"
	"encoding/binary"
	"errors"
	"fmt"
	"math/rand"
	"net/http"
	"os"
	"sort"
	"strings"
	"time"

	f_note "github.com/transparency-dev/formats/note"
	"github.com/transparency-dev/witness/internal/config"
	"github.com/transparency-dev/witness/internal/persistence/inmemory"
	"github.com/transparency-dev/witness/internal/witness"
	"github.com/transparency-dev/witness/omniwitness"
	"golang.org/x/mod/sumdb/note"
	"gopkg.in/yaml.v3"
)

func init() {
	scenarios["config"] = scenarioConfig
	scenarios["cfgmap"] = scenarioCfgMap
}

var feederNameList = []string{"serverless", "sumdb", "pixel", "rekor", "tiles", "none"}

func feederName(f omniwitness.Feeder) string {
	for _, n := range feederNameList {
		if v, err := omniwitness.ParseFeeder(n); err == nil && v == f {
			return n
		}
	}
	return fmt.Sprintf("unknown-%d", f)
}

type failingTransport struct{}

func (failingTransport) RoundTrip(*http.Request) (*http.Response, error) {
	return nil, errors.New("no network in the harness")
}

type nullWitness struct{}

func (nullWitness) GetLatestCheckpoint(ctx context.Context, logID string) ([]byte, error) {
	return nil, os.ErrNotExist
}
func (nullWitness) Update(ctx context.Context, logID string, oldSize uint64, newCP []byte, proof [][]byte) ([]byte, error) {
	return nil, errors.New("null witness")
}

// prologue runs the feeder for one cycle with no network: an error raised before the first request is a
// start-up failure caused by the configuration.
func prologue(li omniwitness.LogInfo, lc config.Log) (res string) {
	defer func() {
		if r := recover(); r != nil {
			res = "panic"
		}
	}()
	if feederName(li.Feeder) == "none" {
		return "n/a"
	}
	ctx, cancel := context.WithTimeout(context.Background(), 2*time.Second)
	defer cancel()
	err := li.Feeder.FeedFunc()(ctx, lc, nullWitness{}, &http.Client{Transport: failingTransport{}}, 0)
	if err == nil {
		return "ok"
	}
	e := err.Error()
	if strings.Contains(e, "no network in the harness") {
		return "ok" // got as far as its first request
	}
	return "err"
}

func loadAndReport(t *traceWriter, file string, data []byte) {
	cfg := omniwitness.LogConfig{}
	if err := yaml.Unmarshal(data, &cfg); err != nil {
		t.line("CFM file=%s n=0 => aslogmap=err:yaml feeders=0", file)
		return
	}
	var ids []string
	nFeed := 0
	for i, l := range cfg.Logs {
		lc, err := config.NewLog(l.Origin, l.PublicKey, l.URL)
		nl := "err"
		pro := "n/a"
		if err == nil {
			nl = fmt.Sprintf("ok:%s:%s:%d", hx([]byte(lc.ID)), hx([]byte(lc.Verifier.Name())), lc.Verifier.KeyHash())
			ids = append(ids, lc.ID)
			pro = prologue(l, lc)
		}
		fn := feederName(l.Feeder)
		if fn != "none" {
			nFeed++
		}
		t.line("CF file=%s idx=%d origin=%s pk=%s url=%s feeder=%s => newlog=%s prologue=%s", file, i, hx([]byte(l.Origin)), hx([]byte(l.PublicKey)), hx([]byte(l.URL)), fn, nl, pro)
	}
	m, err := cfg.AsLogMap()
	am := "err"
	if err == nil {
		var keys []string
		for k, v := range m {
			keys = append(keys, fmt.Sprintf("%s=%s/%d/%s", hx([]byte(k)), hx([]byte(v.SigV.Name())), v.SigV.KeyHash(), hx([]byte(v.Origin))))
		}
		sort.Strings(keys)
		am = "ok:" + strings.Join(keys, ",")
	}
	sort.Strings(ids)
	// the witness itself must accept the map (omniwitness.Main passes it to witness.New)
	wit := "n/a"
	if err == nil {
		wit = "ok"
		func() {
			defer func() {
				if r := recover(); r != nil {
					wit = "panic"
				}
			}()
			k := genWitKey(rand.New(rand.NewSource(7)), "cfg-wit", "cosigv1")
			if _, werr := witness.New(witness.Opts{Persistence: inmemory.NewPersistence(), Signers: []note.Signer{k.signer}, KnownLogs: m}); werr != nil {
				wit = "err:" + hx([]byte(werr.Error()))
			}
		}()
	}
	t.line("CFM file=%s n=%d => aslogmap=%s feeders=%d witness=%s", file, len(cfg.Logs), am, nFeed, wit)
}

// mainStartsOnShipped runs omniwitness.Main on the configuration that is compiled into the binary, exactly the path the
// production binary takes to load it (no feeders, no bastion, no distributor: only loading and the HTTP server), and
// reports whether it is still serving after a moment.
func mainStartsOnShipped(t *traceWriter) {
	k := genWitKey(rand.New(rand.NewSource(11)), "cfg-main-wit", "cosigv1")
	ln, err := net.Listen("tcp", "127.0.0.1:0")
	if err != nil {
		panic(err)
	}
	ctx, cancel := context.WithCancel(context.Background())
	done := make(chan error, 1)
	go func() {
		defer func() {
			if r := recover(); r != nil {
				done <- fmt.Errorf("panic: %v", r)
			}
		}()
		done <- omniwitness.Main(ctx, omniwitness.OperatorConfig{WitnessKeys: []note.Signer{k.signer}, WitnessVerifier: k.verif}, inmemory.NewPersistence(), ln,
			&http.Client{Transport: failingTransport{}})
	}()
	alive, msg := 1, ""
	select {
	case err := <-done:
		alive, msg = 0, fmt.Sprint(err)
	case <-time.After(400 * time.Millisecond):
	}
	cancel()
	if alive == 1 {
		select {
		case <-done:
		case <-time.After(5 * time.Second):
		}
	}
	ln.Close()
	t.line("OMS config=shipped => alive=%d err=%s", alive, hx([]byte(msg)))
}

func scenarioConfig(t *traceWriter, rng *rand.Rand) {
	mainStartsOnShipped(t)
	loadAndReport(t, "logs.yaml", omniwitness.ConfigLogs)
	if b, err := os.ReadFile(repoRoot() + "/omniwitness/logs_test.yaml"); err == nil {
		loadAndReport(t, "logs_test.yaml", b)
	} else {
		t.line("CFM file=logs_test.yaml n=0 => aslogmap=err:unreadable feeders=0")
	}
}

// ---------------------------------------------------------------- synthetic configurations through AsLogMap (C12, C02)

func ecdsaVKey(rng *rand.Rand, name string) string {
	// ecdsa.GenerateKey reads a random number of bytes (randutil.MaybeReadByte): it gets a generator of its own, seeded by one
	// draw, so that everything drawn afterwards from the scenario's generator is the same on every run
	k, err := ecdsa.GenerateKey(elliptic.P256(), detReader{rand.New(rand.NewSource(rng.Int63()))})
	if err != nil {
		panic(err)
	}
	der, err := x509.MarshalPKIXPublicKey(&k.PublicKey)
	if err != nil {
		panic(err)
	}
	h := sha256.Sum256(der)
	return fmt.Sprintf("%s+%08x+%s", name, binary.BigEndian.Uint32(h[:4]), base64.StdEncoding.EncodeToString(append([]byte{2}, der...)))
}

func scenarioCfgMap(t *traceWriter, rng *rand.Rand) {
	n := pick(60, 1500)
	tr := newExplicitBranch("trunk", 9, nil, 0)
	for ci := 0; ci < n; ci++ {
		keyA := genLogKey(rng, "cfg-key")
		keyA2 := genLogKey(rng, "cfg-key") // same name, other key material (a rotation that keeps the name)
		keyB := genLogKey(rng, "cfg-other")
		pool := []logKey{keyA, keyA2, keyB}
		type ent struct {
			origin string
			pk     string
			key    *logKey
		}
		bad := []string{"nokeyparts", "a+b", "name+00000000+!!!!", keyA.name + "+00000000+" + strings.SplitN(keyA.vkey, "+", 3)[2],
			"n+0badc0de+" + base64.StdEncoding.EncodeToString(append([]byte{4}, randHash(rng, 32)...)),
			"n+0badc0de+" + base64.StdEncoding.EncodeToString([]byte{1}), ecdsaVKey(rng, "ecdsa-log"),
			strings.Replace(ecdsaVKey(rng, "ecdsa-bad"), "+", "+f", 1), "bad name+" + strings.SplitN(keyB.vkey, "+", 2)[1]}
		origins := []string{fmt.Sprintf("cfg.example/%d/a", ci), fmt.Sprintf("cfg.example/%d/b", ci), fmt.Sprintf("cfg.example/%d/c", ci), fmt.Sprintf("Cfg.Example/%d/A", ci)}
		if ci%3 == 0 {
			// origins that differ from another one only by surrounding white space (a quoted YAML scalar keeps it; so does
			// a plain one for U+00A0): every component must take the origin exactly as configured
			origins = append(origins, fmt.Sprintf("cfg.example/%d/a ", ci), fmt.Sprintf(" cfg.example/%d/b", ci), fmt.Sprintf("cfg.example/%d/c\u00a0", ci), fmt.Sprintf("cfg.example/%d/a\t", ci))
		}
		if ci%4 == 1 {
			// an entry without Origin, and origins that are the NAME of a configured key: whatever a component does with a
			// missing origin, every component must do the same, and two entries must never end up under one ID unrefused
			origins = append(origins, "", "", keyA.name, keyB.name)
		}
		var ents []ent
		ne := 1 + rng.Intn(4)
		for i := 0; i < ne; i++ {
			o := origins[rng.Intn(len(origins))]
			if rng.Intn(3) > 0 {
				o = origins[i%len(origins)]
			}
			if rng.Intn(6) == 0 {
				ents = append(ents, ent{o, bad[rng.Intn(len(bad))], nil})
			} else {
				k := pool[rng.Intn(len(pool))]
				ents = append(ents, ent{o, k.vkey, &k})
			}
		}
		cfg := omniwitness.LogConfig{}
		var es []string
		for _, e := range ents {
			cfg.Logs = append(cfg.Logs, omniwitness.LogInfo{Origin: e.origin, PublicKey: e.pk, URL: "https://log.example/", Feeder: omniwitness.None})
			nl := "err"
			if lc, err := config.NewLog(e.origin, e.pk, "https://log.example/"); err == nil {
				nl = fmt.Sprintf("ok/%s/%s/%d", hx([]byte(lc.ID)), hx([]byte(lc.Verifier.Name())), lc.Verifier.KeyHash())
			}
			es = append(es, fmt.Sprintf("%s:%s:%s", hx([]byte(e.origin)), hx([]byte(e.pk)), nl))
		}
		m, err := cfg.AsLogMap()
		am := "err"
		if err == nil {
			var keys []string
			for k, v := range m {
				keys = append(keys, fmt.Sprintf("%s=%s/%d/%s", hx([]byte(k)), hx([]byte(v.SigV.Name())), v.SigV.KeyHash(), hx([]byte(v.Origin))))
			}
			sort.Strings(keys)
			am = "ok:" + strings.Join(keys, ",")
		}
		t.line("CA entries=%s => aslogmap=%s", strings.Join(es, ";"), am)
		if err != nil {
			continue
		}
		// a witness over exactly that map; each configured log is offered its origin signed by every key of the pool
		var defs []*logDef
		for _, e := range ents {
			if e.key == nil { // ECDSA entry: the harness has no signer for it
				v, verr := f_note.NewVerifier(e.pk)
				if verr != nil {
					continue
				}
				defs = append(defs, &logDef{origin: e.origin, key: logKey{name: v.Name(), verif: v}})
				continue
			}
			defs = append(defs, &logDef{origin: e.origin, key: *e.key})
		}
		wk := []witKey{genWitKey(rng, "cfgwit", "cosigv1")}
		s := newSessionKnown(t, "mem", defs, wk, m)
		for _, l := range defs {
			for _, k := range pool {
				cp := signNote(cpText(l.origin, 4, tr.root(4)), k.signer)
				s.update(l.id, 0, cp, [][]byte{}, "class=cfgmap.cross")
			}
			// and every other configured log's checkpoint under this ID
			for _, o := range defs {
				if o != l && o.key.signer != nil {
					s.update(l.id, 0, signNote(cpText(o.origin, 5, tr.root(5)), o.key.signer), [][]byte{}, "class=cfgmap.otherOrigin")
				}
			}
		}
		// the same forged checkpoint (body edited, signature block untouched) from many clients at once: whatever the
		// verifiers the configuration built remember or share, none of the submissions may be accepted
		if ci%4 == 0 {
			for _, l := range defs {
				if l.key.signer == nil {
					continue
				}
				// a refresh of what the log holds (size 4 after the sequential part), or a first use: the only thing
				// standing between the forgery and acceptance is the signature check
				oldSz := uint64(0)
				if mustState(s, l.id) != nil {
					oldSz = 4
				}
				good := signNote(cpText(l.origin, 4, tr.root(4), "ext-A"), l.key.signer)
				forged := bytes.Replace(good, []byte("ext-A"), []byte("ext-B"), 1)
				_, _ = note.Open(forged, note.VerifierList(l.rv)) // ground truth for the oracle
				var mu sync.Mutex
				accepted := 0
				rounds := pick(60, 400)
				for r := 0; r < rounds && accepted == 0; r++ {
					var wg sync.WaitGroup
					start := make(chan struct{})
					for g := 0; g < 12; g++ {
						wg.Add(1)
						go func() {
							defer wg.Done()
							<-start
							if _, err := s.w.Update(bgctx, l.id, oldSz, forged, [][]byte{}); err == nil {
								mu.Lock()
								accepted++
								mu.Unlock()
							}
						}()
					}
					close(start)
					wg.Wait()
				}
				s.t.line("UB %s log=%s cp=%s clients=%d => accepted=%d", s.id, hx([]byte(l.id)), hx(forged), 12*rounds, accepted)
				break
			}
		}
		s.end()
	}
}

// newSessionKnown: a witness whose KnownLogs map is the one AsLogMap built (its verifiers cannot be wrapped), so the
// oracle for the model is recorded by the harness's own verifiers, built from the same configured key strings.
func newSessionKnown(t *traceWriter, storeKind string, defs []*logDef, wk []witKey, known map[string]witness.LogInfo) *session {
	s := newSession(t, storeKind, defs, wk)
	var signers []note.Signer
	for i, k := range wk {
		signers = append(signers, &recSigner{inner: k.signer, sid: s.id, idx: i, t: t})
	}
	w, err := witness.New(witness.Opts{Persistence: s.store.p, Signers: signers, KnownLogs: known})
	if err != nil {
		panic(err)
	}
	s.w = w
	s.prerecord = true
	return s
}

// repoRoot is the tree under check (VERIF_REPO, default /repo).
func repoRoot() string {
	if r := os.Getenv("VERIF_REPO"); r != "" {
		return r
	}
	return "/repo"
}
