package main

import (
	"context"
	"flag"
	"fmt"
	"math/rand"
	"os"

	"k8s.io/klog/v2"
)

var bgctx = context.Background()

var (
	flagScenario = flag.String("scenario", "", "scenario to run")
	flagOut      = flag.String("out", "", "trace output file")
	flagSeed     = flag.Int64("seed", 1, "PRNG seed")
	flagTier     = flag.String("tier", "quick", "quick|thorough")
	flagN        = flag.Int("n", 0, "scenario size parameter (0 = tier default)")
	flagReplay   = flag.String("replay", "", "replay file (scenario specific)")
)

type scenarioFn func(t *traceWriter, rng *rand.Rand)

var scenarios = map[string]scenarioFn{}

func main() {
	klog.InitFlags(nil)
	flag.Set("logtostderr", "false")
	flag.Set("alsologtostderr", "false")
	flag.Set("stderrthreshold", "FATAL")
	flag.Parse()
	klog.SetOutput(discard{})
	fn, ok := scenarios[*flagScenario]
	if !ok {
		fmt.Fprintf(os.Stderr, "unknown scenario %q\n", *flagScenario)
		os.Exit(2)
	}
	t, done := newTrace(*flagOut)
	t.line("# scenario=%s seed=%d tier=%s", *flagScenario, *flagSeed, *flagTier)
	fn(t, rand.New(rand.NewSource(*flagSeed)))
	done()
	fmt.Printf("lines=%d\n", t.lines)
}

type discard struct{}

func (discard) Write(p []byte) (int, error) { return len(p), nil }

func thorough() bool { return *flagTier == "thorough" }

func pick(def, thor int) int {
	if *flagN != 0 {
		return *flagN
	}
	if thorough() {
		return thor
	}
	return def
}
