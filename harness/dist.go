package main

import (
	"context"
	"crypto/sha256"
	"fmt"
	"io"
	"math/rand"
	"net"
	"net/http"
	"net/http/httptest"
	"os"
	"strings"
	"sync"
	"time"

	f_log "github.com/transparency-dev/formats/log"
	"github.com/transparency-dev/witness/internal/config"
	"github.com/transparency-dev/witness/internal/distribute/rest"
	"golang.org/x/mod/sumdb/note"
)

func init() { scenarios["dist"] = scenarioDist }

type distWitness struct {
	answers map[string][]byte // logID -> bytes (nil = not exist)
}

func (d *distWitness) GetLatestCheckpoint(ctx context.Context, logID string) ([]byte, error) {
	b, ok := d.answers[logID]
	if !ok || b == nil {
		return nil, os.ErrNotExist
	}
	return b, nil
}

var witAnsKinds = []string{"valid", "missing", "wrongLogKey", "noWitSig", "badWitSig", "corrupted", "otherLog", "twoWitSigs"}
var distAnsKinds = []string{"200", "404", "500", "conn", "redir307", "redir302", "201", "503then200", "502then200", "503retryafter", "429retryafter", "stall"}

type distStub struct {
	mu     sync.Mutex
	plan   map[string]string // path -> answer kind
	puts   map[string]string // path -> "method:bodysha"
	redirs map[string]string
}

func (d *distStub) ServeHTTP(w http.ResponseWriter, r *http.Request) {
	body, _ := io.ReadAll(r.Body)
	sum := sha256.Sum256(body)
	rec := fmt.Sprintf("%s:%x", r.Method, sum[:8])
	d.mu.Lock()
	defer d.mu.Unlock()
	if strings.HasPrefix(r.URL.Path, "/redirected") {
		d.redirs[strings.TrimPrefix(r.RequestURI, "/redirected")] = rec
		w.WriteHeader(200)
		return
	}
	// every request that arrives at a path is recorded, in order (a client that sends a second one must send the same bytes)
	nth := 1
	if prev, ok := d.puts[r.RequestURI]; ok {
		rec = prev + "+" + rec
		nth = strings.Count(prev, "+") + 2
	}
	d.puts[r.RequestURI] = rec
	if d.plan[r.RequestURI] == "stall" {
		// answers only after the client's own timeout (http.Client.Timeout) has fired; the lock is not held meanwhile
		d.mu.Unlock()
		time.Sleep(2600 * time.Millisecond)
		d.mu.Lock()
		w.WriteHeader(200)
		return
	}
	switch d.plan[r.RequestURI] {
	case "200", "":
		w.WriteHeader(200)
	case "201":
		w.WriteHeader(201)
	case "503retryafter", "429retryafter": // "come back in an hour": this log's push failed, nothing else follows from it
		w.Header().Set("Retry-After", []string{"3600", "Wed, 21 Oct 2093 07:28:00 GMT"}[nth%2])
		w.WriteHeader(map[string]int{"503retryafter": 503, "429retryafter": 429}[d.plan[r.RequestURI]])
		io.WriteString(w, "slow down\n")
	case "503then200", "502then200": // a gateway in front of the distributor hiccups once
		if nth == 1 {
			w.WriteHeader(map[string]int{"503then200": 503, "502then200": 502}[d.plan[r.RequestURI]])
			io.WriteString(w, "upstream unavailable\n")
		} else {
			w.WriteHeader(200)
		}
	case "404": // refusals carry a body, as real services' do
		w.WriteHeader(404)
		io.WriteString(w, "no such log is known to this distributor\n")
	case "500":
		w.WriteHeader(500)
		io.WriteString(w, strings.Repeat("internal error detail ", 40))
	case "redir307":
		http.Redirect(w, r, "/redirected"+r.RequestURI, http.StatusTemporaryRedirect)
	case "redir302":
		http.Redirect(w, r, "/redirected"+r.RequestURI, http.StatusFound)
	case "conn":
		if hj, ok := w.(http.Hijacker); ok {
			c, _, _ := hj.Hijack()
			c.Close()
		}
	}
}

func scenarioDist(t *traceWriter, rng *rand.Rand) {
	keyA := genLogKey(rng, "dist-log-a")
	keyB := genLogKey(rng, "dist-log-b")
	names := []string{"dwit", "wit.ness-1", "w%41x", "wit/ness", "é-wit", "a:b@c"}
	tr := newExplicitBranch("trunk", 9, nil, 0)
	nCases := pick(400, 12000)
	for ci := 0; ci < nCases; ci++ {
		wname := names[0]
		if rng.Intn(4) == 0 {
			wname = names[rng.Intn(len(names))]
		}
		if ci%9 == 5 {
			wname = keyA.name // the witness key carries the same NAME as a log key (another key): signatures are told apart by name AND key hash
		}
		wk := genWitKey(rng, wname, "cosigv1")
		wk2 := genWitKey(rng, wname+"2", "cosigv1")
		nLogs := 1 + rng.Intn(3)
		if rng.Intn(10) == 0 {
			nLogs = 4 + rng.Intn(3)
		}
		var defs []*logDef
		for i := 0; i < nLogs; i++ {
			k := keyA
			if i%2 == 1 {
				k = keyB
			}
			defs = append(defs, &logDef{origin: fmt.Sprintf("dist.example/%d/log%d", ci, i), key: k})
		}
		// exhaustive for the first cases: enumerate answer kinds by index
		s := newSession(t, "mem", defs, []witKey{wk})
		stub := &distStub{plan: map[string]string{}, puts: map[string]string{}, redirs: map[string]string{}}
		srv := httptest.NewServer(stub)
		wrv := &recVerifier{inner: wk.verif, vid: newVid("D"), t: t}
		dw := &distWitness{answers: map[string][]byte{}}
		var logs []config.Log
		for _, l := range defs {
			logs = append(logs, config.Log{ID: l.id, Origin: l.origin, Verifier: l.rv})
		}
		// a per-request timeout of the HTTP client (cmd/omniwitness --http_timeout): a distributor that stalls on one
		// log costs that log its push, nothing else
		client := &http.Client{Timeout: 2 * time.Second} // generous: a loaded machine must not turn an ordinary PUT into a timeout
		if ci%2 == 0 {
			// a bounded connection pool, kept for the Distributor's whole life: an answer whose body is never closed
			// keeps its connection, and after two of those nothing more can be sent
			tp := &http.Transport{MaxConnsPerHost: 2}
			defer tp.CloseIdleConnections()
			client.Transport = tp
		}
		d, err := rest.NewDistributor(srv.URL, client, logs, wrv, dw)
		if err != nil {
			panic(err)
		}
		// one Distributor lives through several rounds: in a later round the witness may hand out the SAME checkpoint
		// text under a different signature block (nothing remembered from an earlier round may stand in for checking it)
		rounds := 1
		if rng.Intn(3) == 0 {
			rounds = 2 + rng.Intn(2)
		}
		prevKind := map[int]string{}
		for round := 0; round < rounds; round++ {
			var wans, dans, lcfg []string
			for i, l := range defs {
				wa := witAnsKinds[(ci/7+i*3)%len(witAnsKinds)]
				da := distAnsKinds[(ci+i)%(len(distAnsKinds)-1)] // the enumerated part leaves out "stall" (it costs seconds each)
				if ci >= len(witAnsKinds)*len(distAnsKinds) {
					wa = witAnsKinds[rng.Intn(len(witAnsKinds))]
					da = distAnsKinds[rng.Intn(len(distAnsKinds)-1)] // "stall" (last) costs wall-clock time: rarely
					if rng.Intn(90) == 0 {
						da = "stall"
					}
					if rng.Intn(3) == 0 {
						wa = "valid"
					}
				}
				if round > 0 {
					da = []string{"200", "200", "500", "conn", "200", "200"}[rng.Intn(6)]
					if rng.Intn(40) == 0 {
						da = "stall"
					}
					if prevKind[i] == "valid" {
						wa = []string{"noWitSig", "badWitSig", "wrongLogKey", "valid", "twoWitSigs"}[rng.Intn(5)]
					} else {
						wa = witAnsKinds[rng.Intn(len(witAnsKinds))]
					}
				}
				prevKind[i] = wa
				text := cpText(l.origin, 5, tr.root(5))
				var raw []byte
				switch wa {
				case "valid":
					raw = signNote(text, l.key.signer, wk.signer)
				case "missing":
					raw = nil
				case "wrongLogKey":
					other := keyA
					if l.key.name == keyA.name {
						other = keyB
					}
					raw = signNote(text, other.signer, wk.signer)
				case "noWitSig":
					raw = signNote(text, l.key.signer)
				case "badWitSig":
					raw = signNote(text, l.key.signer, forgedSigner{wk.signer.Name(), wk.signer.KeyHash(), rng})
				case "corrupted":
					raw = signNote(text, l.key.signer, wk.signer)
					raw[rng.Intn(len(text))] ^= 0x20
				case "otherLog":
					o := defs[(i+1)%len(defs)]
					if o == l {
						raw = signNote(cpText("dist.example/elsewhere", 5, tr.root(5)), l.key.signer, wk.signer)
					} else {
						raw = signNote(cpText(o.origin, 5, tr.root(5)), o.key.signer, wk.signer)
					}
				case "twoWitSigs":
					raw = signNote(text, l.key.signer, wk.signer, wk2.signer)
				}
				dw.answers[l.id] = raw
				if raw != nil {
					// ground truth for the oracle, whatever the distributor chooses to verify (or to skip)
					_, _ = note.Open(raw, note.VerifierList(l.rv, wrv))
				}
				path := fmt.Sprintf("/distributor/v0/logs/%s/byWitness/%s/checkpoint", l.id, escapeRef(wk.signer.Name()))
				stub.mu.Lock()
				stub.plan[path] = da
				stub.mu.Unlock()
				w := "!"
				if raw != nil {
					w = hx(raw)
				}
				wans = append(wans, w)
				dans = append(dans, da)
				lcfg = append(lcfg, fmt.Sprintf("%s:%s:%s:%d:%s", hx([]byte(l.id)), hx([]byte(l.origin)), hx([]byte(l.key.verif.Name())), l.key.verif.KeyHash(), l.rv.vid))
			}
			hang := 0
			var derr error
			if !withDeadline(30*time.Second, func() { derr = d.DistributeOnce(context.Background()) }) {
				hang = 1
			}
			stub.mu.Lock()
			var puts, redirs []string
			for _, l := range defs {
				path := fmt.Sprintf("/distributor/v0/logs/%s/byWitness/%s/checkpoint", l.id, escapeRef(wk.signer.Name()))
				p := "-"
				if rec, ok := stub.puts[path]; ok {
					p = hx([]byte(path)) + ":" + rec
					delete(stub.puts, path)
				}
				puts = append(puts, p)
				rd := "-"
				if rec, ok := stub.redirs[path]; ok {
					rd = rec
					delete(stub.redirs, path)
				}
				redirs = append(redirs, rd)
			}
			extra := len(stub.puts)
			stub.puts = map[string]string{}
			stub.mu.Unlock()
			e := "-"
			if derr != nil {
				e = strings.ReplaceAll(derr.Error(), " ", "_")
			}
			t.line("DS %s wname=%s wvhash=%d wvid=%s logs=%s wans=%s dans=%s hang=%d extra=%d round=%d => puts=%s redirs=%s err=%s",
				s.id, hx([]byte(wk.signer.Name())), wk.signer.KeyHash(), wrv.vid, strings.Join(lcfg, ";"), strings.Join(wans, ";"), strings.Join(dans, ";"),
				hang, extra, round, strings.Join(puts, ";"), strings.Join(redirs, ";"), e)
			if hang == 1 {
				break
			}
		}
		srv.Close()
		s.end()
	}
}

// escapeRef: the harness's own idea of a path segment as it appears on the wire (what the stub distributor sees
// in RequestURI), used only to key the stub's plan.
func escapeRef(s string) string {
	var b strings.Builder
	for i := 0; i < len(s); i++ {
		c := s[i]
		switch {
		case 'a' <= c && c <= 'z', 'A' <= c && c <= 'Z', '0' <= c && c <= '9', strings.IndexByte("-_.~$&+:=@", c) >= 0:
			b.WriteByte(c)
		default:
			fmt.Fprintf(&b, "%%%02X", c)
		}
	}
	return b.String()
}

var _ = net.Dial
var _ = f_log.ID
var _ note.Verifier
