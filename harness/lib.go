package main

import (
	"crypto/sha256"
	"encoding/base64"
	"fmt"
	"math/rand"
	"strconv"
	"strings"
	"unicode"
	"unicode/utf8"

	f_log "github.com/transparency-dev/formats/log"
	"github.com/transparency-dev/merkle/proof"
	"github.com/transparency-dev/merkle/rfc6962"
)

func init() { scenarios["lib"] = scenarioLib }

// scenarioLib compares the modelled standard-library and dependency pieces with the real functions,
// so that a wrong model of a dependency shows up as its own divergence.
func scenarioLib(t *traceWriter, rng *rand.Rand) {
	n := pick(400, 20000)
	alphabet := "ABCDEFGHIJKLMNOPQRSTUVWXYZabcdefghijklmnopqrstuvwxyz0123456789+/=\r\n -_"
	for i := 0; i < n; i++ {
		// base64: valid encodings, mutated encodings, random alphabet strings
		raw := randHash(rng, rng.Intn(70))
		enc := base64.StdEncoding.EncodeToString(raw)
		t.line("B64E %s => %s", hx(raw), hx([]byte(enc)))
		cand := []byte(enc)
		switch rng.Intn(6) {
		case 0:
			if len(cand) > 0 {
				cand[rng.Intn(len(cand))] = alphabet[rng.Intn(len(alphabet))]
			}
		case 1:
			if len(cand) > 0 {
				cand = cand[:rng.Intn(len(cand))]
			}
		case 2:
			k := rng.Intn(len(cand) + 1)
			cand = append(cand[:k], append([]byte{"\r\n= A"[rng.Intn(5)]}, cand[k:]...)...)
		case 3:
			cand = []byte{}
			for j := rng.Intn(12); j > 0; j-- {
				cand = append(cand, alphabet[rng.Intn(len(alphabet))])
			}
		case 4: // non-canonical trailing bits
			if len(cand) >= 4 && cand[len(cand)-1] == '=' {
				k := len(cand) - 2
				if cand[k] == '=' {
					k--
				}
				cand[k] = alphabet[rng.Intn(64)]
			}
		}
		dec, err := base64.StdEncoding.DecodeString(string(cand))
		if err != nil {
			t.line("B64D %s => !", hx(cand))
		} else {
			t.line("B64D %s => %s", hx(cand), hx(dec))
		}
		// ParseUint / %d
		var s string
		switch rng.Intn(8) {
		case 0:
			s = strconv.FormatUint(rng.Uint64(), 10)
		case 1:
			s = "18446744073709551615"
		case 2:
			s = "18446744073709551616"
		case 3:
			s = "0" + strconv.FormatUint(uint64(rng.Intn(1000)), 10)
		case 4:
			s = []string{"", "+1", "-1", "1_0", "0x10", " 1", "1 ", "１", "1e3", "00", "99999999999999999999999"}[rng.Intn(11)]
		default:
			s = strconv.FormatUint(uint64(rng.Intn(100000)), 10)
			if rng.Intn(5) == 0 {
				b := []byte(s)
				b[rng.Intn(len(b))] = byte(rng.Intn(256))
				s = string(b)
			}
		}
		v, err := strconv.ParseUint(s, 10, 64)
		if err != nil {
			t.line("PUINT %s => !", hx([]byte(s)))
		} else {
			t.line("PUINT %s => %d", hx([]byte(s)), v)
			t.line("FMTD %d => %s", v, hx([]byte(fmt.Sprintf("%d", v))))
		}
		// sha256, log.ID
		msg := randHash(rng, rng.Intn(200))
		h := sha256.Sum256(msg)
		t.line("SHA %s => %s", hx(msg), hx(h[:]))
		if i%4 == 0 {
			t.line("LOGID %s => %s", hx(msg), hx([]byte(f_log.ID(string(msg)))))
		}
		// isValidName and the character check of note.Open
		name := randName(rng)
		t.line("VALIDNAME %s => %d", hx(name), b2i(isValidNameRef(string(name))))
		t.line("NOTECHARS %s => %d", hx(name), b2i(noteCharsRef(name)))
		// Checkpoint.Unmarshal
		cpb := randCheckpointBody(rng)
		var cp f_log.Checkpoint
		if _, err := cp.Unmarshal(cpb); err != nil {
			t.line("CPUNM %s => !", hx(cpb))
		} else {
			t.line("CPUNM %s => %s:%d:%s", hx(cpb), hx([]byte(cp.Origin)), cp.Size, hx(cp.Hash))
		}
	}
	// VerifyConsistency against the model, honest and perturbed proofs
	maxN := pick(40, 300)
	tr := newExplicitBranch("vc", maxN, nil, 0)
	fk := newExplicitBranch("vcf", maxN, tr, maxN/3)
	for n2 := 0; n2 <= maxN; n2++ {
		for n1 := 0; n1 <= n2; n1++ {
			if !thorough() && n2 > 16 && rng.Intn(6) != 0 {
				continue
			}
			pr := [][]byte{}
			if n1 > 0 {
				pr = tr.consistency(uint64(n1), uint64(n2))
			}
			vcLine(t, uint64(n1), uint64(n2), pr, tr.root(uint64(n1)), tr.root(uint64(n2)))
			pc := proofClass(rng.Intn(int(nProofClasses)))
			vcLine(t, uint64(n1), uint64(n2), mkProof(rng, tr, uint64(n1), uint64(n2), pc), tr.root(uint64(n1)), tr.root(uint64(n2)))
			vcLine(t, uint64(n1), uint64(n2), pr, fk.root(uint64(n1)), tr.root(uint64(n2)))
			vcLine(t, uint64(n1), uint64(n2), pr, tr.root(uint64(n1)), fk.root(uint64(n2)))
		}
	}
	// large sizes on virtual trees
	vt := newVirtualBranch("v", 1<<40+3, 1<<63-1, "a", "b")
	for i := 0; i < pick(150, 3000); i++ {
		a, b := bigSize(rng), bigSize(rng)
		if a > b {
			a, b = b, a
		}
		if a == 0 {
			a = 1
		}
		pr := vt.consistency(a, b)
		vcLine(t, a, b, pr, vt.root(a), vt.root(b))
		pc := proofClass(rng.Intn(int(nProofClasses)))
		vcLine(t, a, b, mkProof(rng, vt, a, b, pc), vt.root(a), vt.root(b))
	}
}

func vcLine(t *traceWriter, n1, n2 uint64, pr [][]byte, r1, r2 []byte) {
	err := proof.VerifyConsistency(rfc6962.DefaultHasher, n1, n2, pr, r1, r2)
	t.line("VC %d %d %s %s %s => %d", n1, n2, hxList(pr), hx(r1), hx(r2), b2i(err == nil))
}

func b2i(b bool) int {
	if b {
		return 1
	}
	return 0
}

// copies of the unexported predicates of x/mod/sumdb/note (the originals cannot be called)
func isValidNameRef(name string) bool {
	return name != "" && utf8.ValidString(name) && strings.IndexFunc(name, unicode.IsSpace) < 0 && !strings.Contains(name, "+")
}

func noteCharsRef(msg []byte) bool {
	for i := 0; i < len(msg); {
		r, size := utf8.DecodeRune(msg[i:])
		if r < 0x20 && r != '\n' || r == utf8.RuneError && size == 1 {
			return false
		}
		i += size
	}
	return true
}

func randName(rng *rand.Rand) []byte {
	pool := []string{"a", "log", "+", " ", "\t", "\n", " ", "\u0085", " ", " ", " ", " ", " ", "　", "�", "é", "—", "😀", "\xff", "\xc0\x80", "\xed\xa0\x80", "\xf4\x90\x80\x80", "\xe2\x80", "\x01", "\x7f", "x.example/log", "\xf0\x9f"}
	var b []byte
	for i := rng.Intn(5); i >= 0; i-- {
		b = append(b, pool[rng.Intn(len(pool))]...)
	}
	if rng.Intn(3) == 0 {
		b = b[:rng.Intn(len(b)+1)]
	}
	return b
}

func randCheckpointBody(rng *rand.Rand) []byte {
	origins := []string{"o.example/log", "", "x", "a b", "é"}
	sizes := []string{"0", "5", "18446744073709551615", "18446744073709551616", "05", "+5", "", "x", "5 "}
	hashes := []string{"AAAA", "", "!!!!", base64.StdEncoding.EncodeToString(randHash(rng, 32)), "QQ==", "QQ", "QR==", "Q\rQ=="}
	s := origins[rng.Intn(len(origins))] + "\n" + sizes[rng.Intn(len(sizes))] + "\n" + hashes[rng.Intn(len(hashes))]
	switch rng.Intn(4) {
	case 0:
	case 1:
		s += "\n"
	case 2:
		s += "\nextra line\n"
	case 3:
		s += "\n\n\n"
	}
	b := []byte(s)
	if rng.Intn(6) == 0 && len(b) > 0 {
		b = b[:rng.Intn(len(b))]
	}
	return b
}
