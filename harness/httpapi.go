package main

import (
	"bytes"
	"context"
	"encoding/json"
	"errors"
	"fmt"
	"io"
	"math/rand"
	"net/http"
	"net/http/httptest"
	"net/url"
	"os"
	"path/filepath"
	"sort"
	"strings"
	"time"

	"github.com/gorilla/mux"
	"google.golang.org/grpc/codes"
	"google.golang.org/grpc/status"
	f_log "github.com/transparency-dev/formats/log"
	whttp "github.com/transparency-dev/witness/client/http"
	ihttp "github.com/transparency-dev/witness/internal/http"
)

func init() { scenarios["httpapi"] = scenarioHTTPAPI }

func scenarioHTTPAPI(t *traceWriter, rng *rand.Rand) {
	nHist := pick(40, 400)
	w := &world{rng: rng, t: t}
	w.otherKey = genLogKey(rng, "api-other")
	keyA := genLogKey(rng, "api-log-a")
	wk := []witKey{genWitKey(rng, "apiwit", "ed25519"), genWitKey(rng, "apiwit", "cosigv1")}
	w.wk = wk
	stores := []string{"mem", "sql", "sqlfile", "sqldrv"}
	scratch := scratchDir()
	defer os.RemoveAll(scratch)
	for h := 0; h < nHist; h++ {
		nLogs := 1 + rng.Intn(4)
		var lss []*logState
		var defs []*logDef
		for i := 0; i < nLogs; i++ {
			ls := w.newLogState(fmt.Sprintf("api.example/%d/log%d", h, i), keyA, false)
			lss = append(lss, ls)
			defs = append(defs, ls.l)
		}
		// the same stores behind a wrapper that can make Logs / ReadOps / GetLatest fail while the API is probed
		kind := stores[h%len(stores)]
		var hnd storeHandle
		if kind == "sqldrv" {
			// file-backed SQLite through the wrapping database/sql driver: faults strike inside Query / Rows.Next
			path := filepath.Join(scratch, fmt.Sprintf("api%d.db", h))
			db, p := openSQL(path)
			hnd = storeHandle{kind: kind, p: p, close: func() { db.Close(); os.Remove(path) }}
		} else {
			hnd = newStore(kind)
		}
		ctl := &lspCtl{fail: map[string]bool{}}
		s := newSessionWith(t, kind, defs, wk, &wrapLSP{inner: hnd.p, ctl: ctl, tid: func() int { return 0 }}, nil)
		s.store.close = hnd.close
		r := mux.NewRouter()
		ihttp.NewServer(s.w).RegisterHandlers(r)
		srv := httptest.NewServer(r)
		base, _ := url.Parse(srv.URL)
		cl := whttp.NewWitness(base, srv.Client())
		type validator struct {
			etag, lastMod string
			body          []byte
		}
		validators := map[string]validator{}
		probe := func() {
			states := s.statesOf()
			faults := ""
			if rng.Intn(4) == 0 {
				faults = []string{"g", "r", "L", "gL"}[rng.Intn(4)]
			}
			// driver-level plan (sqldrv only): set just before one request, "fired" = it struck during that request
			drvPlan := []string(nil)
			if kind == "sqldrv" && faults != "" {
				drvPlan = [][]string{{"query"}, {"next"}, {"next#2"}, {"next#3"}}[rng.Intn(4)]
				faults = ""
			}
			withDrv := func(letter string, f func()) string {
				if drvPlan == nil {
					f()
					return faults
				}
				drvCtl.setFaults(drvPlan)
				f()
				fired := !drvCtl.pending()
				drvCtl.setFaults(nil)
				if fired {
					return letter
				}
				return ""
			}
			// a failing read may carry a gRPC status code: the handler maps codes to HTTP statuses (httpForCode)
			rcode := "plain"
			ctl.readErr = nil
			if faults == "g" {
				names := []string{"plain", "AlreadyExists", "NotFound", "FailedPrecondition", "InvalidArgument", "Unauthenticated", "Internal", "Unavailable", "PermissionDenied"}
				cs := []codes.Code{0, codes.AlreadyExists, codes.NotFound, codes.FailedPrecondition, codes.InvalidArgument, codes.Unauthenticated, codes.Internal, codes.Unavailable, codes.PermissionDenied}
				k := rng.Intn(len(names))
				rcode = names[k]
				if k > 0 {
					ctl.readErr = status.Error(cs[k], "injected storage failure with a status code")
				}
			}
			ctl.setFaults(faults)
			defer ctl.setFaults("")
			ids := []string{}
			for _, l := range defs {
				ids = append(ids, l.id)
			}
			known := defs[rng.Intn(len(defs))].id
			odd := []string{f_log.ID("api.example/unknown"), strings.ToUpper(known), known[:len(known)-1], known + "0", "-", "a-b", "a_b", "a.b", known + "%2F" + known,
				"", "..", ".", known + "/..", strings.Repeat("a", 200), "%00", known + "%00", "checkpoint", "é", "a b", "a%20b", "~"}
			ids = append(ids, odd[rng.Intn(len(odd))], odd[rng.Intn(len(odd))], odd[rng.Intn(len(odd))])
			for _, id := range ids {
				// raw GET (redirects followed, as any client would)
				status, body := 0, []byte{}
				respETag, respLastMod := "", ""
				fl := withDrv("g", func() {
					resp, err := srv.Client().Get(srv.URL + "/witness/v0/logs/" + id + "/checkpoint")
					if err == nil {
						body, _ = io.ReadAll(resp.Body)
						resp.Body.Close()
						status = resp.StatusCode
						respETag, respLastMod = resp.Header.Get("ETag"), resp.Header.Get("Last-Modified")
					}
				})
				if status != 200 {
					body = nil
				}
				// a client that revalidates: if the service ever handed out a validator (ETag / Last-Modified) for this ID, ask
				// again conditionally; "not modified" is only true while the stored bytes are the ones it was handed out with
				if drvPlan == nil && faults == "" {
					if v, ok := validators[id]; ok {
						req, _ := http.NewRequest(http.MethodGet, srv.URL+"/witness/v0/logs/"+id+"/checkpoint", nil)
						if v.etag != "" {
							req.Header.Set("If-None-Match", v.etag)
						}
						if v.lastMod != "" {
							req.Header.Set("If-Modified-Since", v.lastMod)
						}
						if resp, err := srv.Client().Do(req); err == nil {
							cb, _ := io.ReadAll(resp.Body)
							resp.Body.Close()
							t.line("A %s kind=cget id=%s states=%s learned=%s => status=%d body=%s", s.id, hx([]byte(id)), states, hx(v.body), resp.StatusCode, hx(cb))
						}
					}
					if status == 200 && (respETag != "" || respLastMod != "") {
						validators[id] = validator{respETag, respLastMod, body}
					}
				}
				if drvPlan != nil {
					t.line("A %s kind=get id=%s faults=%s states=%s => status=%d body=%s client=skip", s.id, hx([]byte(id)), fl, states, status, hx(body))
					continue
				}
				// the bundled client
				cres := ""
				b, cerr := cl.GetLatestCheckpoint(context.Background(), id)
				switch {
				case cerr == nil:
					cres = "ok:" + hx(b)
				case errors.Is(cerr, os.ErrNotExist):
					cres = "notexist"
				default:
					cres = "err"
				}
				t.line("A %s kind=get id=%s faults=%s rcode=%s states=%s => status=%d body=%s client=%s", s.id, hx([]byte(id)), faults, rcode, states, status, hx(body), cres)
			}
			var resp *http.Response
			var err error
			faults = withDrv("L", func() { resp, err = srv.Client().Get(srv.URL + "/witness/v0/logs") })
			if err == nil {
				body, _ := io.ReadAll(resp.Body)
				resp.Body.Close()
				var list []string
				lst := "!"
				if json.Unmarshal(body, &list) == nil {
					sort.Strings(list)
					hl := []string{}
					for _, x := range list {
						hl = append(hl, hx([]byte(x)))
					}
					lst = strings.Join(hl, ",")
					if len(hl) == 0 {
						lst = "-"
					}
				}
				t.line("A %s kind=logs faults=%s states=%s => status=%d list=%s", s.id, faults, states, resp.StatusCode, lst)
			}
		}
		probe()
		n := 1 + rng.Intn(8)
		for i := 0; i < n; i++ {
			ls := lss[rng.Intn(len(lss))]
			old, cp, proof, class := w.genRequest(ls)
			res := s.update(ls.l.id, old, cp, proof, "class="+class)
			ls.observe(res, ls.l.key.verif)
			if rng.Intn(2) == 0 {
				probe()
			}
		}
		// stored checkpoints of about 1.5, 3 and 10 KB (honest checkpoints with extension lines): what the handlers write and the
		// bundled client reads back must be exact on both sides of net/http's 2048-byte buffering / chunking boundary
		for k, total := range []int{1500, 3000, 10000} {
			ls := lss[k%len(lss)]
			if ls.has && ls.cur == nil {
				continue
			}
			cur := ls.cur
			if cur == nil {
				cur = ls.branches[0]
			}
			if cur.virtual {
				continue
			}
			stored := uint64(0)
			if ls.has {
				stored = ls.curSize
			}
			size := stored
			if size < cur.size() && (stored > 0 || !ls.has) {
				size = stored + 1
			}
			if !ls.has && size == 0 {
				size = 1
			}
			proof := [][]byte{}
			if stored > 0 && stored < size {
				proof = cur.consistency(stored, size)
			}
			var ext []string
			for n := 0; n < total; n += 65 {
				ext = append(ext, fmt.Sprintf("pad-%02d-%s", k, strings.Repeat("x", 57)))
			}
			res := s.update(ls.l.id, stored, signNote(cpText(ls.l.origin, size, cur.root(size), ext...), ls.l.key.signer), proof, "class=api.bigCheckpoint")
			ls.observe(res, ls.l.key.verif)
			probe()
		}
		// a read that is slow inside the storage layer, an update accepted meanwhile, then a second read: the second one was
		// issued after the update had returned, so it is served the new checkpoint (whatever the first one gets)
		if kind != "sqldrv" {
			for _, ls := range lss {
				if !ls.has || ls.cur == nil || ls.cur.virtual {
					continue
				}
				id := ls.l.id
				getBody := func() []byte {
					resp, err := srv.Client().Get(srv.URL + "/witness/v0/logs/" + id + "/checkpoint")
					if err != nil {
						return nil
					}
					defer resp.Body.Close()
					b, _ := io.ReadAll(resp.Body)
					if resp.StatusCode != 200 {
						return []byte(fmt.Sprintf("status %d", resp.StatusCode))
					}
					return b
				}
				parked, release := make(chan struct{}, 1), make(chan struct{})
				armed := true
				ctl.gate = func(_ int, op string) {
					if op == "g" && armed {
						armed = false
						parked <- struct{}{}
						<-release
					}
				}
				chA := make(chan []byte, 1)
				go func() { chA <- getBody() }()
				select {
				case <-parked:
				case <-time.After(2 * time.Second):
					close(release)
					ctl.gate = nil
					<-chA
					continue
				}
				cp := signNote(cpText(ls.l.origin, ls.curSize, ls.cur.root(ls.curSize), fmt.Sprintf("refreshed-during-a-read %d", h)), ls.l.key.signer)
				res := s.update(id, ls.curSize, cp, [][]byte{}, "class=api.duringRead")
				ls.observe(res, ls.l.key.verif)
				chB := make(chan []byte, 1)
				go func() { chB <- getBody() }()
				var bodyB []byte
				lateB := 0
				select {
				case bodyB = <-chB:
				case <-time.After(1500 * time.Millisecond):
					lateB = 1
				}
				close(release)
				if lateB == 1 {
					bodyB = <-chB
				}
				<-chA
				ctl.gate = nil
				acc := "-"
				if res.cls == "none" && res.ret != nil {
					acc = hx(res.ret)
				}
				t.line("A %s kind=racedget id=%s states=%s accepted=%s => late=%d body=%s", s.id, hx([]byte(id)), s.statesOf(), acc, lateB, hx(bodyB))
				break
			}
		}
		// the same text cosigned again with other signature bytes (the log's line plus another party's line): the stored
		// bytes change although tree head and text do not; a revalidating client must be told (probe before: validators
		// are learned; probe after: they are used)
		probe()
		for _, ls := range lss {
			if !ls.has || ls.cur == nil || ls.cur.virtual {
				continue
			}
			if b, err := hexDecode(s.readState(ls.l.id)); err == nil {
				if i := bytes.Index(b, []byte("\n\n")); i >= 0 {
					cp := signNote(string(b[:i+1]), ls.l.key.signer, w.otherKey.signer)
					res := s.update(ls.l.id, ls.curSize, cp, [][]byte{}, "class=api.sameTextRefresh")
					ls.observe(res, ls.l.key.verif)
				}
			}
		}
		probe()
		srv.Close()
		// the service is gone: the bundled client reports an error (neither bytes, nor "does not exist", nor a crash)
		func() {
			res := "err"
			defer func() {
				if r := recover(); r != nil {
					res = "panic"
				}
				t.line("A %s kind=down id=%s states=%s => client=%s", s.id, hx([]byte(defs[0].id)), s.statesOf(), res)
			}()
			dctx, dcancel := context.WithTimeout(context.Background(), 2*time.Second)
			defer dcancel()
			b, cerr := cl.GetLatestCheckpoint(dctx, defs[0].id)
			switch {
			case cerr == nil:
				res = "ok:" + hx(b)
			case errors.Is(cerr, os.ErrNotExist):
				res = "notexist"
			}
		}()
		s.end()
	}
}
