package main

import (
	"os/exec"
	"os"
	"bytes"
	"encoding/hex"
	"encoding/base64"
	"fmt"
	"math/rand"
	"net/http"
	"net/http/httptest"
	"strings"
	"time"

	"github.com/transparency-dev/witness/internal/config"
	"github.com/transparency-dev/witness/internal/feeder/bastion"
	"github.com/transparency-dev/witness/internal/witness"
	"github.com/transparency-dev/witness/omniwitness"
	"golang.org/x/mod/sumdb/note"
	"golang.org/x/time/rate"
)

func init() {
	scenarios["bastion"] = scenarioBastion
	scenarios["parsebody"] = scenarioParseBody
}

func writeBody(old uint64, proof [][]byte, cp []byte) []byte {
	// as cmd/feedbastion writes it
	body := fmt.Sprintf("old %d\n", old)
	for _, p := range proof {
		body += base64.StdEncoding.EncodeToString(p) + "\n"
	}
	body += "\n"
	body += string(cp)
	return []byte(body)
}

type bastionSession struct {
	*session
	h      http.Handler
	wvRec  *recVerifier
	lss    []*logState
	allowN int // number of requests the limiter will allow (-1 = all)
	sent   int
	// doReq, when set, carries the request to the endpoint some other way than calling the handler in-process
	// (the end-to-end scenario: over the reverse TLS 1.3 + HTTP/2 connection); ok=false: no answer arrived
	doReq func(body []byte) (status int, ctype string, rbody []byte, ok bool)
	e2e   int
	allowPlan []int // per request: 1 allowed, 0 pushed back, 2 unknown (overrides allowN)
	nomodel   int   // 1: the witness is another process (its signatures cannot be reproduced): monitors only
}

func (b *bastionSession) states() string {
	var parts []string
	for _, l := range b.logs {
		parts = append(parts, hx([]byte(l.id))+":"+b.readState(l.id))
	}
	return strings.Join(parts, ";")
}

// serve sends one request to the real handler and writes the H record.
func (b *bastionSession) serve(body []byte, class string, expect int, expectBody string) int {
	allow := 1
	if b.allowN >= 0 && b.sent >= b.allowN {
		allow = 0
		expect = 429
		expectBody = ""
	}
	if b.allowPlan != nil && b.sent < len(b.allowPlan) {
		allow = b.allowPlan[b.sent] // 2: the limiter may or may not let it through (timing), either answer is judged on its own
		if allow == 2 {
			expect, expectBody = 0, ""
		}
	}
	b.sent++
	// ground truth for the oracle: what the log verifiers say about the submitted checkpoint
	if _, _, cp, err := bastion.VerifParseBody(bytes.NewReader(body)); err == nil {
		for _, l := range b.logs {
			_, _ = note.Open(cp, note.VerifierList(l.rv))
		}
	}
	pre := b.states()
	if b.nomodel == 1 {
		// the endpoint (in another process) verifies the checkpoint the witness returns under its witness verifier:
		// record what that verifier says about each log's current checkpoint
		for _, l := range b.logs {
			if st := mustState(b.session, l.id); st != nil {
				_, _ = note.Open(st, note.VerifierList(b.wvRec))
			}
		}
	}
	req := httptest.NewRequest(http.MethodPost, "/", bytes.NewReader(body))
	rec := httptest.NewRecorder()
	status := 0
	var answered bool
	if b.doReq != nil {
		var ct string
		var rb []byte
		status, ct, rb, answered = b.doReq(body)
		if answered {
			rec.Code = status
			rec.Body = bytes.NewBuffer(rb)
			if ct != "" {
				rec.Header().Set("Content-Type", ct)
			}
		}
	} else {
		answered = withDeadline(10*time.Second, func() {
			defer func() {
				if r := recover(); r != nil {
					status = 999
				}
			}()
			b.h.ServeHTTP(rec, req)
			status = rec.Code
		})
	}
	if !answered {
		// the request was left unanswered (e.g. the single storage connection is pinned by an open transaction):
		// 998 in the record; nothing more can be learnt from this witness
		b.dead = true
		hangCount++
		b.t.line("H %s allow=%d body=%s states=%s class=%s expect=- expectbody=- e2e=%d nomodel=%d => status=998 ctype=. rbody=. post=%s",
			b.id, allow, hx(body), pre, class, b.e2e, b.nomodel, pre)
		return 998
	}
	post := b.states()
	if b.dead {
		// the request was answered but the next operation on the store never returned
		hangCount++
		b.t.line("H %s allow=%d body=%s states=%s class=%s expect=- expectbody=- e2e=%d nomodel=%d => status=998 ctype=. rbody=. post=%s",
			b.id, allow, hx(body), pre, class, b.e2e, b.nomodel, pre)
		return 998
	}
	rbody := rec.Body.Bytes()
	if status == 200 {
		// independent verification of the returned cosignature line(s) over the submitted text
		if _, _, cp, err := bastion.VerifParseBody(bytes.NewReader(body)); err == nil {
			if k := bytes.LastIndex(cp, []byte("\n\n")); k >= 0 {
				text := cp[:k+1]
				fake := append(append([]byte{}, text...), '\n')
				fake = append(fake, rbody...)
				vs := []note.Verifier{}
				for _, rv := range b.wrv {
					vs = append(vs, rv)
				}
				_, _ = note.Open(fake, note.VerifierList(vs...))
			}
		}
	}
	ct := rec.Header().Get("Content-Type")
	exp := fmt.Sprintf("%d", expect)
	if expect == 0 {
		exp = "-"
	}
	eb := "-"
	if expectBody != "" {
		eb = hx([]byte(expectBody))
	}
	b.t.line("H %s allow=%d body=%s states=%s class=%s expect=%s expectbody=%s e2e=%d nomodel=%d => status=%d ctype=%s rbody=%s post=%s",
		b.id, allow, hx(body), pre, class, exp, eb, b.e2e, b.nomodel, status, hx([]byte(ct)), hx(rbody), post)
	return status
}

func newBastionSession(t *traceWriter, rng *rand.Rand, storeKind string, w *world, lss []*logState, wk []witKey, limit rate.Limit, allowN int) *bastionSession {
	var defs []*logDef
	for _, ls := range lss {
		defs = append(defs, ls.l)
	}
	s := newSession(t, storeKind, defs, wk)
	// the witness verifier the operator configures: the cosignature/v1 key when there is one
	wvIdx := 0
	for i, k := range wk {
		if k.kind == "cosigv1" {
			wvIdx = i
		}
	}
	rv := &recVerifier{inner: wk[wvIdx].verif, vid: newVid("B"), t: t}
	var logs []config.Log
	for _, l := range defs {
		logs = append(logs, config.Log{ID: l.id, Origin: l.origin, Verifier: l.key.verif})
	}
	t.line("HCFG %s wv=%d vid=%s", s.id, wvIdx, rv.vid)
	h := bastion.VerifNewHandler(bastion.Config{Logs: logs, WitnessVerifier: rv, Limits: bastion.RequestLimits{TotalPerSecond: limit}}, omniwitness.VerifNewAdapter(s.w))
	return &bastionSession{session: s, h: h, wvRec: rv, lss: lss, allowN: allowN}
}

func scenarioBastion(t *traceWriter, rng *rand.Rand) {
	nSess := pick(40, 600)
	w := &world{rng: rng, t: t}
	w.otherKey = genLogKey(rng, "b-other")
	keyA := genLogKey(rng, "b-log-a")
	wkSets := [][]witKey{
		{genWitKey(rng, "bwit-1", "ed25519"), genWitKey(rng, "bwit-1", "cosigv1")},
		{genWitKey(rng, "bwit-2", "cosigv1")},
	}
	for si := 0; si < nSess; si++ {
		w.wk = wkSets[rng.Intn(len(wkSets))]
		lss := []*logState{
			w.newLogState(fmt.Sprintf("bastion.example/%d/a", si), keyA, false),
			w.newLogState(fmt.Sprintf("bastion.example/%d/b", si)+longOriginTail(si), keyA, rng.Intn(3) == 0),
		}
		// a third log that stays at size 0 (the placeholder branch of Update has its own code): only the script below names it
		zeroLog := w.newLogState(fmt.Sprintf("bastion.example/%d/zero", si), keyA, false)
		zeroScript := si%4 == 2 && si%10 < 7
		if zeroScript {
			lss = append(lss, zeroLog)
		}
		limit, allowN := rate.Inf, -1
		switch si % 10 {
		case 7:
			limit, allowN = 0, 0
		case 8:
			limit, allowN = 3, 3
		}
		refill := si%20 == 9
		if refill {
			limit, allowN = 2, -1
		}
		bs := newBastionSession(t, rng, []string{"mem", "sql"}[si%2], w, lss, w.wk, limit, allowN)
		n := 6 + rng.Intn(14)
		if allowN > 0 {
			n = 6
		}
		if si%20 == 13 {
			// five requests that end in 500 (an honest checkpoint already carrying 100 signature lines: the cosigned result
			// cannot be read back), then ordinary traffic: whatever an internal error leaves behind must not change the
			// answers that follow
			for k := 0; k < 5 && !bs.dead; k++ {
				ls := lss[k%len(lss)]
				cur := ls.cur
				if cur == nil {
					cur = ls.branches[0]
				}
				stored := uint64(0)
				if ls.has {
					stored = ls.curSize
				}
				size := stored
				if !ls.has {
					size = 1 + uint64(rng.Intn(4))
				}
				cp := signNote(cpText(ls.l.origin, size, cur.root(size)), ls.l.key.signer)
				cp = append(cp, junkSigLines(rng, 99)...)
				bs.serve(writeBody(stored, [][]byte{}, cp), "internal.100lines", 500, "")
			}
		}
		if refill {
			// 2 requests per second, burst 2: two requests pass, six more arrive at once (pushed back unless the machine
			// stalls), then the caller stays silent for 0.7 s — longer than one token takes to come back — and its
			// next request is within the configured rate: it must be processed, not pushed back
			bs.allowPlan = []int{1, 1, 2, 2, 2, 2, 2, 2, 1}
			for i := 0; i < 200 && bs.sent < 8 && !bs.dead; i++ {
				bs.oneRequest(w, lss[rng.Intn(len(lss))])
			}
			time.Sleep(700 * time.Millisecond)
			ls := lss[0]
			// an honest request (class ok)
			stored := uint64(0)
			cur := ls.cur
			if cur == nil {
				cur = ls.branches[0]
			}
			if ls.has {
				stored = ls.curSize
			}
			size := stored
			if !ls.has {
				size = 2
			}
			cp := signNote(cpText(ls.l.origin, size, cur.root(size)), ls.l.key.signer)
			if st := bs.serve(writeBody(stored, [][]byte{}, cp), "ok.afterRefill", 200, ""); st == 200 {
				ls.has, ls.curSize, ls.cur = true, size, cur
			}
			n = 0
		}
		if zeroScript {
			lss = lss[:2]
			bs.lss = lss
			zl := zeroLog.l
			empty := zeroLog.branches[0].root(0)
			other := randHash(rng, 32)
			z := func(root []byte, ext ...string) []byte { return signNote(cpText(zl.origin, 0, root, ext...), zl.key.signer) }
			first := empty
			if rng.Intn(3) == 0 {
				first = other // a log may sign any 32 bytes beside size 0
				other = empty
			}
			bs.serve(writeBody(0, [][]byte{}, z(first, "first")), "zero.first", 200, "")
			for _, k := range rng.Perm(6) {
				if bs.dead {
					break
				}
				switch k {
				case 0: // same tree head, another text: accepted, and the answer cosigns the text submitted now
					bs.serve(writeBody(0, [][]byte{}, z(first, fmt.Sprintf("again-%d", rng.Intn(1000)))), "zero.refresh", 200, "")
				case 1: // same size, another root
					bs.serve(writeBody(0, [][]byte{}, z(other)), "zero.rootMismatch", 409, "")
				case 2: // a proof between two empty trees
					bs.serve(writeBody(0, [][]byte{randHash(rng, 32)}, z(first)), "zero.proof", 422, "")
				case 3: // old size above the checkpoint size
					bs.serve(writeBody(1+uint64(rng.Intn(3)), [][]byte{}, z(first)), "zero.oldTooLarge", 400, "")
				case 4: // identical resubmission
					bs.serve(writeBody(0, [][]byte{}, z(first, "first")), "zero.same", 200, "")
				case 5: // growth from the placeholder: the known finding F2 (VerifyConsistency(0, n) always errors)
					br := zeroLog.branches[0]
					bs.serve(writeBody(0, [][]byte{}, signNote(cpText(zl.origin, 3, br.root(3)), zl.key.signer)), "zero.growth", 0, "")
				}
			}
		}
		for i := 0; i < n && !bs.dead; i++ {
			ls := lss[rng.Intn(len(lss))]
			bs.oneRequest(w, ls)
		}
		if hangCount >= 3 {
			bs.end()
			return
		}
		bs.end()
	}
}

// oneRequest generates a request of a class whose protocol answer is known by construction.
func (b *bastionSession) oneRequest(w *world, ls *logState) {
	rng := w.rng
	l := ls.l
	cur := ls.cur
	if cur == nil {
		cur = ls.branches[0]
	}
	stored := uint64(0)
	if ls.has {
		stored = ls.curSize
	}
	grow := func() (uint64, [][]byte, []byte) {
		size := stored
		if !cur.virtual {
			size = stored + uint64(rng.Intn(int(cur.size()-stored)+1))
		} else {
			size = stored + uint64(rng.Int63n(1<<30))
		}
		if !ls.has && size == 0 {
			size = 1 + uint64(rng.Intn(5)) // keep away from the size-0 first checkpoint (F2) here
		}
		proof := [][]byte{}
		if stored > 0 && stored < size {
			proof = cur.consistency(stored, size)
		}
		// one request in three carries an extension line of its own, so that a same-size resubmission has the
		// same tree head but a different text: the answer must cosign the text submitted now
		var ext []string
		if rng.Intn(3) == 0 {
			ext = []string{fmt.Sprintf("ext-%d", rng.Intn(1000000))}
		}
		cp := signNote(cpText(l.origin, size, cur.root(size), ext...), l.key.signer)
		if rng.Intn(6) == 0 {
			// cosignatures of other witnesses ride along: the request body grows past the line reader's 4096-byte buffer
			cp = append(cp, junkSigLines(rng, 40+rng.Intn(25))...)
		}
		return size, proof, cp
	}
	observe := func(status int, size uint64) {
		if status == 200 {
			ls.has, ls.curSize, ls.cur = true, size, cur
		}
	}
	c := rng.Intn(100)
	switch {
	case c < 30: // honest growth or refresh: 200
		size, proof, cp := grow()
		st := b.serve(writeBody(stored, proof, cp), "ok", 200, "")
		observe(st, size)
	case c < 38: // stale old size: 409 + size
		if !ls.has {
			size, proof, cp := grow()
			observe(b.serve(writeBody(stored, proof, cp), "ok", 200, ""), size)
			return
		}
		size, _, cp := grow()
		old := stored + 1 + uint64(rng.Intn(3))
		if rng.Intn(2) == 0 && stored > 0 {
			old = uint64(rng.Int63n(int64(stored)))
		}
		if old > size {
			size = old + 1
			if size > cur.size() {
				return
			}
			cp = signNote(cpText(l.origin, size, cur.root(size)), l.key.signer)
		}
		b.serve(writeBody(old, [][]byte{}, cp), "stale", 409, fmt.Sprintf("%d\n", stored))
	case c < 44: // old size above the checkpoint size: 400
		if !ls.has {
			return
		}
		size, _, cp := grow()
		b.serve(writeBody(size+1+uint64(rng.Intn(5)), [][]byte{}, cp), "oldTooLarge", 400, "")
	case c < 50: // same size, different root: 409
		if !ls.has || stored == 0 || cur.virtual {
			return
		}
		other := ls.branches[1] // fork at 0: every root differs
		cp := signNote(cpText(l.origin, stored, other.root(stored)), l.key.signer)
		b.serve(writeBody(stored, [][]byte{}, cp), "rootMismatch", 409, "")
	case c < 60: // bad proof: 422
		if !ls.has || stored == 0 {
			return
		}
		size, proof, cp := grow()
		if size == stored {
			proof = [][]byte{randHash(rng, 32)}
		} else {
			pc := []proofClass{pEmpty, pFlipped, pDropped, pAdded, pOddLen}[rng.Intn(5)]
			proof = mkProof(rng, cur, stored, size, pc)
			for i := range proof { // an empty hash cannot be written as a body line (it would read as the separator)
				if len(proof[i]) == 0 {
					proof[i] = []byte{7}
				}
			}
		}
		b.serve(writeBody(stored, proof, cp), "badProof", 422, "")
	case c < 68: // no valid log signature: 403
		size, proof, _ := grow()
		text := cpText(l.origin, size, cur.root(size))
		var cp []byte
		switch rng.Intn(3) {
		case 0:
			cp = signNote(text, w.otherKey.signer)
		case 1:
			cp = signNote(text, forgedSigner{l.key.signer.Name(), l.key.signer.KeyHash(), rng})
		default:
			cp = signNote(text, l.key.signer)
			i := bytes.LastIndex(cp, []byte("\n\n"))
			cp[i-3] ^= 1 // corrupt the signed text (the root hash line), keeping the first line
		}
		b.serve(writeBody(stored, proof, cp), "badSig", 403, "")
	case c < 74: // unknown origin: 404
		size, proof, _ := grow()
		cp := signNote(cpText("nobody.example/log", size, cur.root(size)), l.key.signer)
		b.serve(writeBody(stored, proof, cp), "unknownOrigin", 404, "")
	case c < 92: // malformed bodies: 400
		size, proof, cp := grow()
		_ = size
		good := writeBody(stored, proof, cp)
		var body []byte
		kind := rng.Intn(10)
		switch kind {
		case 0:
			body = []byte{}
		case 1:
			body = bytes.Replace(good, []byte("old "), []byte([]string{"new ", "", "Old ", " old "}[rng.Intn(4)]), 1) // "" leaves the bare number
		case 2:
			body = bytes.Replace(good, []byte(fmt.Sprintf("old %d", stored)), []byte("old x"), 1)
		case 3:
			body = bytes.Replace(good, []byte(fmt.Sprintf("old %d", stored)), []byte("old 18446744073709551616"), 1)
		case 4: // a proof line that is not base64
			body = []byte(fmt.Sprintf("old %d\n!!!notbase64!!!\n\n%s", stored, cp))
		case 5: // ends before the blank separator
			body = []byte(fmt.Sprintf("old %d\n%s\n", stored, base64.StdEncoding.EncodeToString(randHash(rng, 32))))
		case 6: // nothing after the old line
			body = []byte(fmt.Sprintf("old %d", stored))
		case 7: // checkpoint without any newline
			body = []byte(fmt.Sprintf("old %d\n\nnonewlinehere", stored))
		case 8: // empty checkpoint
			body = []byte(fmt.Sprintf("old %d\n\n", stored))
		case 9:
			body = bytes.Replace(good, []byte(fmt.Sprintf("old %d", stored)), []byte("old -1"), 1)
		}
		b.serve(body, fmt.Sprintf("malformed.%d", kind), 400, "")
	default: // arbitrary mutations of a good body: no expectation beyond the documented status set
		size, proof, cp := grow()
		good := writeBody(stored, proof, cp)
		m := append([]byte{}, good...)
		switch rng.Intn(4) {
		case 0:
			m[rng.Intn(len(m))] ^= 1 << uint(rng.Intn(8))
		case 1:
			m = m[:rng.Intn(len(m))]
		case 2:
			m = bytes.Replace(m, []byte("\n"), []byte("\r\n"), 1+rng.Intn(3))
		case 3:
			k := rng.Intn(len(m))
			m = append(m[:k], append(randHash(rng, 1+rng.Intn(6)), m[k:]...)...)
		}
		st := b.serve(m, "mutated", 0, "")
		if st == 200 {
			// find out what the witness holds now
			res := updResult{cls: "none", ret: mustState(b.session, l.id)}
			ls.observe(res, l.key.verif)
			_ = size
		}
	}
}

func mustState(s *session, id string) []byte {
	st := s.readState(id) // deadline-protected when the store is wrapped
	if st == "-" || st == "!" {
		return nil
	}
	b, err := hex.DecodeString(st)
	if err != nil {
		return nil
	}
	return b
}

// ---------------------------------------------------------------- parseBody alone (C11)

func pbLine(t *traceWriter, body []byte, class string) {
	old, proof, cp, err := bastion.VerifParseBody(bytes.NewReader(body))
	if err != nil {
		t.line("PB %s class=%s => !", hx(body), class)
		return
	}
	t.line("PB %s class=%s => %d:%s:%s", hx(body), class, old, hxList(proof), hx(cp))
}

// feedbastionBodies asks the repository's own writer of the body format (cmd/feedbastion's bastionClient.Update, built
// with a hook that captures what it posts) for the bodies of the given requests.
func feedbastionBodies(reqs []fbReq) [][]byte {
	bin := os.Getenv("VERIF_FEEDBASTION_BIN")
	if bin == "" {
		return nil
	}
	if _, err := os.Stat(bin); err != nil {
		return nil
	}
	var in bytes.Buffer
	for _, r := range reqs {
		fmt.Fprintf(&in, "%d %s %s\n", r.old, hxList(r.proof), hx(r.cp))
	}
	cmd := exec.Command(bin)
	cmd.Env = append(os.Environ(), "VERIF_FEEDBASTION_WRITER=1")
	cmd.Stdin = &in
	out, err := cmd.Output()
	if err != nil {
		return nil
	}
	var bodies [][]byte
	for _, l := range strings.Split(strings.TrimSpace(string(out)), "\n") {
		if l == "." {
			bodies = append(bodies, []byte{})
			continue
		}
		b, err := hex.DecodeString(l)
		if err != nil {
			return nil
		}
		bodies = append(bodies, b)
	}
	return bodies
}

type fbReq struct {
	old   uint64
	proof [][]byte
	cp    []byte
}

func scenarioParseBody(t *traceWriter, rng *rand.Rand) {
	// the repository's own writer first: what cmd/feedbastion posts must parse back to the proof and checkpoint it was
	// given (it always writes "old 0": its view of the witness is "nothing yet")
	var fb []fbReq
	for i := 0; i < pick(150, 2000); i++ {
		np := rng.Intn(6)
		if i%10 == 0 {
			np = 40 + rng.Intn(25)
		}
		var proof [][]byte
		for j := 0; j < np; j++ {
			proof = append(proof, randHash(rng, 1+rng.Intn(64)))
		}
		cp := signNote(cpText("fb.example/log", uint64(rng.Intn(100000)), randHash(rng, 32)), forgedSigner{"fb", 9, rng})
		switch rng.Intn(5) {
		case 0:
			cp = randHash(rng, 1+rng.Intn(400))
		case 1:
			cp = []byte("origin\n5\nAAAA\n\n\n— sig line\n\n\n")
		}
		fb = append(fb, fbReq{uint64(rng.Intn(1000)), proof, cp})
	}
	if bodies := feedbastionBodies(fb); len(bodies) == len(fb) {
		for i, r := range fb {
			t.line("PBW old=0 proof=%s cp=%s body=%s", hxList(r.proof), hx(r.cp), hx(bodies[i]))
			pbLine(t, bodies[i], "written")
		}
		t.line("FBW writer=feedbastion bodies=%d", len(bodies))
	} else {
		t.line("FBW writer=feedbastion bodies=-1")
	}
	n := pick(1500, 60000)
	olds := []uint64{0, 1, 9, 10, 1 << 63, ^uint64(0)}
	for i := 0; i < n; i++ {
		old := olds[rng.Intn(len(olds))]
		if rng.Intn(2) == 0 {
			old = rng.Uint64() >> uint(rng.Intn(64))
		}
		np := rng.Intn(65)
		if rng.Intn(3) > 0 {
			np = rng.Intn(5)
		}
		hl := func() int { return 1 + rng.Intn(64) }
		if i%25 == 7 {
			// the top of the quantified range: up to 64 hashes of up to 64 bytes, so that the proof lines alone exceed
			// the 4096-byte buffer of the line reader and the body arrives in several reads
			np = 40 + rng.Intn(25)
			hl = func() int { return 48 + rng.Intn(17) }
		}
		var proof [][]byte
		for j := 0; j < np; j++ {
			proof = append(proof, randHash(rng, hl()))
		}
		var cp []byte
		if i%150 == 11 {
			// a very large checkpoint part (the handler's cap does not apply to parseBody itself): nothing may be cut off
			big := randHash(rng, 60000+rng.Intn(150000))
			good := writeBody(old, proof, big)
			t.line("PBW old=%d proof=%s cp=%s body=%s", old, hxList(proof), hx(big), hx(good))
			pbLine(t, good, "written")
			continue
		}
		switch rng.Intn(6) {
		case 0:
			cp = []byte{}
		case 1:
			cp = randHash(rng, rng.Intn(300)) // arbitrary, non-UTF-8
		case 2:
			cp = []byte("origin\n5\nAAAA\n\n\n— sig line\n\n\n")
		case 3:
			cp = []byte("no trailing newline")
		default:
			cp = signNote(cpText("pb.example/log", uint64(rng.Intn(1000)), randHash(rng, 32)), forgedSigner{"pb", 7, rng})
		}
		good := writeBody(old, proof, cp)
		// expected round trip, written into the record for the C11 monitor
		t.line("PBW old=%d proof=%s cp=%s body=%s", old, hxList(proof), hx(cp), hx(good))
		pbLine(t, good, "written")
		// malformed stream
		m := append([]byte{}, good...)
		switch rng.Intn(12) {
		case 0:
			m[rng.Intn(len(m))] ^= 1 << uint(rng.Intn(8))
		case 1:
			m = m[:rng.Intn(len(m))]
		case 2:
			m = bytes.Replace(m, []byte("\n"), []byte("\r\n"), 1+rng.Intn(4))
		case 3:
			k := rng.Intn(len(m))
			m = append(m[:k], append(randHash(rng, 1+rng.Intn(6)), m[k:]...)...)
		case 4:
			heads := []string{"5", "0", "7\r", "18446744073709551615", "old 1xyz", "old 5 6", "old\t5", "old 0x10", "old 1_0", "old  7", "old 5", "old 5", "old +5", "old -5", "old", "old ", "Old 5", "old5", " old 5", "old 00005", "old 5\r", "old \r5", "old \xff5", "old 5\xff", "old 18446744073709551615", "old 18446744073709551616", "old 99999999999999999999999999"}
			m = append([]byte(heads[rng.Intn(len(heads))]), m[bytes.IndexByte(m, '\n'):]...)
		case 5: // very long proof line (> 4096 characters)
			long := base64.StdEncoding.EncodeToString(randHash(rng, 3000+rng.Intn(400)))
			m = []byte(fmt.Sprintf("old %d\n%s\n\n%s", old, long, cp))
		case 6: // long line ending in CR at the buffer boundary
			pad := strings.Repeat("A", 4095-len(fmt.Sprintf("old %d", old))) + "\r"
			m = []byte(fmt.Sprintf("old %d%s\n\n%s", old, pad, cp))
		case 7:
			m = []byte(fmt.Sprintf("old %d\n%s\n\n%s", old, strings.Repeat("QUJD", 1023+rng.Intn(3)), cp))
		case 8:
			m = randHash(rng, rng.Intn(60))
		case 9: // base64 with embedded CR/LF-ignored characters, non-canonical trailing bits
			m = []byte(fmt.Sprintf("old %d\nQR==\nQUI\r=\n\n%s", old, cp))
		case 10:
			m = []byte(fmt.Sprintf("old %d\n \n\n%s", old, cp))
		case 11:
			m = []byte(fmt.Sprintf("old %d\n\r\n%s", old, cp))
		}
		pbLine(t, m, "mutated")
	}
}

// ---------------------------------------------------------------- proof text format (C11)

func init() { scenarios["prooffmt"] = scenarioProofFmt }

func pfList(p [][]byte, err error) string {
	if err != nil {
		return "!"
	}
	if len(p) == 0 {
		return "-"
	}
	return hxList(p)
}

func scenarioProofFmt(t *traceWriter, rng *rand.Rand) {
	n := pick(800, 30000)
	var reused witness.Proof // one receiver used again and again, as a polling caller would
	for i := 0; i < n; i++ {
		np := rng.Intn(6)
		if rng.Intn(8) == 0 {
			np = rng.Intn(65)
		}
		if i < 3 {
			np = i // always the empty list, one, two
		}
		p := witness.Proof{}
		for j := 0; j < np; j++ {
			k := 1 + rng.Intn(64)
			if rng.Intn(20) == 0 {
				k = 0
			}
			p = append(p, randHash(rng, k))
		}
		m := p.Marshal()
		var back witness.Proof
		err := back.Unmarshal([]byte(m))
		t.line("PFR proof=%s => m=%s u=%s", hxList(p), hx([]byte(m)), pfList(back, err))
		// arbitrary and mutated data
		d := []byte(m)
		switch rng.Intn(6) {
		case 0:
			if len(d) > 0 {
				d = d[:rng.Intn(len(d))]
			}
		case 1:
			if len(d) > 0 {
				d[rng.Intn(len(d))] ^= 1 << uint(rng.Intn(8))
			}
		case 2:
			d = append(d, []byte("\n")...)
		case 3:
			d = randHash(rng, rng.Intn(40))
		case 4:
			d = []byte(strings.Replace(string(d), "\n", "\r\n", 1))
		case 5:
			d = append([]byte("!!!\n"), d...)
		}
		var u witness.Proof
		err = u.Unmarshal(d)
		t.line("PFU %s => %s", hx(d), pfList(u, err))
		// the same through a receiver that already holds an earlier (possibly longer) proof
		err2 := reused.Unmarshal([]byte(m))
		t.line("PFR proof=%s => m=%s u=%s", hxList(p), hx([]byte(m)), pfList(reused, err2))
	}
}

// longOriginTail: one session in six configures its second log with an origin longer than a line reader's 4096-byte
// buffer (still far below the request body cap): the endpoint must derive the same ID from it as everybody else.
func longOriginTail(si int) string {
	if si%6 != 4 {
		return ""
	}
	return "/" + strings.Repeat("long-origin-", 345+si%7) // 4140+ bytes
}
