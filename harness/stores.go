package main

import (
	"context"
	"database/sql"
	"database/sql/driver"
	"errors"
	"fmt"
	"math/rand"
	"os"
	"path/filepath"
	"strconv"
	"strings"
	"sync"
	"time"

	sqlite3 "github.com/mattn/go-sqlite3"
	"github.com/transparency-dev/witness/internal/persistence"
	"github.com/transparency-dev/witness/internal/persistence/inmemory"
	psql "github.com/transparency-dev/witness/internal/persistence/sql"
	"golang.org/x/mod/sumdb/note"
)

// ---------------------------------------------------------------- wrapping LogStatePersistence

// lspCtl controls a wrapped persistence: records the storage calls, injects interface-level failures and
// (for schedule exploration) parks each goroutine before every storage call until the scheduler releases it.
type lspCtl struct {
	mu     sync.Mutex
	calls  []string
	fail   map[string]bool // op name -> fail (one shot per Update; cleared by reset)
	gate   func(tid int, op string) // nil = free running
	xkind  int                      // which damage fault X does
	readErr error                   // what a failing read-handle GetLatest returns (nil: a plain error)
}

func (c *lspCtl) record(op string) {
	c.mu.Lock()
	c.calls = append(c.calls, op)
	c.mu.Unlock()
}

func (c *lspCtl) take() string {
	c.mu.Lock()
	defer c.mu.Unlock()
	s := strings.Join(c.calls, ",")
	c.calls = nil
	if s == "" {
		return "-"
	}
	return s
}

func (c *lspCtl) failing(op string) bool {
	c.mu.Lock()
	defer c.mu.Unlock()
	return c.fail[op]
}

func (c *lspCtl) setFaults(ops string) {
	c.mu.Lock()
	c.fail = map[string]bool{}
	for _, o := range ops {
		c.fail[string(o)] = true
	}
	c.mu.Unlock()
}

var errInjected = errors.New("injected storage failure")

// corruptRead is what a damaged store returns instead of the stored checkpoint b (fault letter X).
func corruptRead(b []byte, kind int) []byte {
	c := append([]byte{}, b...)
	switch kind % 5 {
	case 0:
		return c[:len(c)/2] // cut short
	case 1:
		if len(c) > 3 {
			c[3] ^= 0x01 // the origin line differs: no longer this log's text
		}
		return c
	case 2:
		if i := strings.Index(string(c), "\n\n"); i >= 0 && i+12 < len(c) {
			c[i+12] ^= 0x20 // inside the first signature line
		}
		return c
	case 3:
		return []byte{}
	default:
		return []byte("\x00\xff garbage \n")
	}
}

type wrapLSP struct {
	inner persistence.LogStatePersistence
	ctl   *lspCtl
	tid   func() int
}

func (w *wrapLSP) Init() error             { return w.inner.Init() }
func (w *wrapLSP) Logs() ([]string, error) {
	if w.ctl.failing("L") {
		return nil, errInjected
	}
	return w.inner.Logs()
}
func (w *wrapLSP) ReadOps(id string) (persistence.LogStateReadOps, error) {
	w.ctl.record("R")
	if w.ctl.failing("r") {
		return nil, errInjected
	}
	r, err := w.inner.ReadOps(id)
	if err != nil {
		return nil, err
	}
	return &wrapRead{r, w}, nil
}
func (w *wrapLSP) WriteOps(id string) (persistence.LogStateWriteOps, error) {
	if w.ctl.gate != nil {
		w.ctl.gate(w.tid(), "W")
	}
	w.ctl.record("W")
	if w.ctl.failing("W") {
		return nil, errInjected
	}
	wo, err := w.inner.WriteOps(id)
	if err != nil {
		return nil, err
	}
	return &wrapWrite{wo, w}, nil
}

type wrapRead struct {
	inner persistence.LogStateReadOps
	w     *wrapLSP
}

func (r *wrapRead) GetLatest() ([]byte, error) {
	if r.w.ctl.gate != nil {
		r.w.ctl.gate(r.w.tid(), "g")
	}
	r.w.ctl.record("g")
	if r.w.ctl.failing("g") {
		if r.w.ctl.readErr != nil {
			return nil, r.w.ctl.readErr // a storage layer that reports its failure with a gRPC status code
		}
		return nil, errInjected
	}
	b, err := r.inner.GetLatest()
	if r.w.ctl.gate != nil {
		r.w.ctl.gate(r.w.tid(), "g'") // between the read and whatever is done with its result
	}
	return b, err
}

type wrapWrite struct {
	inner persistence.LogStateWriteOps
	w     *wrapLSP
}

func (x *wrapWrite) GetLatest() ([]byte, error) {
	if x.w.ctl.gate != nil {
		x.w.ctl.gate(x.w.tid(), "G")
	}
	x.w.ctl.record("G")
	if x.w.ctl.failing("R") {
		return nil, errInjected
	}
	b, err := x.inner.GetLatest()
	if err == nil && x.w.ctl.failing("X") {
		b = corruptRead(b, x.w.ctl.xkind) // the store hands back damaged bytes, without an error
	}
	if x.w.ctl.gate != nil {
		x.w.ctl.gate(x.w.tid(), "G'")
	}
	return b, err
}
func (x *wrapWrite) Set(c []byte) error {
	if x.w.ctl.gate != nil {
		x.w.ctl.gate(x.w.tid(), "S")
	}
	x.w.ctl.record("S")
	if x.w.ctl.failing("S") {
		return errInjected
	}
	return x.inner.Set(c)
}
func (x *wrapWrite) Close() error {
	if x.w.ctl.gate != nil {
		x.w.ctl.gate(x.w.tid(), "C")
	}
	x.w.ctl.record("C")
	err := x.inner.Close()
	if x.w.ctl.failing("C") {
		return errInjected
	}
	return err
}

// ---------------------------------------------------------------- wrapping database/sql driver

// drvCtl: operation log and fault plan of the wrapped SQLite driver (process-wide; scenarios using it run one
// store at a time).
type drvCtlT struct {
	mu    sync.Mutex
	ops   []string
	fail  map[string]bool // op name ("begin","query","exec","commit","rollback") -> fail next occurrence; "name#k": the k-th from now
	seen  map[string]int  // occurrences of each op since the plan was set
	count int
	kill  int // SIGKILL self before op number kill (1-based, counting entry and exit events), 0 = never
}

var drvCtl = &drvCtlT{fail: map[string]bool{}}

func (d *drvCtlT) op(name string) bool {
	d.mu.Lock()
	defer d.mu.Unlock()
	d.ops = append(d.ops, name)
	d.count++
	if d.kill != 0 && d.count == d.kill {
		killSelf()
	}
	if d.seen == nil {
		d.seen = map[string]int{}
	}
	d.seen[name]++
	if d.fail[name] {
		delete(d.fail, name)
		return true
	}
	if k := fmt.Sprintf("%s#%d", name, d.seen[name]); d.fail[k] {
		delete(d.fail, k)
		return true
	}
	return false
}

// pending reports whether any planned fault has not struck yet.
func (d *drvCtlT) pending() bool {
	d.mu.Lock()
	defer d.mu.Unlock()
	return len(d.fail) > 0
}

func (d *drvCtlT) done(name string) {
	d.mu.Lock()
	defer d.mu.Unlock()
	d.ops = append(d.ops, name+".done")
	d.count++
	if d.kill != 0 && d.count == d.kill {
		killSelf()
	}
}

func (d *drvCtlT) take() string {
	d.mu.Lock()
	defer d.mu.Unlock()
	s := strings.Join(d.ops, ",")
	d.ops = nil
	if s == "" {
		return "-"
	}
	return s
}

func (d *drvCtlT) setFaults(ops []string) {
	d.mu.Lock()
	d.fail = map[string]bool{}
	d.seen = map[string]int{}
	for _, o := range ops {
		d.fail[o] = true
	}
	d.mu.Unlock()
}

type wdriver struct{ d driver.Driver }
type wconn struct{ c driver.Conn }
type wstmt struct {
	s driver.Stmt
	q string
}
type wtx struct{ t driver.Tx }

func (d wdriver) Open(name string) (driver.Conn, error) {
	c, err := d.d.Open(name)
	if err != nil {
		return nil, err
	}
	return &wconn{c}, nil
}
func (c *wconn) Prepare(q string) (driver.Stmt, error) {
	s, err := c.c.Prepare(q)
	if err != nil {
		return nil, err
	}
	return &wstmt{s, q}, nil
}
func (c *wconn) Close() error { return c.c.Close() }
func (c *wconn) Begin() (driver.Tx, error) {
	if drvCtl.op("begin") {
		return nil, errInjected
	}
	t, err := c.c.Begin()
	drvCtl.done("begin")
	if err != nil {
		return nil, err
	}
	return &wtx{t}, nil
}
func (s *wstmt) Close() error  { return s.s.Close() }
func (s *wstmt) NumInput() int { return s.s.NumInput() }
func (s *wstmt) Exec(a []driver.Value) (driver.Result, error) {
	name := "exec"
	if strings.HasPrefix(strings.TrimSpace(strings.ToUpper(s.q)), "CREATE") {
		return s.s.Exec(a)
	}
	if drvCtl.op(name) {
		return nil, errInjected
	}
	r, err := s.s.Exec(a)
	drvCtl.done(name)
	return r, err
}
func (s *wstmt) Query(a []driver.Value) (driver.Rows, error) {
	if drvCtl.op("query") {
		return nil, errInjected
	}
	r, err := s.s.Query(a)
	drvCtl.done("query")
	if err != nil {
		return nil, err
	}
	return &wrows{r}, nil
}

// wrows lets a fault strike while the stored row is being fetched (driver.Rows.Next), not at the query call.
type wrows struct{ r driver.Rows }

func (w *wrows) Columns() []string { return w.r.Columns() }
func (w *wrows) Close() error      { return w.r.Close() }
func (w *wrows) Next(dest []driver.Value) error {
	if drvCtl.op("next") {
		return errInjected
	}
	return w.r.Next(dest)
}
func (t *wtx) Commit() error {
	if drvCtl.op("commit") {
		// a clean commit failure: the transaction is rolled back, as go-sqlite3 itself does on a failed COMMIT
		_ = t.t.Rollback()
		return errInjected
	}
	err := t.t.Commit()
	drvCtl.done("commit")
	return err
}
func (t *wtx) Rollback() error {
	if drvCtl.op("rollback") {
		_ = t.t.Rollback()
		return errInjected
	}
	err := t.t.Rollback()
	drvCtl.done("rollback")
	return err
}

func init() { sql.Register("sqlite3_verif", wdriver{&sqlite3.SQLiteDriver{}}) }

// openSQL opens a file-backed SQLite store through the wrapping driver with the production pool size.
func openSQL(path string) (*sql.DB, persistence.LogStatePersistence) {
	db, err := sql.Open("sqlite3_verif", path)
	if err != nil {
		panic(err)
	}
	db.SetMaxOpenConns(productionMaxOpenConns)
	return db, psql.NewPersistence(db)
}

// productionMaxOpenConns is what cmd/omniwitness/monolith.go passes to db.SetMaxOpenConns, as extracted from
// the working tree by tools/extract.py (0 = the call is absent: unlimited pool); the Lean side has the same
// number as Facts.maxOpenConns and the theorem C05_pool_is_single about it.
var productionMaxOpenConns = func() int {
	if v, err := strconv.Atoi(os.Getenv("VERIF_MAXOPENCONNS")); err == nil {
		return v
	}
	return 1
}()

// ---------------------------------------------------------------- fault scenario (C07, C03)

func init() { scenarios["fault"] = scenarioFault }

type failingSigner struct {
	inner note.Signer
	fail  *bool
}

func (f *failingSigner) Name() string    { return f.inner.Name() }
func (f *failingSigner) KeyHash() uint32 { return f.inner.KeyHash() }
func (f *failingSigner) Sign(msg []byte) ([]byte, error) {
	if *f.fail {
		return nil, errInjected
	}
	return f.inner.Sign(msg)
}

// withDeadline runs f; reports whether it completed in time.
func withDeadline(d time.Duration, f func()) bool {
	done := make(chan struct{})
	go func() { f(); close(done) }()
	select {
	case <-done:
		return true
	case <-time.After(d):
		return false
	}
}

func scenarioFault(t *traceWriter, rng *rand.Rand) {
	key := genLogKey(rng, "fault-log")
	keyB := genLogKey(rng, "fault-log-b")
	tr := newExplicitBranch("trunk", 12, nil, 0)
	fk := newExplicitBranch("f0", 12, tr, 0)
	type hk struct {
		name   string
		setup  int // -1: nothing stored; else stored size
		old    uint64
		size   uint64
		branch *branch
		proof  func() [][]byte
	}
	kinds := []hk{
		{"firstUse", -1, 0, 4, tr, func() [][]byte { return [][]byte{} }},
		{"growth", 3, 3, 7, tr, func() [][]byte { return tr.consistency(3, 7) }},
		{"refresh", 5, 5, 5, tr, func() [][]byte { return [][]byte{} }},
		{"stale", 5, 4, 7, tr, func() [][]byte { return tr.consistency(4, 7) }},
		{"badProof", 3, 3, 7, tr, func() [][]byte { return tr.consistency(3, 8) }},
		{"fork", 3, 3, 7, fk, func() [][]byte { return fk.consistency(3, 7) }},
		{"sameSizeFork", 5, 5, 5, fk, func() [][]byte { return [][]byte{} }},
		{"badSig", 3, 3, 7, tr, func() [][]byte { return tr.consistency(3, 7) }},
		// the placeholder branch of Update (submitted size 0) has its own sign/Set/return sequence
		{"zeroFirst", -1, 0, 0, tr, func() [][]byte { return [][]byte{} }},
		{"zeroRefresh", 0, 0, 0, tr, func() [][]byte { return [][]byte{} }},
		{"zeroProof", 0, 0, 0, tr, func() [][]byte { return tr.consistency(3, 7) }},
	}
	// interface-level fault sets: every single fault and every pair; N = a signer fails
	ifaceFaults := []string{"", "W", "R", "S", "C", "N", "WR", "WS", "RS", "RC", "SC", "WC", "SN", "RN", "CN", "WRSC", "X", "X", "X", "X", "X", "XC", "XS"}
	drvFaults := [][]string{{}, {"begin"}, {"query"}, {"next"}, {"exec"}, {"commit"}, {"rollback"}, {"query", "rollback"}, {"next", "rollback"}, {"exec", "rollback"}, {"commit", "rollback"}, {"begin", "query"}, {"exec", "commit"}}
	if !thorough() {
		drvFaults = drvFaults[:10]
	}
	wkeys := []witKey{genWitKey(rng, "fwit", "ed25519"), genWitKey(rng, "fwit", "cosigv1")}
	scratch := scratchDir()
	defer os.RemoveAll(scratch)
	caseNo := 0
	runCase := func(storeKind string, k hk, iface string, drv []string, iface2 ...string) {
		if hangCount >= 3 {
			return
		}
		caseNo++
		defs := []*logDef{{origin: fmt.Sprintf("fault.example/%d/a", caseNo), key: key}, {origin: fmt.Sprintf("fault.example/%d/b", caseNo), key: keyB}}
		ctl := &lspCtl{fail: map[string]bool{}}
		var inner persistence.LogStatePersistence
		var db *sql.DB
		closeFn := func() {}
		switch storeKind {
		case "mem":
			inner = inmemory.NewPersistence()
		default:
			path := filepath.Join(scratch, fmt.Sprintf("c%d.db", caseNo))
			db, inner = openSQL(path)
			closeFn = func() { db.Close(); os.Remove(path) }
		}
		signFail := false
		s := newSessionWith(t, storeKind, defs, wkeys, &wrapLSP{inner: inner, ctl: ctl, tid: func() int { return 0 }}, &signFail)
		l := defs[0]
		// the other log always holds something, to see that it is never disturbed
		s.update(defs[1].id, 0, signNote(cpText(defs[1].origin, 2, tr.root(2)), keyB.signer), [][]byte{}, "class=setup")
		if k.setup >= 0 {
			s.update(l.id, 0, signNote(cpText(l.origin, uint64(k.setup), tr.root(uint64(k.setup))), key.signer), [][]byte{}, "class=setup")
		}
		cp := signNote(cpText(l.origin, k.size, k.branch.root(k.size)), key.signer)
		if k.name == "refresh" || k.name == "zeroRefresh" {
			// the refreshed note carries another witness's line, so that what the witness would cosign now differs in
			// bytes from what it holds (with an identical note and the same second the two coincide)
			cp = signNote(cpText(l.origin, k.size, k.branch.root(k.size)), key.signer, keyB.signer)
		}
		if k.name == "badSig" {
			cp = signNote(cpText(l.origin, k.size, k.branch.root(k.size)), forgedSigner{key.signer.Name(), key.signer.KeyHash(), rng})
		}
		// the faulty update
		ctl.take()
		drvCtl.take()
		s.faults = iface
		s.ctl = ctl
		ctl.xkind = caseNo
		s.useDrv = storeKind == "sqldrv"
		s.drvFaults = drv
		s.signFail = &signFail
		s.update(l.id, k.old, cp, k.proof(), fmt.Sprintf("class=fault.%s", k.name))
		for _, f2 := range iface2 {
			// a second faulty update straight after the first (the same request again, another fault pattern)
			if s.dead {
				break
			}
			s.faults = f2
			s.update(l.id, k.old, cp, k.proof(), fmt.Sprintf("class=fault2.%s", k.name))
		}
		s.faults, s.drvFaults = "", nil
		if s.dead {
			s.end()
			return // wedged: closing the database would block too; the scratch directory is removed at the end
		}
		// fault-free continuation: an honest step from whatever is stored now must behave as the model says and
		// must complete (no transaction left open on the single connection)
		st := &logState{l: l, branches: []*branch{tr, fk}}
		if b := mustState(s, l.id); b != nil {
			st.observe(updResult{cls: "none", ret: b}, key.verif)
		}
		if !(st.has && st.cur == nil) {
			cur := st.cur
			if cur == nil {
				cur = tr
			}
			stored := uint64(0)
			if st.has {
				stored = st.curSize
			}
			size := stored + 2
			if st.has && stored == 0 {
				size = 0 // an honest refresh: growth from a stored size 0 is the known finding F2, not a storage matter
			}
			pr := [][]byte{}
			if stored > 0 {
				pr = cur.consistency(stored, size)
			}
			probe := "probe=1"
			if !st.has {
				probe = "probe=1" // first use after the faults
			}
			s.update(l.id, stored, signNote(cpText(l.origin, size, cur.root(size)), key.signer), pr, "class=fault.continue "+probe)
		}
		s.end()
		closeFn()
	}
	// the caller's context ends while an update is in flight (parked just before Set): if Update comes back
	// with a refusal, nothing may change afterwards — a refusal is final, not "refused now, committed later"
	for ci, k := range []hk{kinds[0], kinds[1], kinds[2]} {
		for _, storeKind := range []string{"mem", "sqlfile2"} {
			for _, at := range []string{"G", "S"} {
				if hangCount >= 3 {
					break
				}
				caseNo++
				defs := []*logDef{{origin: fmt.Sprintf("fault.example/%d/a", caseNo), key: key}, {origin: fmt.Sprintf("fault.example/%d/b", caseNo), key: keyB}}
				parked := make(chan struct{}, 1)
				release := make(chan struct{})
				ctl := &lspCtl{fail: map[string]bool{}}
				var inner persistence.LogStatePersistence
				closeFn := func() {}
				if storeKind == "mem" {
					inner = inmemory.NewPersistence()
				} else {
					path := filepath.Join(scratch, fmt.Sprintf("x%d-%d.db", ci, caseNo))
					db, p := openSQL(path)
					inner = p
					closeFn = func() { db.Close(); os.Remove(path) }
				}
				s := newSessionWith(t, storeKind, defs, wkeys, &wrapLSP{inner: inner, ctl: ctl, tid: func() int { return 0 }}, nil)
				l := defs[0]
				if k.setup >= 0 {
					s.update(l.id, 0, signNote(cpText(l.origin, uint64(k.setup), tr.root(uint64(k.setup))), key.signer), [][]byte{}, "class=setup")
				}
				allpre := s.allState()
				armed := true
				ctl.gate = func(_ int, op string) {
					if armed && op == at {
						armed = false
						parked <- struct{}{}
						<-release
					}
				}
				ctx, cancel := context.WithCancel(context.Background())
				type res struct {
					ret []byte
					err error
				}
				done := make(chan res, 1)
				cp := signNote(cpText(l.origin, k.size, k.branch.root(k.size)), key.signer)
				go func() {
					ret, err := s.w.Update(ctx, l.id, k.old, cp, k.proof())
					done <- res{ret, err}
				}()
				early, refusedEarly := 0, 0
				select {
				case <-parked:
					cancel()
					select {
					case r := <-done: // came back although its storage work is still parked
						early = 1
						if r.err != nil {
							refusedEarly = 1
						}
					case <-time.After(300 * time.Millisecond):
					}
				case r := <-done:
					_ = r
				case <-time.After(5 * time.Second):
				}
				close(release)
				if early == 0 {
					select {
					case <-done:
					case <-time.After(5 * time.Second):
					}
				}
				time.Sleep(200 * time.Millisecond)
				ctl.gate = nil
				cancel()
				allpost := s.allState()
				t.line("UC %s kind=%s store=%s at=%s early=%d refused=%d allpre=%s => allafter=%s", s.id, k.name, storeKind, at, early, refusedEarly, allpre, allpost)
				s.end()
				closeFn()
			}
		}
	}
	for _, k := range kinds {
		for _, f := range ifaceFaults {
			runCase("mem", k, f, nil)
			runCase("sqlfile2", k, f, nil)
		}
		for _, d := range drvFaults {
			runCase("sqldrv", k, "", d)
		}
		if thorough() {
			// every subset of up to three interface-level faults, and pairs of consecutive faulty updates
			letters := "WRSCNX"
			for a := 0; a < len(letters); a++ {
				for b := a + 1; b < len(letters); b++ {
					for c := b + 1; c < len(letters); c++ {
						f := string([]byte{letters[a], letters[b], letters[c]})
						runCase("mem", k, f, nil)
						runCase("sqlfile2", k, f, nil)
					}
				}
			}
			for _, f1 := range []string{"S", "C", "R", "X", "N", "W"} {
				for _, f2 := range []string{"S", "C", "R", "X", "N", ""} {
					runCase([]string{"mem", "sqlfile2"}[(len(f1)+len(f2)+int(f1[0]))%2], k, f1, nil, f2)
				}
			}
		}
	}
}
