package main

import (
	"bytes"
	"context"
	"database/sql"
	"encoding/base64"
	"fmt"
	"io"
	"math/rand"
	"net"
	"net/http"
	"os"
	"path/filepath"
	"strconv"
	"strings"
	"sync"
	"time"

	f_log "github.com/transparency-dev/formats/log"
	f_note "github.com/transparency-dev/formats/note"
	"github.com/transparency-dev/witness/internal/persistence"
	"github.com/transparency-dev/witness/internal/persistence/inmemory"
	psql "github.com/transparency-dev/witness/internal/persistence/sql"
	"github.com/transparency-dev/witness/omniwitness"
	"golang.org/x/mod/sumdb/note"
)

func init() { scenarios["omni"] = scenarioOmni }

// stubTiles serves a tlog-tiles log (checkpoint + hash tiles) for the first `size` leaves of a branch.
type stubTiles struct {
	mu     sync.Mutex
	br     *branch
	size   uint64
	origin string
	signer note.Signer
	reqs   int
	outage bool // everything but the checkpoint answers 503
}

func (s *stubTiles) checkpoint() []byte {
	return signNote(cpText(s.origin, s.size, s.br.root(s.size)), s.signer)
}

func (s *stubTiles) RoundTrip(r *http.Request) (*http.Response, error) {
	s.mu.Lock()
	defer s.mu.Unlock()
	s.reqs++
	mk := func(code int, body []byte) (*http.Response, error) {
		return &http.Response{StatusCode: code, Status: fmt.Sprintf("%d", code), Body: io.NopCloser(bytes.NewReader(body)), Header: http.Header{}, Request: r}, nil
	}
	p := strings.TrimPrefix(r.URL.Path, "/")
	if p == "checkpoint" {
		return mk(200, s.checkpoint())
	}
	if s.outage {
		return mk(503, []byte("tile storage is unavailable"))
	}
	if !strings.HasPrefix(p, "tile/") || strings.HasPrefix(p, "tile/entries") {
		return mk(404, nil)
	}
	parts := strings.Split(strings.TrimPrefix(p, "tile/"), "/")
	level, err := strconv.Atoi(parts[0])
	if err != nil || len(parts) < 2 {
		return mk(404, nil)
	}
	width := 256
	rest := parts[1:]
	if len(rest) >= 2 && strings.HasSuffix(rest[len(rest)-2], ".p") {
		width, _ = strconv.Atoi(rest[len(rest)-1])
		rest[len(rest)-2] = strings.TrimSuffix(rest[len(rest)-2], ".p")
		rest = rest[:len(rest)-1]
	}
	idx := uint64(0)
	for _, g := range rest {
		v, err := strconv.Atoi(strings.TrimPrefix(g, "x"))
		if err != nil {
			return mk(404, nil)
		}
		idx = idx*1000 + uint64(v)
	}
	span := uint64(1) << (8 * uint(level))
	avail := s.size/span - idx*256
	if s.size/span < idx*256 {
		avail = 0
	}
	if avail > 256 {
		avail = 256
	}
	if uint64(width) > avail || width <= 0 {
		return mk(404, nil)
	}
	var body []byte
	for i := uint64(0); i < uint64(width); i++ {
		lo := (idx*256 + i) * span
		body = append(body, s.br.rangeRoot(lo, lo+span)...)
	}
	return mk(200, body)
}

type hostRouter map[string]http.RoundTripper

func (h hostRouter) RoundTrip(r *http.Request) (*http.Response, error) {
	if rt, ok := h[r.URL.Host]; ok {
		return rt.RoundTrip(r)
	}
	return nil, fmt.Errorf("no such host in the harness: %s", r.URL.Host)
}

// askLSP records which logs the service asks its storage about.
type askLSP struct {
	inner persistence.LogStatePersistence
	mu    sync.Mutex
	ids   map[string]int
}

func (a *askLSP) Init() error             { return a.inner.Init() }
func (a *askLSP) Logs() ([]string, error) { return a.inner.Logs() }
func (a *askLSP) ReadOps(id string) (persistence.LogStateReadOps, error) {
	a.mu.Lock()
	a.ids[id]++
	a.mu.Unlock()
	return a.inner.ReadOps(id)
}
func (a *askLSP) WriteOps(id string) (persistence.LogStateWriteOps, error) { return a.inner.WriteOps(id) }

// distRec is a stub distributor: it records the paths it is sent PUTs for and answers 200.
type distRec struct {
	mu   sync.Mutex
	puts map[string]int
}

func (d *distRec) RoundTrip(r *http.Request) (*http.Response, error) {
	if r.Body != nil {
		io.Copy(io.Discard, r.Body)
		r.Body.Close()
	}
	d.mu.Lock()
	d.puts[r.Method+" "+r.URL.Path]++
	d.mu.Unlock()
	return &http.Response{StatusCode: 200, Status: "200 OK", Body: io.NopCloser(strings.NewReader("")), Header: http.Header{}, Request: r}, nil
}

type omniLog struct {
	name   string
	origin string
	id     string
	setSz  func(uint64)
	fork   func()
	outage func(bool) // the log's proof material (tiles, proof endpoint) answers 503 while on; the checkpoint is still served
	verif  note.Verifier
	br     *branch
}

func scenarioOmni(t *traceWriter, rng *rand.Rand) {
	key := genLogKey(rng, "omni-shared-key") // all three logs share one key (and key name) under different origins
	maxLeaves := pick(800, 66000)
	sdb := newStubSumDB(rng, maxLeaves, key, "go.sum database tree")
	sumBr := &branch{name: "sumdb", leaves: sdb.leafH, memoU: map[string][]byte{}, memoR: map[[2]uint64][]byte{}}
	trA := newExplicitBranch("tilesA", maxLeaves, nil, 0)
	trB := newExplicitBranch("tilesB", maxLeaves, nil, 0)
	stA := &stubTiles{br: trA, origin: "omni.example/tiles-a", signer: key.signer}
	stB := &stubTiles{br: trB, origin: "omni.example/tiles-b", signer: key.signer}
	logs := []*omniLog{
		{name: "sumdb", origin: sdb.origin, setSz: func(n uint64) { sdb.mu.Lock(); sdb.size = int64(n); sdb.mu.Unlock() }, verif: key.verif, br: sumBr,
			outage: func(on bool) {
				sdb.mu.Lock()
				sdb.hostile = nil
				if on {
					sdb.hostile = func(path string) (int, []byte, bool) {
						if path == "/latest" {
							return 0, nil, false
						}
						return 503, []byte("tile storage is unavailable"), true
					}
				}
				sdb.mu.Unlock()
			}},
		{name: "tilesA", origin: stA.origin, setSz: func(n uint64) { stA.mu.Lock(); stA.size = n; stA.mu.Unlock() }, verif: key.verif, br: trA},
		{name: "tilesB", origin: stB.origin, setSz: func(n uint64) { stB.mu.Lock(); stB.size = n; stB.mu.Unlock() }, verif: key.verif, br: trB,
			outage: func(on bool) { stB.mu.Lock(); stB.outage = on; stB.mu.Unlock() }},
	}
	// the other three feeder types of the shipped configuration
	trP := newExplicitBranch("pixel", 800, nil, 0)
	trR := newExplicitBranch("rekor", 800, nil, 0)
	trR2 := newExplicitBranch("rekor-old", 800, nil, 0)
	trS := newExplicitBranch("serverless", maxLeaves, nil, 0)
	stP := &stubPixel{stubLogBase{br: trP, origin: "omni.example/pixel", signer: key.signer, mount: "/bt"}}
	stR := &stubRekor{stubLogBase: stubLogBase{br: trR, origin: "rekor.omni.example - 1193050959916656506", signer: key.signer}, treeID: "1193050959916656506"}
	stR2 := &stubRekor{stubLogBase: stubLogBase{br: trR2, origin: "rekor.omni.example - 3904496407287907110", signer: key.signer}, treeID: "3904496407287907110", inactive: true}
	stS := &stubServerless{stubLogBase{br: trS, origin: "omni.example/serverless", signer: key.signer, mount: "/logs/a"}}
	logs = append(logs,
		&omniLog{name: "pixel", origin: stP.origin, setSz: stP.setSize, verif: key.verif, br: trP, outage: stP.setOutage},
		&omniLog{name: "rekor", origin: stR.origin, setSz: stR.setSize, verif: key.verif, br: trR, outage: stR.setOutage},
		&omniLog{name: "rekorShard", origin: stR2.origin, setSz: stR2.setSize, verif: key.verif, br: trR2, outage: stR2.setOutage},
		&omniLog{name: "serverless", origin: stS.origin, setSz: stS.setSize, verif: key.verif, br: trS, outage: stS.setOutage})
	// a fork of tilesA that diverges at leaf 100, and of the sumdb log (other leaves from 150)
	forkA := newExplicitBranch("tilesA-fork", maxLeaves, trA, 100)
	logs[1].fork = func() { stA.mu.Lock(); stA.br = forkA; stA.mu.Unlock() }
	yaml := "Logs:\n"
	urls := []string{"http://sumdb.invalid", "http://tiles-a.invalid/", "http://tiles-b.invalid/", "http://pixel.invalid/bt/", "http://rekor.invalid/?treeID=" + stR.treeID,
		"http://rekor-old.invalid/?treeID=" + stR2.treeID, "http://serverless.invalid/logs/a/"}
	feeders := []string{"sumdb", "tiles", "tiles", "pixel", "rekor", "rekor", "serverless"}
	pushOnlyOrigin := "omni.example/push-only" // a log that is only ever fed through the bastion: Feeder none, not last in the file
	pushOnlyID := f_log.ID(pushOnlyOrigin)
	for i, l := range logs {
		l.id = f_log.ID(l.origin)
		yaml += fmt.Sprintf("  - Origin: %s\n    URL: %s\n    PublicKey: %s\n    Feeder: %s\n", l.origin, urls[i], key.vkey, feeders[i])
		if i == 0 {
			yaml += fmt.Sprintf("  - Origin: %s\n    URL: http://push-only.invalid/\n    PublicKey: %s\n    Feeder: none\n", pushOnlyOrigin, key.vkey)
		}
	}
	saved := omniwitness.ConfigLogs
	omniwitness.ConfigLogs = []byte(yaml)
	defer func() { omniwitness.ConfigLogs = saved }()
	dstub := &distRec{puts: map[string]int{}}
	client := &http.Client{Transport: hostRouter{"sumdb.invalid": sdb, "tiles-a.invalid": stA, "tiles-b.invalid": stB, "dist.invalid": dstub,
		"pixel.invalid": stP, "rekor.invalid": stR, "rekor-old.invalid": stR2, "serverless.invalid": stS}, Timeout: 5 * time.Second}

	wrng := rand.New(rand.NewSource(*flagSeed + 99))
	skey, _, _ := note.GenerateKey(detReader{wrng}, "omniwit")
	legacy, _ := note.NewSigner(skey)
	cosig, _ := f_note.NewSignerForCosignatureV1(skey)
	opc := omniwitness.OperatorConfig{WitnessKeys: []note.Signer{legacy, cosig}, WitnessVerifier: cosig.Verifier(), FeedInterval: 40 * time.Millisecond,
		RestDistributorBaseURL: "http://dist.invalid", DistributeInterval: 100 * time.Millisecond}

	schedQuick := [][]uint64{{3, 200, 255, 256, 257, 600}, {5, 255, 256, 257, 700}, {1, 2, 300, 512, 513},
		{1, 2, 3, 64, 65, 700}, {1, 2, 100, 128, 129}, {7, 8, 15, 16, 500}, {1, 2, 256, 257, 770}}
	schedThorough := [][]uint64{{3, 255, 256, 257, 65535, 65536, 65537}, {5, 255, 256, 257, 65535, 65536}, {1, 300, 65536, 65600},
		{1, 2, 3, 64, 65, 127, 800}, {1, 2, 100, 128, 129, 511, 800}, {7, 8, 15, 16, 500, 799}, {1, 2, 255, 256, 257, 65536, 65793}}
	sched := schedQuick
	if thorough() {
		sched = schedThorough
	}
	scratch := scratchDir()
	defer os.RemoveAll(scratch)
	for _, storeKind := range []string{"mem", "sqlfile"} {
		// storage that survives restarts of the service
		var mem persistence.LogStatePersistence = inmemory.NewPersistence()
		dbPath := filepath.Join(scratch, "omni-"+storeKind+".db")
		stA.mu.Lock()
		stA.br = trA
		stA.mu.Unlock()
		var cancel context.CancelFunc
		var done chan error
		var addr string
		var db *sql.DB
		unanswered := 0
		// exited reports whether omniwitness.Main has already returned (it must keep serving until cancelled)
		exited := func() (bool, string) {
			select {
			case err := <-done:
				done <- err
				return true, fmt.Sprint(err)
			default:
				return false, ""
			}
		}
		asked := &askLSP{ids: map[string]int{}}
		start := func() {
			var p persistence.LogStatePersistence = mem
			if storeKind == "sqlfile" {
				var err error
				db, err = sql.Open("sqlite3", dbPath)
				if err != nil {
					panic(err)
				}
				db.SetMaxOpenConns(productionMaxOpenConns)
				p = psql.NewPersistence(db)
			}
			ln, err := net.Listen("tcp", "127.0.0.1:0")
			if err != nil {
				panic(err)
			}
			addr = ln.Addr().String()
			var ctx context.Context
			ctx, cancel = context.WithCancel(context.Background())
			done = make(chan error, 1)
			asked.inner = p
			go func() { done <- omniwitness.Main(ctx, opc, asked, ln, client) }()
		}
		stop := func() {
			cancel()
			select {
			case <-done:
			case <-time.After(5 * time.Second):
			}
			if db != nil {
				db.Close()
				db = nil
			}
		}
		served := func(l *omniLog) (uint64, string, int) {
			// a wedged store or a service that never came up must not hang the harness: every read has a deadline
			resp, err := (&http.Client{Timeout: 3 * time.Second}).Get("http://" + addr + "/witness/v0/logs/" + l.id + "/checkpoint")
			if err != nil {
				if ne, ok := err.(interface{ Timeout() bool }); ok && ne.Timeout() {
					unanswered++
				}
				return 0, "-", 0
			}
			b, _ := io.ReadAll(resp.Body)
			resp.Body.Close()
			if resp.StatusCode != 200 {
				return 0, "-", 0
			}
			cp, _, nn, err2 := f_log.ParseCheckpoint(b, l.origin, l.verif, cosig.Verifier())
			valid := 0
			if err2 == nil && len(nn.Sigs) == 2 {
				valid = 1
			}
			if cp == nil {
				return 0, "?", valid
			}
			return cp.Size, base64.StdEncoding.EncodeToString(cp.Hash), valid
		}
		steps := len(sched[0])
		for _, s := range sched {
			if len(s) < steps {
				steps = len(s)
			}
		}
		for i, l := range logs {
			l.setSz(sched[i][0])
		}
		start()
		time.Sleep(2 * opc.FeedInterval)
		if ex, msg := exited(); ex {
			t.line("OMX store=%s phase=startup => exited=1 err=%s", storeKind, hx([]byte(msg)))
			stop()
			continue
		}
		for st := 0; st < steps; st++ {
			if unanswered >= 6 {
				t.line("OMX store=%s phase=step%d => exited=0 unanswered=%d err=%s", storeKind, st, unanswered, hx([]byte("GET checkpoint requests time out")))
				break
			}
			for i, l := range logs {
				l.setSz(sched[i][st])
			}
			// the witness must catch up within a bounded number of poll intervals
			deadline := time.Now().Add(200 * opc.FeedInterval) // 8 s: only a service that does not follow runs into it
			if thorough() {
				deadline = time.Now().Add(20 * time.Second)
			}
			reached := make([]bool, len(logs))
			for time.Now().Before(deadline) {
				all := true
				for i, l := range logs {
					sz, _, _ := served(l)
					reached[i] = sz == sched[i][st]
					all = all && reached[i]
				}
				if all {
					break
				}
				time.Sleep(opc.FeedInterval / 2)
			}
			if ex, msg := exited(); ex {
				t.line("OMX store=%s phase=step%d => exited=1 err=%s", storeKind, st, hx([]byte(msg)))
			}
			for i, l := range logs {
				sz, root, valid := served(l)
				want := base64.StdEncoding.EncodeToString(l.br.root(sched[i][st]))
				t.line("OM store=%s step=%d log=%s want=%d wantroot=%s => served=%d root=%s valid=%d", storeKind, st, l.name, sched[i][st], hx([]byte(want)), sz, hx([]byte(root)), valid)
			}
			// restart the service between steps, on the same storage
			stop()
			start()
			time.Sleep(2 * opc.FeedInterval)
			for i, l := range logs {
				sz, root, valid := served(l)
				want := base64.StdEncoding.EncodeToString(l.br.root(sched[i][st]))
				t.line("OM store=%s step=%d.restart log=%s want=%d wantroot=%s => served=%d root=%s valid=%d", storeKind, st, l.name, sched[i][st], hx([]byte(want)), sz, hx([]byte(root)), valid)
			}
		}
		// the distributor is handed every configured log, whatever its feeder type: it asks the witness about each of them
		// (the push-only log is asked about by nobody else), and pushes the three that have a checkpoint
		time.Sleep(3 * opc.DistributeInterval)
		asked.mu.Lock()
		pa := asked.ids[pushOnlyID]
		asked.mu.Unlock()
		dstub.mu.Lock()
		np := 0
		for _, l := range logs {
			for path := range dstub.puts {
				if strings.Contains(path, l.id) {
					np++
					break
				}
			}
		}
		dstub.mu.Unlock()
		t.line("OMD store=%s pushonly_asked=%d fed_logs_pushed=%d of=%d", storeKind, b2i(pa > 0), np, len(logs))
		// roll-back: a log (each feeder type in turn) presents a validly signed checkpoint SMALLER than the witnessed one for a
		// few polls, then comes back and grows: the service must neither stop nor move, and must follow again afterwards
		for i, rl := range logs {
			if i == 1 {
				continue // tilesA is forked below
			}
			last := sched[i][steps-1]
			if last < 3 {
				continue
			}
			wsz, wroot, _ := served(rl)
			rl.setSz(last / 2)
			time.Sleep(8 * opc.FeedInterval)
			sz, root, valid := served(rl)
			t.line("OMF store=%s phase=rollback log=%s witnessed=%d:%s => served=%d:%s valid=%d", storeKind, rl.name, wsz, hx([]byte(wroot)), sz, hx([]byte(root)), valid)
			if ex, msg := exited(); ex {
				t.line("OMX store=%s phase=rollback-%s => exited=1 err=%s", storeKind, rl.name, hx([]byte(msg)))
				break
			}
			rl.setSz(last)
		}
		if ex, _ := exited(); !ex {
			// every log is back at its last size plus a little: all are followed again
			grown := make([]uint64, len(logs))
			for i, rl := range logs {
				grown[i] = sched[i][steps-1]
				if i != 1 && grown[i]+3 <= rl.br.size() {
					grown[i] += 3
				}
				rl.setSz(grown[i])
			}
			deadline := time.Now().Add(200 * opc.FeedInterval)
			for time.Now().Before(deadline) {
				all := true
				for i, rl := range logs {
					sz, _, _ := served(rl)
					all = all && sz == grown[i]
				}
				if all {
					break
				}
				time.Sleep(opc.FeedInterval / 2)
			}
			for i, rl := range logs {
				sz, root, valid := served(rl)
				want := base64.StdEncoding.EncodeToString(rl.br.root(grown[i]))
				t.line("OM store=%s step=after-rollback log=%s want=%d wantroot=%s => served=%d root=%s valid=%d", storeKind, rl.name, grown[i], hx([]byte(want)), sz, hx([]byte(root)), valid)
			}
			for i := range logs {
				sched[i][steps-1] = grown[i] // the fork phase below starts from here
			}
		}
		// outage: every log grows while its proof material answers 503 for several poll intervals (each feed cycle then
		// uses up its whole deadline), then recovers: the service keeps serving what it had and follows again afterwards
		if ex, _ := exited(); !ex {
			target := make([]uint64, len(logs))
			for i, rl := range logs {
				target[i] = sched[i][steps-1]
				if rl.outage != nil && target[i]+2 <= rl.br.size() && target[i] > 0 {
					target[i] += 2
					rl.outage(true)
					rl.setSz(target[i])
				}
			}
			time.Sleep(6 * opc.FeedInterval)
			for _, rl := range logs {
				if rl.outage != nil {
					rl.outage(false)
				}
			}
			deadline := time.Now().Add(200 * opc.FeedInterval)
			for time.Now().Before(deadline) {
				all := true
				for i, rl := range logs {
					sz, _, _ := served(rl)
					all = all && sz == target[i]
				}
				if all {
					break
				}
				time.Sleep(opc.FeedInterval / 2)
			}
			for i, rl := range logs {
				sz, root, valid := served(rl)
				want := base64.StdEncoding.EncodeToString(rl.br.root(target[i]))
				t.line("OM store=%s step=after-outage log=%s want=%d wantroot=%s => served=%d root=%s valid=%d", storeKind, rl.name, target[i], hx([]byte(want)), sz, hx([]byte(root)), valid)
			}
			if ex, msg := exited(); ex {
				t.line("OMX store=%s phase=outage => exited=1 err=%s", storeKind, hx([]byte(msg)))
			}
			for i := range logs {
				sched[i][steps-1] = target[i]
			}
		}
		// fork: tilesA starts serving a history that is not an extension of what was witnessed; with a restart in between
		l := logs[1]
		wsz, wroot, _ := served(l)
		l.fork()
		l.setSz(sched[1][steps-1] + 50)
		time.Sleep(12 * opc.FeedInterval)
		sz, root, valid := served(l)
		t.line("OMF store=%s phase=fork log=%s witnessed=%d:%s => served=%d:%s valid=%d", storeKind, l.name, wsz, hx([]byte(wroot)), sz, hx([]byte(root)), valid)
		// a log that answers with something the witness refuses keeps its feeder busy until the cycle's deadline: the
		// service must outlive that (nothing a log serves may make omniwitness.Main return)
		if ex, msg := exited(); ex {
			t.line("OMX store=%s phase=fork => exited=1 err=%s", storeKind, hx([]byte(msg)))
		}
		stop()
		start()
		time.Sleep(12 * opc.FeedInterval)
		sz, root, valid = served(l)
		t.line("OMF store=%s phase=fork-restart log=%s witnessed=%d:%s => served=%d:%s valid=%d", storeKind, l.name, wsz, hx([]byte(wroot)), sz, hx([]byte(root)), valid)
		stop()
		// requests the stub log servers could not make sense of (malformed tile paths, paths beside the log's root)
		for name, b := range map[string]*stubLogBase{"pixel": &stP.stubLogBase, "rekor": &stR.stubLogBase, "rekorShard": &stR2.stubLogBase, "serverless": &stS.stubLogBase} {
			b.mu.Lock()
			first := ""
			if len(b.bad) > 0 {
				first = b.bad[0]
			}
			t.line("OMR store=%s log=%s requests=%d malformed=%d first=%s", storeKind, name, b.reqs, len(b.bad), hx([]byte(first)))
			b.bad, b.reqs = nil, 0
			b.mu.Unlock()
		}
	}
}
