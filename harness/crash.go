package main

import (
	"database/sql"
	"flag"
	"fmt"
	"math/rand"
	"os"
	"os/exec"
	"path/filepath"
	"sort"
	"strings"

	f_log "github.com/transparency-dev/formats/log"
	"github.com/transparency-dev/merkle/rfc6962"
	"github.com/transparency-dev/witness/internal/persistence/inmemory"
	"github.com/transparency-dev/witness/internal/witness"
	"golang.org/x/mod/sumdb/note"
	"google.golang.org/grpc/codes"
	"google.golang.org/grpc/status"
)

var (
	flagDB   = flag.String("db", "", "crash child: database file")
	flagMode = flag.String("mode", "", "crash child: setup|run|read")
	flagKind = flag.String("kind", "", "crash child: firstUse|growth|refresh|twoLogs")
	flagKill = flag.Int("kill", 0, "crash child: SIGKILL self at this driver event (0 = never)")
)

func init() {
	scenarios["crash"] = scenarioCrash
	scenarios["crashchild"] = scenarioCrashChild
}

// crashWorld is rebuilt identically in the parent and in every child from the seed.
type crashWorld struct {
	key    logKey
	wk     []witKey
	tr     *branch
	origin string
	origB  string
}

func newCrashWorld(seed int64) *crashWorld {
	rng := rand.New(rand.NewSource(seed*7919 + 13))
	return &crashWorld{key: genLogKey(rng, "crash-log"), wk: []witKey{genWitKey(rng, "crashwit", "ed25519"), genWitKey(rng, "crashwit", "cosigv1")},
		tr: newExplicitBranch("trunk", 12, nil, 0), origin: "crash.example/a", origB: "crash.example/b"}
}

func (c *crashWorld) witness(dbPath string) *witness.Witness {
	_, p := openSQL(dbPath)
	known := map[string]witness.LogInfo{}
	for _, o := range []string{c.origin, c.origB} {
		known[f_log.ID(o)] = witness.LogInfo{SigV: c.key.verif, Origin: o, Hasher: rfc6962.DefaultHasher}
	}
	var signers []note.Signer
	for _, k := range c.wk {
		signers = append(signers, k.signer)
	}
	w, err := witness.New(witness.Opts{Persistence: p, Signers: signers, KnownLogs: known})
	if err != nil {
		panic(err)
	}
	return w
}

// request of a history kind: (setup size or -1, old, size)
func crashKind(kind string) (int, uint64, uint64) {
	switch kind {
	case "firstUse":
		return -1, 0, 4
	case "growth":
		return 3, 3, 7
	case "refresh":
		return 5, 5, 5
	case "growthAfterRefusal": // the serving process has refused an update for this log before the one under test
		return 3, 3, 7
	case "legacyStore": // the store was written in the released on-disk format (raw SQL), not by the code under test
		return 3, 3, 7
	case "zeroFirst": // the size-0 placeholder: first use
		return -1, 0, 0
	case "zeroRefresh": // and a refresh of it (Update's own branch)
		return 0, 0, 0
	case "growthAfterGrowth": // the serving process has ACCEPTED an update for this log just before (3 -> 5), then 5 -> 8
		return 3, 5, 8
	}
	return 3, 3, 7
}

func scenarioCrashChild(t *traceWriter, rng *rand.Rand) {
	c := newCrashWorld(*flagSeed)
	id := f_log.ID(c.origin)
	idB := f_log.ID(c.origB)
	baseKind, faultOp, _ := strings.Cut(*flagKind, "!")
	setup, old, size := crashKind(baseKind)
	switch *flagMode {
	case "setup":
		if baseKind == "legacyStore" {
			// cosigned checkpoints made by a witness on a throw-away in-memory store, then written to the database file
			// the way the released code writes them: table chkpts(logID BLOB PRIMARY KEY, chkpt BLOB, range BLOB), the
			// log ID bound as a string, the checkpoint as bytes
			known := map[string]witness.LogInfo{}
			for _, o := range []string{c.origin, c.origB} {
				known[f_log.ID(o)] = witness.LogInfo{SigV: c.key.verif, Origin: o, Hasher: rfc6962.DefaultHasher}
			}
			var signers []note.Signer
			for _, k := range c.wk {
				signers = append(signers, k.signer)
			}
			mw, err := witness.New(witness.Opts{Persistence: inmemory.NewPersistence(), Signers: signers, KnownLogs: known})
			if err != nil {
				panic(err)
			}
			a, err := mw.Update(bgctx, id, 0, signNote(cpText(c.origin, uint64(setup), c.tr.root(uint64(setup))), c.key.signer), nil)
			if err != nil {
				panic(err)
			}
			b, err := mw.Update(bgctx, idB, 0, signNote(cpText(c.origB, 2, c.tr.root(2)), c.key.signer), nil)
			if err != nil {
				panic(err)
			}
			db, err := sql.Open("sqlite3", *flagDB)
			if err != nil {
				panic(err)
			}
			if _, err := db.Exec("CREATE TABLE IF NOT EXISTS chkpts (\n\t\tlogID BLOB PRIMARY KEY,\n\t\tchkpt BLOB,\n\t\trange BLOB\n\t\t)"); err != nil {
				panic(err)
			}
			for _, kv := range []struct {
				id string
				cp []byte
			}{{id, a}, {idB, b}} {
				if _, err := db.Exec("INSERT OR REPLACE INTO chkpts (logID, chkpt) VALUES (?, ?)", kv.id, kv.cp); err != nil {
					panic(err)
				}
			}
			db.Close()
			fmt.Printf("LEGACY %s\n", hx(a))
			fmt.Println("SETUP-DONE")
			return
		}
		w := c.witness(*flagDB)
		// the other log always holds something
		if _, err := w.Update(bgctx, idB, 0, signNote(cpText(c.origB, 2, c.tr.root(2)), c.key.signer), nil); err != nil {
			panic(err)
		}
		if setup >= 0 {
			if _, err := w.Update(bgctx, id, 0, signNote(cpText(c.origin, uint64(setup), c.tr.root(uint64(setup))), c.key.signer), nil); err != nil {
				panic(err)
			}
		}
		fmt.Println("SETUP-DONE")
	case "run":
		w := c.witness(*flagDB)
		if baseKind == "growthAfterRefusal" {
			// refused after the stored checkpoint was consulted (stale old size, then a root mismatch); what a refusal
			// leaves behind in the connection must not change what the next accepted update commits
			_, _ = w.Update(bgctx, id, 1, signNote(cpText(c.origin, 6, c.tr.root(6)), c.key.signer), c.tr.consistency(1, 6))
			_, _ = w.Update(bgctx, id, 3, signNote(cpText(c.origin, 3, c.tr.root(4)), c.key.signer), [][]byte{})
		}
		if baseKind == "growthAfterGrowth" {
			// accepted by the same process, over the same connection: what it leaves behind must not weaken the next one
			if _, err := w.Update(bgctx, id, 3, signNote(cpText(c.origin, 5, c.tr.root(5)), c.key.signer), c.tr.consistency(3, 5)); err != nil {
				panic(err)
			}
			if b, err := w.GetCheckpoint(id); err == nil {
				fmt.Printf("MID %s\n", hx(b))
			}
		}
		drvCtl.take()
		drvCtl.mu.Lock()
		drvCtl.count = 0
		drvCtl.kill = *flagKill
		drvCtl.mu.Unlock()
		if faultOp != "" {
			drvCtl.setFaults([]string{faultOp})
		}
		pr := [][]byte{}
		if old > 0 && old < size {
			pr = c.tr.consistency(old, size)
		}
		ret, err := w.Update(bgctx, id, old, signNote(cpText(c.origin, size, c.tr.root(size)), c.key.signer), pr)
		// the acknowledgement: written (and flushed) before anything else happens
		fmt.Printf("ACK err=%v ret=%s\n", err != nil, hx(ret))
		os.Stdout.Sync()
		if faultOp != "" {
			killSelf() // a storage fault during the update, the acknowledgement (if any) is out, then the process dies
		}
		drvCtl.mu.Lock()
		n := drvCtl.count
		drvCtl.kill = 0
		drvCtl.mu.Unlock()
		fmt.Printf("EVENTS %d %s\n", n, drvCtl.take())
	case "read":
		w := c.witness(*flagDB)
		for _, lid := range []string{id, idB} {
			b, err := w.GetCheckpoint(lid)
			st := "!"
			opens := 0
			if err == nil {
				st = hx(b)
				vs := []note.Verifier{c.key.verif}
				for _, k := range c.wk {
					vs = append(vs, k.ind)
				}
				if n, err := note.Open(b, note.VerifierList(vs...)); err == nil && len(n.Sigs) == 1+len(c.wk) {
					opens = 1
				}
			} else if status.Code(err) == codes.NotFound {
				st = "-"
			}
			fmt.Printf("STATE %s %s %d\n", lid, st, opens)
		}
		ls, err := w.GetLogs()
		sort.Strings(ls)
		fmt.Printf("LOGS %v %s\n", err != nil, strings.Join(ls, ","))
	}
}

func runChild(dbPath, mode, kind string, kill int) string {
	cmd := exec.Command(os.Args[0], "-scenario", "crashchild", "-out", os.DevNull, "-seed", fmt.Sprint(*flagSeed), "-db", dbPath, "-mode", mode, "-kind", kind, "-kill", fmt.Sprint(kill))
	out, _ := cmd.CombinedOutput()
	return string(out)
}

func grab(out, prefix string) []string {
	var r []string
	for _, l := range strings.Split(out, "\n") {
		if strings.HasPrefix(l, prefix) {
			r = append(r, strings.TrimSpace(strings.TrimPrefix(l, prefix)))
		}
	}
	return r
}

func scenarioCrash(t *traceWriter, rng *rand.Rand) {
	c := newCrashWorld(*flagSeed)
	id := f_log.ID(c.origin)
	scratch := scratchDir()
	defer os.RemoveAll(scratch)
	n := 0
	for _, kind := range []string{"firstUse", "growth", "refresh", "growthAfterRefusal", "legacyStore", "zeroFirst", "zeroRefresh", "growthAfterGrowth"} {
		// dry run: how many driver events does this update have
		db := filepath.Join(scratch, fmt.Sprintf("dry-%s.db", kind))
		runChild(db, "setup", kind, 0)
		dry := runChild(db, "run", kind, 0)
		ev := grab(dry, "EVENTS ")
		total := 0
		ops := ""
		if len(ev) == 1 {
			fmt.Sscanf(ev[0], "%d %s", &total, &ops)
		}
		_, old, size := crashKind(kind)
		submitted := cpText(c.origin, size, c.tr.root(size))
		for k := 1; k <= total+1; k++ {
			n++
			db := filepath.Join(scratch, fmt.Sprintf("c%d.db", n))
			setupOut := runChild(db, "setup", kind, 0)
			legacy := "-"
			if lg := grab(setupOut, "LEGACY "); len(lg) == 1 {
				legacy = lg[0]
			}
			before := runChild(db, "read", kind, 0)
			run := runChild(db, "run", kind, k)
			after := runChild(db, "read", kind, 0)
			acked := 0
			if a := grab(run, "ACK "); len(a) == 1 && strings.HasPrefix(a[0], "err=false") {
				acked = 1
			}
			killed := 1
			if len(grab(run, "EVENTS ")) == 1 {
				killed = 0
			}
			before = midState(before, run, id)
			t.line("CR kind=%s killat=%d total=%d ops=%s old=%d acked=%d killed=%d log=%s submitted=%s legacy=%s before=%s => after=%s",
				kind, k, total, ops, old, acked, killed, hx([]byte(id)), hx([]byte(submitted)), legacy,
				strings.ReplaceAll(strings.Join(append(grab(before, "STATE "), grab(before, "LOGS ")...), ";"), " ", ":"),
				strings.ReplaceAll(strings.Join(append(grab(after, "STATE "), grab(after, "LOGS ")...), ";"), " ", ":"))
			os.Remove(db)
		}
		// a storage fault in the update, then the kill: whatever was acknowledged must still be in force after the
		// restart (a failed COMMIT / INSERT must not have been reported as success)
		for _, fop := range []string{"commit", "exec", "begin", "query"} {
			n++
			db := filepath.Join(scratch, fmt.Sprintf("c%d.db", n))
			runChild(db, "setup", kind, 0)
			before := runChild(db, "read", kind, 0)
			run := runChild(db, "run", kind+"!"+fop, 0)
			after := runChild(db, "read", kind, 0)
			before = midState(before, run, id)
			acked := 0
			if a := grab(run, "ACK "); len(a) == 1 && strings.HasPrefix(a[0], "err=false") {
				acked = 1
			}
			t.line("CR kind=%s killat=%d total=%d ops=%s old=%d acked=%d killed=1 log=%s submitted=%s before=%s fault=%s => after=%s",
				kind, total+1, total, ops, old, acked, hx([]byte(id)), hx([]byte(submitted)),
				strings.ReplaceAll(strings.Join(append(grab(before, "STATE "), grab(before, "LOGS ")...), ";"), " ", ":"), fop,
				strings.ReplaceAll(strings.Join(append(grab(after, "STATE "), grab(after, "LOGS ")...), ";"), " ", ":"))
			os.Remove(db)
		}
	}
}

// midState: when the child committed an update of its own before the one under test (MID line), the state the update
// under test started from is that one.
func midState(before, run, id string) string {
	if mid := grab(run, "MID "); len(mid) == 1 {
		return strings.Replace(before, "STATE "+id+" "+firstField(grabState(before, id)), "STATE "+id+" "+mid[0], 1)
	}
	return before
}

// grabState: the "<hex> <opens>" part of the STATE line of a log in a child's read output.
func grabState(out, id string) string {
	for _, l := range grab(out, "STATE ") {
		if strings.HasPrefix(l, id+" ") {
			return strings.TrimPrefix(l, id+" ")
		}
	}
	return ""
}

func firstField(s string) string {
	if i := strings.IndexByte(s, ' '); i >= 0 {
		return s[:i]
	}
	return s
}
