package main

// Stub log servers for the three remaining feeder types of the shipped configuration (pixel, rekor, serverless),
// so that the assembled omniwitness is followed through every kind of feeder it can be configured with.  Each
// serves the first `size` leaves of a branch in the format its feeder reads; none of them uses code of the
// repository under test.

import (
	"bytes"
	"encoding/base64"
	"encoding/hex"
	"encoding/json"
	"fmt"
	"io"
	"net/http"
	"strconv"
	"strings"
	"sync"

	"golang.org/x/mod/sumdb/note"
)

type stubLogBase struct {
	mu     sync.Mutex
	br     *branch
	size   uint64
	origin string
	signer note.Signer
	reqs   int
	bad    []string // requests the stub did not understand
	mount  string   // path of the log's root on its host ("" = the host's root)
	outage bool     // everything but the checkpoint / log info answers 503
}

func (s *stubLogBase) setOutage(on bool) { s.mu.Lock(); s.outage = on; s.mu.Unlock() }

// below strips the log's root from a request path; ok=false when the request is beside the root.
func (s *stubLogBase) below(p string) (string, bool) {
	if !strings.HasPrefix(p, s.mount+"/") {
		s.bad = append(s.bad, "OUTSIDE-ROOT:"+p)
		return "", false
	}
	return strings.TrimPrefix(p, s.mount+"/"), true
}

func (s *stubLogBase) setSize(n uint64) { s.mu.Lock(); s.size = n; s.mu.Unlock() }

func mkResp(r *http.Request, code int, body []byte) (*http.Response, error) {
	return &http.Response{StatusCode: code, Status: fmt.Sprintf("%d", code), Body: io.NopCloser(bytes.NewReader(body)), Header: http.Header{}, Request: r}, nil
}

// ---------------------------------------------------------------- Pixel binary transparency: tlog tiles of height 1

type stubPixel struct{ stubLogBase }

func (s *stubPixel) RoundTrip(r *http.Request) (*http.Response, error) {
	s.mu.Lock()
	defer s.mu.Unlock()
	s.reqs++
	p, ok := s.below(r.URL.Path)
	if !ok {
		return mkResp(r, 404, nil)
	}
	if p == "checkpoint.txt" {
		return mkResp(r, 200, signNote(cpText(s.origin, s.size, s.br.root(s.size)), s.signer))
	}
	if s.outage {
		return mkResp(r, 503, []byte("tile storage is unavailable"))
	}
	// tile/<H>/<L>/<NNN>[.p/<W>]
	parts := strings.Split(p, "/")
	if len(parts) < 4 || parts[0] != "tile" || parts[1] != "1" {
		s.bad = append(s.bad, p)
		return mkResp(r, 404, nil)
	}
	level, err1 := strconv.Atoi(parts[2])
	width := 2
	nstr := parts[3]
	if strings.HasSuffix(nstr, ".p") && len(parts) == 5 {
		nstr = strings.TrimSuffix(nstr, ".p")
		w, err := strconv.Atoi(parts[4])
		if err != nil || w != 1 || parts[4] != "1" {
			s.bad = append(s.bad, p)
			return mkResp(r, 404, nil)
		}
		width = w
	} else if len(parts) != 4 {
		s.bad = append(s.bad, p)
		return mkResp(r, 404, nil)
	}
	n, err2 := strconv.ParseUint(nstr, 10, 64)
	if err1 != nil || err2 != nil || level < 0 || level > 62 || nstr != fmt.Sprintf("%03d", n) || parts[2] != strconv.Itoa(level) {
		s.bad = append(s.bad, p)
		return mkResp(r, 404, nil)
	}
	span := uint64(1) << uint(level)
	if (2*n+uint64(width))*span > s.size {
		return mkResp(r, 404, nil) // the tree does not (yet) contain this tile at this width
	}
	var body []byte
	for i := uint64(0); i < uint64(width); i++ {
		lo := (2*n + i) * span
		body = append(body, s.br.rangeRoot(lo, lo+span)...)
	}
	return mkResp(r, 200, body)
}

// ---------------------------------------------------------------- Rekor: JSON log info and consistency proofs

type stubRekor struct {
	stubLogBase
	treeID   string
	inactive bool // serve the tree as an inactive shard, beside an unrelated active one
}

func (s *stubRekor) RoundTrip(r *http.Request) (*http.Response, error) {
	s.mu.Lock()
	defer s.mu.Unlock()
	s.reqs++
	p, ok := s.below(r.URL.Path)
	if !ok {
		return mkResp(r, 404, nil)
	}
	switch p {
	case "api/v1/log":
		sth := string(signNote(cpText(s.origin, s.size, s.br.root(s.size), "Timestamp: 1700000000000000000"), s.signer))
		type shard struct {
			SignedTreeHead string `json:"signedTreeHead"`
			RootHash       string `json:"rootHash"`
			TreeID         string `json:"treeID"`
			TreeSize       int64  `json:"treeSize"`
		}
		mine := shard{sth, hex.EncodeToString(s.br.root(s.size)), s.treeID, int64(s.size)}
		var out interface{}
		if s.inactive {
			out = map[string]interface{}{"signedTreeHead": "another shard\n1\nAAAA\n\n— x AAAA\n", "rootHash": "00", "treeID": "999" + s.treeID, "treeSize": 1,
				"inactiveShards": []shard{{"yet another\n", "00", "777", 3}, mine}}
		} else {
			out = map[string]interface{}{"signedTreeHead": mine.SignedTreeHead, "rootHash": mine.RootHash, "treeID": mine.TreeID, "treeSize": mine.TreeSize,
				"inactiveShards": []shard{{"yet another\n", "00", "777", 3}}}
		}
		b, _ := json.Marshal(out)
		return mkResp(r, 200, b)
	case "api/v1/log/proof":
		if s.outage {
			return mkResp(r, 503, []byte(`{"code":503,"message":"proof service unavailable"}`))
		}
		q := r.URL.Query()
		first, err1 := strconv.ParseUint(q.Get("firstSize"), 10, 64)
		last, err2 := strconv.ParseUint(q.Get("lastSize"), 10, 64)
		if err1 != nil || err2 != nil || q.Get("treeID") != s.treeID || first == 0 || first > last || last > s.size {
			s.bad = append(s.bad, r.URL.RequestURI())
			return mkResp(r, 400, []byte(`{"code":400,"message":"bad proof request"}`))
		}
		hashes := []string{}
		if first < last {
			for _, h := range s.br.consistency(first, last) {
				hashes = append(hashes, hex.EncodeToString(h))
			}
		}
		b, _ := json.Marshal(map[string]interface{}{"rootHash": hex.EncodeToString(s.br.root(last)), "hashes": hashes})
		return mkResp(r, 200, b)
	}
	s.bad = append(s.bad, p)
	return mkResp(r, 404, nil)
}

// ---------------------------------------------------------------- serverless log: text tiles of 256 leaves, in-order node layout

type stubServerless struct{ stubLogBase }

func (s *stubServerless) RoundTrip(r *http.Request) (*http.Response, error) {
	s.mu.Lock()
	defer s.mu.Unlock()
	s.reqs++
	p, ok := s.below(r.URL.Path)
	if !ok {
		return mkResp(r, 404, nil)
	}
	if p == "checkpoint" {
		return mkResp(r, 200, signNote(cpText(s.origin, s.size, s.br.root(s.size)), s.signer))
	}
	if s.outage {
		return mkResp(r, 503, []byte("tile storage is unavailable"))
	}
	// tile/<LL>/<IIII>/<II>/<II>/<II>[.<SS>]   (all hexadecimal)
	parts := strings.Split(p, "/")
	if len(parts) != 6 || parts[0] != "tile" {
		s.bad = append(s.bad, p)
		return mkResp(r, 404, nil)
	}
	level, err := strconv.ParseUint(parts[1], 16, 8)
	last, partial := parts[5], uint64(0)
	if i := strings.IndexByte(last, '.'); i >= 0 {
		var e error
		partial, e = strconv.ParseUint(last[i+1:], 16, 16)
		if e != nil || partial == 0 || partial > 255 {
			s.bad = append(s.bad, p)
			return mkResp(r, 404, nil)
		}
		last = last[:i]
	}
	idx := uint64(0)
	for _, g := range []string{parts[2], parts[3], parts[4], last} {
		v, e := strconv.ParseUint(g, 16, 32)
		if e != nil {
			err = e
		}
		shift := uint(8)
		if g == parts[2] {
			shift = 0
		}
		idx = idx<<shift | v
	}
	canon := fmt.Sprintf("tile/%02x/%04x/%02x/%02x/%02x", level, idx>>24, (idx>>16)&0xff, (idx>>8)&0xff, idx&0xff)
	if partial != 0 {
		canon += fmt.Sprintf(".%02x", partial)
	}
	if err != nil || level > 7 || p != canon {
		s.bad = append(s.bad, p)
		return mkResp(r, 404, nil)
	}
	span := uint64(1) << (8 * uint(level)) // log leaves below one leaf of this tile
	n := uint64(256)
	if partial != 0 {
		n = partial
	}
	if (idx*256+n)*span > s.size {
		return mkResp(r, 404, nil)
	}
	nodes := make([][]byte, 2*n-1)
	for l := uint(0); l <= 8; l++ {
		for i := uint64(0); (i+1)<<l <= n; i++ {
			key := (uint64(1)<<(l+1))*i + (uint64(1) << l) - 1
			lo := (idx*256 + i<<l) * span
			hi := (idx*256 + (i+1)<<l) * span
			nodes[key] = s.br.rangeRoot(lo, hi)
		}
	}
	b := &bytes.Buffer{}
	fmt.Fprintf(b, "32\n%d\n", n)
	for _, h := range nodes {
		fmt.Fprintf(b, "%s\n", base64.StdEncoding.EncodeToString(h))
	}
	return mkResp(r, 200, b.Bytes())
}
