package main

import (
	"bytes"
	"context"
	"encoding/base64"
	"fmt"
	"io"
	"math/rand"
	"net/http"
	"os"
	"sort"
	"strings"
	"sync"
	"time"

	"github.com/transparency-dev/witness/internal/client"
	"github.com/transparency-dev/witness/internal/config"
	sumdbfeeder "github.com/transparency-dev/witness/internal/feeder/sumdb"
	"golang.org/x/mod/sumdb/note"
	"golang.org/x/mod/sumdb/tlog"
)

func init() { scenarios["tiles"] = scenarioTiles }

// stubSumDB serves /latest and /tile/8/... for a tree of n leaves out of a fixed leaf sequence, using the
// reference tlog functions for the server side; it records every requested path.
type stubSumDB struct {
	mount   string // path below which the log is served ("" = the host's root)
	mu      sync.Mutex
	hashes  []tlog.Hash // stored hashes for the full sequence
	leafH   [][]byte    // RFC 6962 leaf hashes
	size    int64
	signer  note.Signer
	origin  string
	reqs    []string
	redirectLatest bool // /latest answers 302 to another path
	hostile func(path string) (int, []byte, bool)
}

func (s *stubSumDB) ReadHashes(indexes []int64) ([]tlog.Hash, error) {
	out := make([]tlog.Hash, len(indexes))
	for i, x := range indexes {
		if x >= int64(len(s.hashes)) {
			return nil, fmt.Errorf("hash index %d out of range", x)
		}
		out[i] = s.hashes[x]
	}
	return out, nil
}

func newStubSumDB(rng *rand.Rand, maxLeaves int, key logKey, origin string) *stubSumDB {
	s := &stubSumDB{signer: key.signer, origin: origin}
	for i := 0; i < maxLeaves; i++ {
		data := []byte(fmt.Sprintf("leaf %d of %s", i, origin))
		if i == 0 {
			// the very first byte of tile/8/0/000 (the record hash of leaf 0) is '<': binary tile data may start with any byte
			for k := 0; ; k++ {
				data = []byte(fmt.Sprintf("leaf 0 of %s (nonce %d)", origin, k))
				if h := tlog.RecordHash(data); h[0] == '<' {
					break
				}
			}
		}
		hs, err := tlog.StoredHashes(int64(i), data, s)
		if err != nil {
			panic(err)
		}
		s.hashes = append(s.hashes, hs...)
		s.leafH = append(s.leafH, leafHash(data))
	}
	return s
}

func (s *stubSumDB) treeHash(n int64) tlog.Hash {
	if n == 0 {
		var h tlog.Hash
		copy(h[:], emptyRoot())
		return h
	}
	h, err := tlog.TreeHash(n, s)
	if err != nil {
		panic(err)
	}
	return h
}

func (s *stubSumDB) latest() []byte {
	h := s.treeHash(s.size)
	text := fmt.Sprintf("%s\n%d\n%s\n", s.origin, s.size, base64.StdEncoding.EncodeToString(h[:]))
	return signNote(text, s.signer)
}

func (s *stubSumDB) RoundTrip(r *http.Request) (*http.Response, error) {
	s.mu.Lock()
	defer s.mu.Unlock()
	p := r.URL.Path
	// the log may be mounted below a path of its host (a module proxy serves sum.golang.org under /sumdb/<name>):
	// everything is then requested below that root, nothing beside it
	if s.mount != "" {
		if !strings.HasPrefix(p, s.mount+"/") {
			s.reqs = append(s.reqs, "OUTSIDE-ROOT:"+p)
			return &http.Response{StatusCode: 404, Status: "404", Body: io.NopCloser(strings.NewReader("not below the log's root")), Header: http.Header{}, Request: r}, nil
		}
		p = strings.TrimPrefix(p, s.mount)
	}
	s.reqs = append(s.reqs, p)
	mk := func(code int, body []byte) (*http.Response, error) {
		return &http.Response{StatusCode: code, Status: fmt.Sprintf("%d", code), Body: io.NopCloser(bytes.NewReader(body)), Header: http.Header{}, Request: r}, nil
	}
	if s.hostile != nil {
		if code, body, ok := s.hostile(p); ok {
			return mk(code, body)
		}
	}
	if p == "/latest" && s.redirectLatest {
		// the front end sends the client elsewhere for the checkpoint (temporarily): tiles stay where they are
		resp, _ := mk(302, nil)
		resp.Header.Set("Location", s.mount+"/checkpoints/current?src=latest")
		return resp, nil
	}
	if p == "/latest" || (p == "/checkpoints/current" && s.redirectLatest) {
		return mk(200, s.latest())
	}
	t, err := tlog.ParseTilePath(strings.TrimPrefix(p, "/"))
	if err != nil {
		return mk(404, []byte("bad tile path"))
	}
	// a tile exists only if the tree of the current size contains it with at least that width
	maxW := int64(s.size>>(uint(t.L)*8)) - t.N*256
	if maxW > 256 {
		maxW = 256
	}
	if int64(t.W) > maxW || t.W <= 0 {
		return mk(404, []byte("no such tile"))
	}
	data, err := tlog.ReadTileData(t, s)
	if err != nil {
		return mk(404, []byte(err.Error()))
	}
	return mk(200, data)
}

// refTileReader: the reference way of reading tiles (Tile.Path), used to learn which paths a proof needs.
type refTileReader struct {
	s     *stubSumDB
	paths map[string]bool
}

func (r refTileReader) Height() int { return 8 }
func (r refTileReader) ReadTiles(tiles []tlog.Tile) ([][]byte, error) {
	var out [][]byte
	for _, t := range tiles {
		r.paths["/"+t.Path()] = true
		d, err := tlog.ReadTileData(t, r.s)
		if err != nil {
			return nil, err
		}
		out = append(out, d)
	}
	return out, nil
}
func (r refTileReader) SaveTiles([]tlog.Tile, [][]byte) {}

func scenarioTiles(t *traceWriter, rng *rand.Rand) {
	// (a) the path function alone, against tlog.Tile.Path, at every carry boundary
	c := client.NewSumDB(8, genLogKey(rng, "tp").verif, "", nil)
	offsets := []int{0, 1, 9, 10, 99, 100, 255, 256, 998, 999, 1000, 1001, 1999, 2000, 999999, 1000000, 1000001, 1000999, 1001000, 999999999, 1000000000, 1000000999, 1001001001}
	for i := 0; i < pick(300, 20000); i++ {
		offsets = append(offsets, rng.Intn(1100000000))
		k := []int{1000, 1000000, 1000000000}[rng.Intn(3)]
		offsets = append(offsets, k*(1+rng.Intn(3))+rng.Intn(3)-1)
	}
	for _, o := range offsets {
		ref := tlog.Tile{H: 8, L: 0, N: int64(o), W: 256}.Path()
		ref = strings.TrimPrefix(ref, "tile/8/0/")
		t.line("TP %d ref=%s => %s", o, hx([]byte(ref)), hx([]byte(c.VerifTilePath(o))))
	}
	// (b) the feeder end to end against a stub SumDB: requested paths and the proof it submits
	key := genLogKey(rng, "sum.example")
	origin := "go.sum database tree" // tlog.ParseTree insists on this first line
	maxLeaves := pick(720, 1300)
	sdb := newStubSumDB(rng, maxLeaves, key, origin)
	tr := &branch{name: "sumdb", leaves: sdb.leafH, memoU: map[string][]byte{}, memoR: map[[2]uint64][]byte{}}
	leafHex := make([]string, len(sdb.leafH))
	for i, h := range sdb.leafH {
		leafHex[i] = hx(h)
	}
	t.line("TREE sumdb %s", strings.Join(leafHex, ","))
	wk := []witKey{genWitKey(rng, "tilewit", "cosigv1")}
	type pair struct{ from, to int }
	var pairs []pair
	lim := pick(160, 1200)
	if lim > maxLeaves {
		lim = maxLeaves
	}
	if thorough() {
		for to := 2; to <= lim; to++ {
			for from := 1; from < to; from++ {
				if rng.Intn(40) == 0 || to-from < 3 && rng.Intn(4) == 0 {
					pairs = append(pairs, pair{from, to})
				}
			}
		}
	} else {
		for i := 0; i < 250; i++ {
			to := 2 + rng.Intn(lim-1)
			pairs = append(pairs, pair{1 + rng.Intn(to-1), to})
		}
	}
	for _, b := range []int{255, 256, 257, 511, 512, 513} {
		if b < lim {
			pairs = append(pairs, pair{b - 1, b}, pair{1, b}, pair{b, lim}, pair{b - 200, b})
		}
	}
	l := &logDef{origin: origin, key: key}
	s := newSession(t, "mem", []*logDef{l}, wk)
	lcfg := config.Log{ID: l.id, Origin: origin, Verifier: l.rv, URL: "http://sumdb.invalid"}
	slowFailures := 0
	for pi, p := range pairs {
		if slowFailures >= 4 {
			break
		}
		// the witness side: a recording stub that holds the log's checkpoint at size `from`
		sdb.mu.Lock()
		sdb.size = int64(p.from)
		held := sdb.latest()
		sdb.size = int64(p.to)
		sdb.reqs = nil
		sdb.mu.Unlock()
		sw := &scriptedWitness{latest: held, logID: l.id, br: tr, cur: [3]string{"_", "_", "_"}, ret: []byte("ok\n")}
		ctx, cancel := context.WithTimeout(context.Background(), 10*time.Second)
		lc := lcfg
		if pi%3 == 2 { // every third pair: the log is mounted below a path, configured without trailing slash
			sdb.mu.Lock()
			sdb.mount = "/sumdb/sum.example.org"
			sdb.mu.Unlock()
			lc.URL = "http://sumdb.invalid/sumdb/sum.example.org"
		}
		if pi%5 == 3 {
			sdb.mu.Lock()
			sdb.redirectLatest = true
			sdb.mu.Unlock()
		}
		tStart := time.Now()
		err := sumdbfeeder.FeedLog(ctx, lc, sw, &http.Client{Transport: sdb}, 0)
		cancel()
		if err != nil && time.Since(tStart) > 8*time.Second {
			slowFailures++ // a cycle that used up its whole deadline: after a few of them the remaining pairs add nothing but time
		}
		sdb.mu.Lock()
		sdb.mount = ""
		sdb.redirectLatest = false
		sdb.mu.Unlock()
		// reference: which tiles does the proof need, and what is the proof
		ref := refTileReader{s: sdb, paths: map[string]bool{}}
		th := sdb.treeHash(int64(p.to))
		refProof, rerr := tlog.ProveTree(int64(p.to), int64(p.from), tlog.TileHashReader(tlog.Tree{N: int64(p.to), Hash: th}, ref))
		var refP [][]byte
		for _, h := range refProof {
			h := h
			refP = append(refP, h[:])
		}
		sdb.mu.Lock()
		var got []string
		for _, r := range sdb.reqs {
			if r != "/latest" && r != "/checkpoints/current" {
				got = append(got, r)
			}
		}
		sdb.mu.Unlock()
		sort.Strings(got)
		var want []string
		for k := range ref.paths {
			want = append(want, k)
		}
		sort.Strings(want)
		// what was submitted
		sub := "-"
		for _, c := range sw.calls {
			if strings.HasPrefix(c, "U:") {
				sub = c
			}
		}
		own := tr.consistency(uint64(p.from), uint64(p.to))
		e := "-"
		if err != nil {
			e = "err"
		}
		checkTree := 1
		if rerr != nil || tlog.CheckTree(refProof, int64(p.to), th, int64(p.from), sdb.treeHash(int64(p.from))) != nil {
			checkTree = 0
		}
		t.line("TF from=%d to=%d err=%s paths=%s refpaths=%s submitted=%s own=%s ref=%s checktree=%d root1=%s root2=%s",
			p.from, p.to, e, hx([]byte(strings.Join(got, " "))), hx([]byte(strings.Join(want, " "))), sub, hxList(own), hxList(refP), checkTree,
			hx(tr.root(uint64(p.from))), hx(tr.root(uint64(p.to))))
		// and the real witness accepts it (sampled)
		if pi%10 == 0 && err == nil {
			origin2 := fmt.Sprintf("%s", origin)
			_ = origin2
			ws := newSession(t, "mem", []*logDef{{origin: origin, key: key}}, wk)
			ws.update(ws.logs[0].id, 0, held, [][]byte{}, "class=setup")
			var pr [][]byte
			for _, c := range sw.calls {
				if strings.HasPrefix(c, "U:") {
					parts := strings.Split(c, ":")
					if parts[3] != "-" {
						for _, hh := range strings.Split(parts[3], ",") {
							b, _ := hexDecode(hh)
							pr = append(pr, b)
						}
					}
				}
			}
			sdb.mu.Lock()
			cpTo := sdb.latest()
			sdb.mu.Unlock()
			ws.update(ws.logs[0].id, uint64(p.from), cpTo, pr, "class=tiles.proof probe=1")
			ws.end()
		}
	}
	s.end()
	_ = os.Stdout
	// (c) one long-running feeder following a growing log: the same tile coordinates come back with larger widths;
	// schedules 3.. run on a second, large log (> 2^16 leaves), where tiles of level 1 become complete and tile
	// (level 0, index n) and tile (level 1, index n) are both requested within one process lifetime
	schedules := [][]int{{100, 255, 256, 257, 300}, {3, 200, 260, 513, 700}, {250, 251, 252, 600},
		{255, 300, 65536, 65537}, {100, 65536, 65700}, {65535, 65536, 65793},
		// one step from far back to beyond 2^16: the proof needs a complete level-1 tile, complete and partial level-0
		// tiles together (five or more tiles in one ReadTiles call)
		{300, 65700}, {1, 1200, 65793}}
	var bigSdb *stubSumDB
	var bigTr *branch
	smallSdb, smallTr := sdb, tr
	for si, sched := range schedules {
		sdb, tr = smallSdb, smallTr
		if sched[len(sched)-1] > maxLeaves {
			if bigSdb == nil {
				bigSdb = newStubSumDB(rng, 65800, key, origin)
				bigTr = &branch{name: "sumdb-big", leaves: bigSdb.leafH, memoU: map[string][]byte{}, memoR: map[[2]uint64][]byte{}}
			}
			sdb, tr = bigSdb, bigTr
		}
		gw := &growWitness{logID: l.id, verif: key.verif, origin: origin}
		sdb.mu.Lock()
		sdb.size = int64(sched[0])
		sdb.mu.Unlock()
		step := 0
		gw.onAccept = func(size uint64) {
			// the log grows as soon as the witness has caught up
			if step+1 < len(sched) && size == uint64(sched[step]) {
				step++
				sdb.mu.Lock()
				sdb.size = int64(sched[step])
				sdb.mu.Unlock()
			}
		}
		ctx, cancel := context.WithTimeout(context.Background(), 13*time.Second)
		done := make(chan struct{})
		go func() {
			_ = sumdbfeeder.FeedLog(ctx, lcfg, gw, &http.Client{Transport: sdb}, 40*time.Millisecond)
			close(done)
		}()
		deadline := time.Now().Add(12 * time.Second)
		for time.Now().Before(deadline) {
			gw.mu.Lock()
			reached := gw.size == uint64(sched[len(sched)-1])
			gw.mu.Unlock()
			if reached {
				break
			}
			time.Sleep(20 * time.Millisecond)
		}
		cancel()
		<-done
		gw.mu.Lock()
		var steps []string
		for _, u := range gw.updates {
			okp := 0
			if u.old == 0 || verifyOwn(tr, u.old, u.size, u.proof) {
				okp = 1
			}
			steps = append(steps, fmt.Sprintf("%d>%d:%d", u.old, u.size, okp))
		}
		t.line("TL schedule=%d want=%s reached=%d steps=%s", si, strings.ReplaceAll(strings.Trim(fmt.Sprint(sched), "[]"), " ", ","), gw.size, strings.Join(steps, ","))
		gw.mu.Unlock()
	}
}

// growWitness: a minimal witness that accepts a step iff the proof verifies with the harness's own RFC 6962 code.
type growUpdate struct {
	old, size uint64
	proof     [][]byte
}
type growWitness struct {
	mu       sync.Mutex
	logID    string
	origin   string
	verif    note.Verifier
	latest   []byte
	size     uint64
	updates  []growUpdate
	onAccept func(uint64)
}

func (g *growWitness) GetLatestCheckpoint(ctx context.Context, logID string) ([]byte, error) {
	g.mu.Lock()
	defer g.mu.Unlock()
	if g.latest == nil {
		return nil, os.ErrNotExist
	}
	return g.latest, nil
}

func (g *growWitness) Update(ctx context.Context, logID string, oldSize uint64, newCP []byte, proof [][]byte) ([]byte, error) {
	g.mu.Lock()
	n, err := note.Open(newCP, note.VerifierList(g.verif))
	if err != nil {
		g.mu.Unlock()
		return nil, err
	}
	var size uint64
	lines := strings.Split(n.Text, "\n")
	fmt.Sscanf(lines[1], "%d", &size)
	g.updates = append(g.updates, growUpdate{oldSize, size, proof})
	g.latest, g.size = newCP, size
	cb := g.onAccept
	g.mu.Unlock()
	if cb != nil {
		cb(size)
	}
	return newCP, nil
}

// verifyOwn checks a consistency proof with the harness's own proof generator (equal proofs = valid proof).
func verifyOwn(tr *branch, from, to uint64, proof [][]byte) bool {
	want := tr.consistency(from, to)
	if len(want) != len(proof) {
		return false
	}
	for i := range want {
		if !bytes.Equal(want[i], proof[i]) {
			return false
		}
	}
	return true
}
