package main

import (
	"context"
	"errors"
	"fmt"
	"math/rand"
	"os"
	"strings"
	"sync"
	"time"

	f_log "github.com/transparency-dev/formats/log"
	"github.com/transparency-dev/witness/internal/feeder"
	"github.com/transparency-dev/witness/internal/persistence/inmemory"
	"github.com/transparency-dev/witness/omniwitness"
)

func init() { scenarios["feeder"] = scenarioFeeder }

// scriptedWitness answers the feeder's calls, failing the call named by script[attempt] ('g' get-latest,
// 'p' fetch-proof, 'u' update, '-' nothing); an attempt starts with each GetLatestCheckpoint call.
type scriptedWitness struct {
	mu      sync.Mutex
	script  string
	attempt int
	calls   []string
	answers []string // per attempt: G:..,P:..,U:..
	cur     [3]string
	latest  []byte // stub mode: fixed latest checkpoint (nil = none)
	badLatest [][]byte // answers of the attempts scripted 'b'
	ret     []byte // stub mode: what Update returns
	real    feeder.Witness
	ctl     *lspCtl // fault plan of the real witness's storage (nil: no wrapper)
	cancelledAt time.Time // when the caller's context was cancelled (zero: not cancelled)
	lateCalls   int       // calls that began well after that
	logID   string
	fetched []byte
	br      *branch
}

// late notes a call that begins after the caller's context was cancelled (w.mu held).
func (w *scriptedWitness) late() {
	if !w.cancelledAt.IsZero() && time.Since(w.cancelledAt) > 400*time.Millisecond {
		w.lateCalls++
	}
}

func (w *scriptedWitness) failing(c byte) bool {
	return w.attempt-1 < len(w.script) && w.attempt >= 1 && w.script[w.attempt-1] == c
}

func (w *scriptedWitness) flush() {
	if w.attempt > 0 {
		w.answers = append(w.answers, fmt.Sprintf("G:%s/P:%s/U:%s", w.cur[0], w.cur[1], w.cur[2]))
	}
	w.cur = [3]string{"_", "_", "_"}
}

func (w *scriptedWitness) GetLatestCheckpoint(ctx context.Context, logID string) ([]byte, error) {
	w.mu.Lock()
	defer w.mu.Unlock()
	w.flush()
	w.attempt++
	w.late()
	w.calls = append(w.calls, "G")
	if logID != w.logID {
		w.calls = append(w.calls, "WRONGID:"+logID)
	}
	if w.failing('g') {
		w.cur[0] = "!"
		return nil, fmt.Errorf("injected get-latest failure")
	}
	var b []byte
	var err error
	if w.failing('b') {
		// the witness answers with bytes that are not a checkpoint of this log under the log's key: signed by another
		// key, of another origin, or cut short.  Nothing can be concluded from them, so nothing may be submitted.
		b = w.badLatest[w.attempt%len(w.badLatest)]
		w.cur[0] = hx(b)
		return b, nil
	}
	if w.real != nil {
		if w.failing('r') && w.ctl != nil {
			// the fault is BELOW the adapter: the witness's own storage read fails in this attempt
			w.ctl.setFaults("g")
		}
		b, err = w.real.GetLatestCheckpoint(ctx, logID)
		if w.ctl != nil {
			w.ctl.setFaults("")
		}
	} else if w.latest == nil {
		err = os.ErrNotExist
	} else {
		b = w.latest
	}
	if err != nil {
		w.cur[0] = "!"
		if errors.Is(err, os.ErrNotExist) { // the only error that means "nothing witnessed yet"
			w.cur[0] = "-"
		}
		return nil, err
	}
	w.cur[0] = hx(b)
	return b, nil
}

func (w *scriptedWitness) fetchProof(ctx context.Context, from, to f_log.Checkpoint) ([][]byte, error) {
	w.mu.Lock()
	defer w.mu.Unlock()
	w.late()
	w.calls = append(w.calls, fmt.Sprintf("P:%d:%d", from.Size, to.Size))
	if w.failing('p') {
		w.cur[1] = "!"
		return nil, fmt.Errorf("injected fetch-proof failure")
	}
	p := [][]byte{}
	if from.Size > 0 && from.Size < to.Size && to.Size <= w.br.size() {
		p = w.br.consistency(from.Size, to.Size)
	}
	w.cur[1] = hxList(p)
	return p, nil
}

func (w *scriptedWitness) Update(ctx context.Context, logID string, oldSize uint64, newCP []byte, proof [][]byte) ([]byte, error) {
	w.mu.Lock()
	defer w.mu.Unlock()
	cp := hx(newCP)
	if string(newCP) == string(w.fetched) {
		cp = "="
	}
	w.late()
	w.calls = append(w.calls, fmt.Sprintf("U:%d:%s:%s", oldSize, cp, hxList(proof)))
	if logID != w.logID {
		w.calls = append(w.calls, "WRONGID:"+logID)
	}
	if w.failing('u') {
		w.cur[2] = "!"
		return nil, fmt.Errorf("injected update failure")
	}
	var b []byte
	var err error
	if w.real != nil {
		b, err = w.real.Update(ctx, logID, oldSize, newCP, proof)
	} else {
		b = w.ret
	}
	if err != nil {
		w.cur[2] = "!"
		return b, err
	}
	if b == nil {
		w.cur[2] = "-"
	} else {
		w.cur[2] = hx(b)
	}
	return b, nil
}

func allPatterns(maxFail int) []string {
	res := []string{""}
	frontier := []string{""}
	for i := 0; i < maxFail; i++ {
		var next []string
		for _, p := range frontier {
			for _, c := range "gpu" {
				next = append(next, p+string(c))
			}
		}
		res = append(res, next...)
		frontier = next
	}
	return res
}

func scenarioFeeder(t *traceWriter, rng *rand.Rand) {
	key := genLogKey(rng, "feed-log")
	other := genLogKey(rng, "feed-other")
	tr := newExplicitBranch("trunk", 14, nil, 0)
	f4 := newExplicitBranch("f4", 14, tr, 4)
	wkeys := []witKey{genWitKey(rng, "fdwit", "cosigv1")}
	maxFail := pick(2, 4)
	maxSize := pick(6, 12)
	var wg sync.WaitGroup
	sem := make(chan struct{}, 24)
	caseNo := 0
	var mu sync.Mutex
	type fcase struct {
		wsize, lsize int // witness size (-1 none), log size
		forked       bool
		pattern      string
		realW        bool
		badCP        int // 0 good, 1 signed by other key, 2 wrong origin
		cancel       bool
		wBig, lBig   uint64 // when non-zero: sizes beyond the explicit tree (stub witness only; roots are arbitrary)
	}
	var cases []fcase
	for ws := -1; ws <= maxSize; ws++ {
		for ls := 0; ls <= maxSize; ls++ {
			for _, forked := range []bool{false, true} {
				cases = append(cases, fcase{ws, ls, forked, "", false, 0, false, 0, 0})
				cases = append(cases, fcase{ws, ls, forked, "", true, 0, false, 0, 0})
			}
		}
	}
	for _, p := range allPatterns(maxFail) {
		if p == "" {
			continue
		}
		for _, realW := range []bool{false, true} {
			cases = append(cases, fcase{3, 8, false, p, realW, 0, false, 0, 0})
			if len(p) <= 2 {
				cases = append(cases, fcase{-1, 5, false, p, realW, 0, false, 0, 0}, fcase{6, 6, false, p, realW, 0, false, 0, 0})
			}
		}
	}
	// the real witness's storage read fails under the adapter (a failed read is not "nothing witnessed yet")
	for _, p := range []string{"r", "rr", "rg", "ur", "rrr"} {
		cases = append(cases, fcase{3, 8, false, p, true, 0, false, 0, 0}, fcase{9, 5, false, p, true, 0, false, 0, 0},
			fcase{-1, 5, false, p, true, 0, false, 0, 0}, fcase{6, 6, false, p, true, 0, false, 0, 0}, fcase{4, 7, true, p, true, 0, false, 0, 0})
	}
	// the witness answers with something that is not this log's checkpoint
	for _, p := range []string{"b", "bb", "bg", "ub", "bbb", "pb"} {
		for _, realW := range []bool{false, true} {
			cases = append(cases, fcase{3, 8, false, p, realW, 0, false, 0, 0}, fcase{-1, 5, false, p, realW, 0, false, 0, 0}, fcase{6, 6, false, p, realW, 0, false, 0, 0})
		}
	}
	// sizes that differ by more than 2^63: the comparison "is the witness ahead" must not be done on a signed difference
	for _, p := range [][2]uint64{{1<<63 + 2, 1}, {1, 1<<63 + 1}, {1<<64 - 1, 5}, {5, 1<<64 - 1}, {1 << 63, 1 << 63}, {1<<63 + 9, 1<<63 + 8}, {7, 1 << 62}} {
		cases = append(cases, fcase{wsize: 1, lsize: 1, wBig: p[0], lBig: p[1]})
	}
	cases = append(cases, fcase{3, 8, false, "", false, 1, false, 0, 0}, fcase{3, 8, false, "", true, 2, false, 0, 0},
		fcase{3, 8, false, "ggggggggggggggggggggg", false, 0, true, 0, 0}, fcase{3, 8, false, "uuuuuuuuuuuuuuuuuuuuu", false, 0, true, 0, 0},
		fcase{3, 8, false, "gg", false, 0, true, 0, 0}, fcase{3, 8, false, "pg", true, 0, true, 0, 0}, fcase{9, 5, false, "", true, 0, false, 0, 0})
	for _, c := range cases {
		c := c
		wg.Add(1)
		sem <- struct{}{}
		mu.Lock()
		caseNo++
		n := caseNo
		mu.Unlock()
		go func() {
			defer wg.Done()
			defer func() { <-sem }()
			origin := fmt.Sprintf("feeder.example/%d", n)
			l := &logDef{origin: origin, key: key}
			var ctl *lspCtl
			mu.Lock()
			var s *session
			if c.realW {
				ctl = &lspCtl{fail: map[string]bool{}}
				s = newSessionWith(t, "mem", []*logDef{l}, wkeys, &wrapLSP{inner: inmemory.NewPersistence(), ctl: ctl, tid: func() int { return 0 }}, nil)
			} else {
				s = newSession(t, "mem", []*logDef{l}, wkeys)
			}
			mu.Unlock()
			br := tr
			if c.forked {
				br = f4
			}
			// the witness's state
			var latest []byte
			if c.wsize >= 0 {
				res := s.update(l.id, 0, signNote(cpText(origin, uint64(c.wsize), tr.root(uint64(c.wsize))), key.signer), [][]byte{}, "class=setup")
				latest = res.ret
			}
			fetched := signNote(cpText(origin, uint64(c.lsize), br.root(uint64(c.lsize))), key.signer)
			if c.wBig != 0 {
				// the stub witness holds a log-signed checkpoint of a size far beyond the explicit tree (any root)
				latest = signNote(cpText(origin, c.wBig, randHash(rand.New(rand.NewSource(int64(n))), 32)), key.signer)
				fetched = signNote(cpText(origin, c.lBig, randHash(rand.New(rand.NewSource(int64(n)+1)), 32)), key.signer)
				if c.wBig == c.lBig {
					fetched = latest
				}
			}
			switch c.badCP {
			case 1:
				fetched = signNote(cpText(origin, uint64(c.lsize), br.root(uint64(c.lsize))), other.signer)
			case 2:
				fetched = signNote(cpText(origin+"/x", uint64(c.lsize), br.root(uint64(c.lsize))), key.signer)
			}
			sw := &scriptedWitness{script: c.pattern, latest: latest, logID: l.id, fetched: fetched, br: br, cur: [3]string{"_", "_", "_"}}
			good := signNote(cpText(origin, 2, tr.root(2)), key.signer)
			sw.badLatest = [][]byte{
				signNote(cpText(origin, 2, tr.root(2)), other.signer),
				signNote(cpText(origin+"/x", 2, tr.root(2)), key.signer),
				good[:len(good)-9],
				[]byte("not a checkpoint"),
			}
			if c.realW {
				sw.real = omniwitness.VerifNewAdapter(s.w)
				sw.ctl = ctl
			} else {
				sw.ret = []byte("stub-witness-answer\n")
			}
			opts := feeder.FeedOpts{
				LogID:           l.id,
				FetchCheckpoint: func(context.Context) ([]byte, error) { return fetched, nil },
				FetchProof:      sw.fetchProof,
				LogSigVerifier:  l.rv,
				LogOrigin:       origin,
				Witness:         sw,
			}
			timeout := 12 * time.Second
			if c.pattern == "" {
				timeout = 2500 * time.Millisecond
			}
			if c.cancel {
				timeout = 1200 * time.Millisecond
			}
			preState := "?"
			if c.realW {
				preState = s.readState(l.id)
			}
			ctx, cancel := context.WithTimeout(context.Background(), timeout)
			if c.cancel {
				// plain cancellation (no deadline on the context): the caller goes away after 0.7 s
				cancel()
				ctx, cancel = context.WithCancel(context.Background())
				timeout = 700 * time.Millisecond
				go func() {
					time.Sleep(timeout)
					sw.mu.Lock()
					sw.cancelledAt = time.Now()
					sw.mu.Unlock()
					cancel()
				}()
			}
			t0 := time.Now()
			var ret []byte
			var err error
			returned := withDeadline(timeout+3500*time.Millisecond, func() { ret, err = feeder.FeedOnce(ctx, opts) })
			el := time.Since(t0)
			if !returned {
				el = timeout + 4*time.Second
				err = errors.New("FeedOnce did not return")
			}
			cancel()
			sw.mu.Lock()
			sw.flush()
			result := "err"
			if err == nil {
				result = "ok:" + hx(ret)
				if ret == nil {
					result = "ok:-"
				}
			}
			hang := 0
			if el > timeout+3*time.Second {
				hang = 1
			}
			kind := "stub"
			if c.realW {
				kind = "real"
			}
			postState := "?"
			if c.realW {
				postState = s.readState(l.id)
			}
			wShow, lShow := fmt.Sprint(c.wsize), fmt.Sprint(c.lsize)
			if c.wBig != 0 {
				wShow, lShow = fmt.Sprint(c.wBig), fmt.Sprint(c.lBig)
			}
			t.line("FD %s origin=%s vname=%s vhash=%d vid=%s cp=%s witness=%s wsize=%s lsize=%s forked=%v pattern=%s cancel=%v hang=%d late=%d pre=%s post=%s answers=%s => calls=%s result=%s",
				s.id, hx([]byte(origin)), hx([]byte(key.verif.Name())), key.verif.KeyHash(), l.rv.vid, hx(fetched), kind, wShow, lShow, c.forked,
				"."+c.pattern, c.cancel, hang, sw.lateCalls, preState, postState, strings.Join(sw.answers, ";"), strings.Join(sw.calls, ";"), result)
			sw.mu.Unlock()
			mu.Lock()
			s.end()
			mu.Unlock()
		}()
	}
	wg.Wait()
}
