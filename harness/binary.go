package main

// The production binary itself: cmd/omniwitness is built from the tree under check (with one overlaid init that lets
// the harness substitute the compiled-in log list) and run as a process: flags, signer construction, SQLite wiring,
// HTTP API and bastion connection are those of main().  Requests go in through a stub bastion, state is read through
// the public HTTP API, the process is SIGKILLed and restarted on the same database file.

import (
	"bytes"
	"context"
	"crypto/ecdsa"
	"crypto/ed25519"
	"crypto/elliptic"
	crand "crypto/rand"
	"crypto/tls"
	"crypto/x509"
	"crypto/x509/pkix"
	"database/sql"
	"encoding/pem"
	"fmt"
	"io"
	"math/big"
	"math/rand"
	"net"
	"net/http"
	"net/http/httptest"
	"os"
	"os/exec"
	"path/filepath"
	"strconv"
	"strings"
	"sync"
	"syscall"
	"time"

	f_log "github.com/transparency-dev/formats/log"
	"github.com/transparency-dev/witness/internal/feeder/bastion"
	"golang.org/x/mod/sumdb/note"
	"golang.org/x/net/http2"
)

func init() { scenarios["binary"] = scenarioBinary }

func freePort() string {
	l, err := net.Listen("tcp", "127.0.0.1:0")
	if err != nil {
		panic(err)
	}
	defer l.Close()
	return l.Addr().String()
}

type binProc struct {
	cmd *exec.Cmd
	out *bytes.Buffer
}

func scenarioBinary(t *traceWriter, rng *rand.Rand) {
	bin := os.Getenv("VERIF_OMNI_BIN")
	if _, err := os.Stat(bin); bin == "" || err != nil {
		t.line("BIN phase=build ok=0 msg=%s", hx([]byte("the omniwitness binary was not built")))
		return
	}
	scratch := scratchDir()
	defer os.RemoveAll(scratch)
	// stub bastion
	srvKey, _ := ecdsa.GenerateKey(elliptic.P256(), crand.Reader)
	tmpl := &x509.Certificate{SerialNumber: big.NewInt(1), Subject: pkix.Name{CommonName: "stub bastion"}, NotBefore: time.Now().Add(-time.Hour), NotAfter: time.Now().Add(24 * time.Hour),
		KeyUsage: x509.KeyUsageDigitalSignature | x509.KeyUsageCertSign, ExtKeyUsage: []x509.ExtKeyUsage{x509.ExtKeyUsageServerAuth}, BasicConstraintsValid: true, IsCA: true, IPAddresses: []net.IP{net.ParseIP("127.0.0.1")}}
	der, err := x509.CreateCertificate(crand.Reader, tmpl, tmpl, srvKey.Public(), srvKey)
	if err != nil {
		panic(err)
	}
	caFile := filepath.Join(scratch, "ca.pem")
	_ = os.WriteFile(caFile, pem.EncodeToMemory(&pem.Block{Type: "CERTIFICATE", Bytes: der}), 0o600)
	emptyDir := filepath.Join(scratch, "certs")
	_ = os.Mkdir(emptyDir, 0o700)
	ln, err := tls.Listen("tcp", "127.0.0.1:0", &tls.Config{Certificates: []tls.Certificate{{Certificate: [][]byte{der}, PrivateKey: srvKey}},
		NextProtos: []string{"bastion/0"}, ClientAuth: tls.RequireAnyClientCert, MinVersion: tls.VersionTLS13})
	if err != nil {
		panic(err)
	}
	defer ln.Close()
	// bastion client key of the witness (PKCS8 PEM file, as the flag wants it)
	_, bkey, _ := ed25519.GenerateKey(crand.Reader)
	bder, _ := x509.MarshalPKCS8PrivateKey(bkey)
	bkeyFile := filepath.Join(scratch, "bastion.pem")
	_ = os.WriteFile(bkeyFile, pem.EncodeToMemory(&pem.Block{Type: "PRIVATE KEY", Bytes: bder}), 0o600)
	// the witness's note key: main() makes a legacy Ed25519 signer and a cosignature/v1 signer out of it
	seed := rng.Int63()
	wkL := genWitKey(rand.New(rand.NewSource(seed)), "binwit", "ed25519")
	wkC := genWitKey(rand.New(rand.NewSource(seed)), "binwit", "cosigv1")
	wk := []witKey{wkL, wkC}
	// the logs it is configured with (pushed through the bastion only)
	w := &world{rng: rng, t: t, wk: wk}
	w.otherKey = genLogKey(rng, "bin-other")
	keyA := genLogKey(rng, "bin-log")
	lss := []*logState{w.newLogState("bin.example/a", keyA, false), w.newLogState("bin.example/b", keyA, false)}
	yaml := "Logs:\n"
	var defs []*logDef
	for _, ls := range lss {
		defs = append(defs, ls.l)
		yaml += fmt.Sprintf("  - Origin: %s\n    URL: http://127.0.0.1:1/\n    PublicKey: %s\n    Feeder: none\n", ls.l.origin, keyA.vkey)
	}
	// a third log that nobody pushes: the binary has to poll it (--poll_interval) from a real HTTP server, and
	// a distributor it has to push to (--rest_distro_url)
	trT := newExplicitBranch("bin-polled", 600, nil, 0)
	stT := &stubTiles{br: trT, origin: "bin.example/polled", signer: keyA.signer, size: 5}
	polledID := f_log.ID(stT.origin)
	tsrv := httptest.NewServer(http.HandlerFunc(func(rw http.ResponseWriter, r *http.Request) {
		resp, _ := stT.RoundTrip(r)
		b, _ := io.ReadAll(resp.Body)
		rw.WriteHeader(resp.StatusCode)
		_, _ = rw.Write(b)
	}))
	defer tsrv.Close()
	var dmu sync.Mutex
	dputs := map[string][]byte{}
	dsrv := httptest.NewServer(http.HandlerFunc(func(rw http.ResponseWriter, r *http.Request) {
		b, _ := io.ReadAll(r.Body)
		if r.Method == http.MethodPut {
			dmu.Lock()
			dputs[r.URL.Path] = b
			dmu.Unlock()
		}
		rw.WriteHeader(200)
	}))
	defer dsrv.Close()
	yaml += fmt.Sprintf("  - Origin: %s\n    URL: %s/\n    PublicKey: %s\n    Feeder: tiles\n", stT.origin, tsrv.URL, keyA.vkey)
	cfgFile := filepath.Join(scratch, "logs.yaml")
	_ = os.WriteFile(cfgFile, []byte(yaml), 0o600)
	dbFile := filepath.Join(scratch, "witness.db")
	api := freePort()
	mAddr := ""
	start := func() *binProc {
		p := &binProc{out: &bytes.Buffer{}}
		mAddr = freePort()
		p.cmd = exec.Command(bin, "--listen", api, "--metrics_listen", mAddr, "--db_file", dbFile, "--private_key", wkL.skey,
			"--bastion_addr", ln.Addr().String(), "--bastion_key_path", bkeyFile, "--bastion_rate_limit", "100000", "--poll_interval", "50ms", "--rest_distro_url", dsrv.URL, "--logtostderr")
		p.cmd.Env = append(os.Environ(), "VERIF_CONFIG_LOGS="+cfgFile, "SSL_CERT_FILE="+caFile, "SSL_CERT_DIR="+emptyDir)
		p.cmd.Stdout, p.cmd.Stderr = p.out, p.out
		if err := p.cmd.Start(); err != nil {
			panic(err)
		}
		return p
	}
	get := func(path string) (int, []byte) {
		resp, err := (&http.Client{Timeout: 3 * time.Second}).Get("http://" + api + path)
		if err != nil {
			return 0, nil
		}
		defer resp.Body.Close()
		b, _ := io.ReadAll(resp.Body)
		return resp.StatusCode, b
	}
	// polled: the binary's served checkpoint of the polled log reaches the published size within the deadline
	polled := func(phase string, size uint64) {
		stT.mu.Lock()
		stT.size = size
		stT.mu.Unlock()
		served, valid := uint64(0), 0
		for dl := time.Now().Add(10 * time.Second); time.Now().Before(dl); time.Sleep(50 * time.Millisecond) {
			if st, b := get("/witness/v0/logs/" + polledID + "/checkpoint"); st == 200 {
				if cp, _, n, err := f_log.ParseCheckpoint(b, stT.origin, keyA.verif, wkL.verif, wkC.verif); err == nil {
					served, valid = cp.Size, b2i(len(n.Sigs) == 3 && bytes.Equal(cp.Hash, trT.root(cp.Size)))
					if served == size {
						break
					}
				}
			}
		}
		t.line("BINP phase=%s want=%d served=%d valid=%d", phase, size, served, valid)
	}
	waitAPI := func() bool {
		for i := 0; i < 150; i++ {
			if st, _ := get("/witness/v0/logs"); st == 200 {
				return true
			}
			time.Sleep(100 * time.Millisecond)
		}
		return false
	}
	accept := func() (*http2.ClientConn, net.Conn, string) {
		type acc struct {
			c   net.Conn
			err error
		}
		ch := make(chan acc, 1)
		go func() { c, err := ln.Accept(); ch <- acc{c, err} }()
		select {
		case a := <-ch:
			if a.err != nil {
				return nil, nil, a.err.Error()
			}
			hctx, hc := context.WithTimeout(context.Background(), 10*time.Second)
			defer hc()
			if err := a.c.(*tls.Conn).HandshakeContext(hctx); err != nil {
				return nil, nil, err.Error()
			}
			cc, err := (&http2.Transport{}).NewClientConn(a.c)
			if err != nil {
				return nil, nil, err.Error()
			}
			return cc, a.c, ""
		case <-time.After(40 * time.Second):
			return nil, nil, "the witness never connected to the bastion"
		}
	}
	// a free port may be taken by someone else between choosing it and the binary binding it: try again with another
	startUp := func() *binProc {
		var p *binProc
		for attempt := 0; attempt < 4; attempt++ {
			if attempt > 0 {
				_ = p.cmd.Process.Kill()
				_, _ = p.cmd.Process.Wait()
				api = freePort()
			}
			p = start()
			if waitAPI() {
				return p
			}
		}
		return p
	}
	p := startUp()
	defer func() { _ = p.cmd.Process.Kill(); _, _ = p.cmd.Process.Wait() }()
	if !waitAPI() {
		t.line("BIN phase=start ok=0 msg=%s", hx([]byte("the HTTP API did not come up: "+lastLines(p.out.String(), 3))))
		return
	}
	cc, conn, emsg := accept()
	if cc == nil {
		t.line("BIN phase=bastion ok=0 msg=%s", hx([]byte(emsg)))
		return
	}
	t.line("BIN phase=start ok=1 msg=.")
	polled("first", 5)
	polled("growth", 300)
	s := newExternalSession(t, "sqlfile", defs, wk, func(id string) string {
		st, b := get("/witness/v0/logs/" + id + "/checkpoint")
		switch st {
		case 200:
			return hx(b)
		case 404:
			return "-"
		}
		return "!"
	})
	rv := &recVerifier{inner: wkC.verif, vid: newVid("B"), t: t}
	t.line("HCFG %s wv=%d vid=%s", s.id, 1, rv.vid)
	mkDo := func(cc *http2.ClientConn) func([]byte) (int, string, []byte, bool) {
		return func(body []byte) (int, string, []byte, bool) {
			rctx, rc := context.WithTimeout(context.Background(), 10*time.Second)
			defer rc()
			req, err := http.NewRequestWithContext(rctx, http.MethodPost, "https://witness.invalid/add-checkpoint", bytes.NewReader(body))
			if err != nil {
				return 0, "", nil, false
			}
			resp, err := cc.RoundTrip(req)
			if err != nil {
				return 0, "", nil, false
			}
			defer resp.Body.Close()
			rb, _ := io.ReadAll(resp.Body)
			return resp.StatusCode, resp.Header.Get("Content-Type"), rb, true
		}
	}
	bs := &bastionSession{session: s, wvRec: rv, lss: lss, allowN: -1, e2e: 1, nomodel: 1}
	// what the operator's dashboard must show for this process: per log, the requests that reached Update (the body parses,
	// fits the connection's body cap and names a configured origin) and those answered 200
	attempts, successes := map[string]int{}, map[string]int{}
	unanswered := 0 // requests whose answer never arrived: whether they reached Update is unknown, the page is then not judged
	counted := func(do func([]byte) (int, string, []byte, bool)) func([]byte) (int, string, []byte, bool) {
		return func(body []byte) (int, string, []byte, bool) {
			st, ct, rb, ok := do(body)
			if !ok {
				unanswered++
			}
			if ok && st != 429 && len(body) <= 16*1024 {
				if _, _, cp, err := bastion.VerifParseBody(bytes.NewReader(body)); err == nil {
					if i := bytes.IndexByte(cp, '\n'); i >= 0 {
						id := f_log.ID(string(cp[:i]))
						for _, l := range defs {
							if l.id == id {
								attempts[id]++
								if st == 200 {
									successes[id]++
								}
							}
						}
					}
				}
			}
			return st, ct, rb, ok
		}
	}
	bs.doReq = counted(mkDo(cc))
	for i := 0; i < pick(30, 200) && !bs.dead; i++ {
		bs.oneRequest(w, lss[rng.Intn(len(lss))])
	}
	// what the binary serves: the log's text under the log's signature and one valid signature by each of the two
	// witness keys main() configures
	// the process's own /metrics page against what went over the wire
	if resp, err := (&http.Client{Timeout: 3 * time.Second}).Get("http://" + mAddr + "/metrics"); err == nil {
		page, _ := io.ReadAll(resp.Body)
		resp.Body.Close()
		scrape := func(name, id string) int {
			for _, ln := range strings.Split(string(page), "\n") {
				if strings.HasPrefix(ln, name+"{") && strings.Contains(ln, "logid=\""+id+"\"") {
					if f := strings.Fields(ln); len(f) == 2 {
						v, _ := strconv.ParseFloat(f[1], 64)
						return int(v)
					}
				}
			}
			return 0
		}
		for _, l := range defs {
			t.line("BINM log=%s attempts=%d successes=%d unanswered=%d => page_attempts=%d page_successes=%d", hx([]byte(l.id)), attempts[l.id], successes[l.id], unanswered,
				scrape("omniwitness_witness_update_request", l.id), scrape("omniwitness_witness_update_success", l.id))
		}
	} else {
		t.line("BINM log=- attempts=0 successes=0 unanswered=0 => page_attempts=-1 page_successes=-1")
	}
	held := map[string][]byte{}
	for _, l := range defs {
		st, b := get("/witness/v0/logs/" + l.id + "/checkpoint")
		valid := 0
		if st == 200 {
			held[l.id] = b
			if n, err := note.Open(b, note.VerifierList(keyA.verif, wkL.verif, wkC.verif)); err == nil && len(n.Sigs) == 3 {
				valid = 1
			}
			t.line("BINC log=%s status=%d valid=%d", hx([]byte(l.id)), st, valid)
		}
	}
	// SIGKILL of the idle process, restart on the same database file: everything acknowledged is still served
	_ = p.cmd.Process.Signal(syscall.SIGKILL)
	_, _ = p.cmd.Process.Wait()
	conn.Close()
	p2 := startUp()
	defer func() { _ = p2.cmd.Process.Kill(); _, _ = p2.cmd.Process.Wait() }()
	if !waitAPI() {
		t.line("BIN phase=restart ok=0 msg=%s", hx([]byte("the HTTP API did not come up after the restart: "+lastLines(p2.out.String(), 3))))
		return
	}
	same := 1
	for id, b := range held {
		if st, nb := get("/witness/v0/logs/" + id + "/checkpoint"); st != 200 || !bytes.Equal(nb, b) {
			same = 0
		}
	}
	t.line("BIN phase=restart ok=%d msg=%s logs=%d", same, hx([]byte("a checkpoint acknowledged before the kill is not served after the restart")), len(held))
	polled("after-restart", 300)
	polled("growth-after-restart", 513)
	// the restarted binary distributes at start-up: the polled log's checkpoint arrives at the distributor, unmodified,
	// under the log's ID and the witness's key name
	{
		want := "/distributor/v0/logs/" + polledID + "/byWitness/" + wkC.verif.Name() + "/checkpoint"
		okD := 0
		for dl := time.Now().Add(5 * time.Second); time.Now().Before(dl) && okD == 0; time.Sleep(100 * time.Millisecond) {
			dmu.Lock()
			if b, ok := dputs[want]; ok {
				if _, _, _, err := f_log.ParseCheckpoint(b, stT.origin, keyA.verif, wkL.verif, wkC.verif); err == nil {
					okD = 1
				}
			}
			dmu.Unlock()
		}
		dmu.Lock()
		t.line("BIND pushed=%d puts=%d", okD, len(dputs))
		dmu.Unlock()
	}
	// and the restarted process still refuses a fork of what it acknowledged
	cc2, conn2, emsg := accept()
	if cc2 == nil {
		t.line("BIN phase=bastion-after-restart ok=0 msg=%s", hx([]byte(emsg)))
		return
	}
	defer conn2.Close()
	bs.doReq = mkDo(cc2)
	for i := 0; i < 12 && !bs.dead; i++ {
		bs.oneRequest(w, lss[rng.Intn(len(lss))])
	}
	// second kill, of the restarted process (whose start-up found an existing database file)
	held2 := map[string][]byte{}
	for _, l := range defs {
		if st, b := get("/witness/v0/logs/" + l.id + "/checkpoint"); st == 200 {
			held2[l.id] = b
		}
	}
	// the kill strikes INSIDE a commit: this process holds a read transaction on the database file, so the binary's next
	// COMMIT waits for the exclusive lock with its rollback journal on disk; one more honest request is sent (it is
	// never answered) and the binary is killed while it waits.  After the restart SQLite finds a hot journal: everything
	// acknowledged before must still be served, whatever the start-up code of main() does around the database file.
	journal := 0
	if rdb, err := sql.Open("sqlite3", dbFile); err == nil {
		if rtx, err := rdb.Begin(); err == nil {
			if rows, err := rtx.Query("SELECT logID FROM chkpts"); err == nil {
				for rows.Next() {
				}
				rows.Close()
			}
			ls := lss[0]
			cur := ls.cur
			if cur == nil {
				cur = ls.branches[0]
			}
			stored, size := uint64(0), uint64(2)
			if ls.has {
				stored, size = ls.curSize, ls.curSize
			}
			body := writeBody(stored, [][]byte{}, signNote(cpText(ls.l.origin, size, cur.root(size), "in-flight-at-the-kill"), ls.l.key.signer))
			go func() { _, _, _, _ = mkDo(cc2)(body) }()
			for i := 0; i < 40 && journal == 0; i++ {
				time.Sleep(50 * time.Millisecond)
				if _, err := os.Stat(dbFile + "-journal"); err == nil {
					journal = 1
				}
			}
			_ = p2.cmd.Process.Signal(syscall.SIGKILL)
			_, _ = p2.cmd.Process.Wait()
			_ = rtx.Rollback()
		}
		rdb.Close()
	}
	t.line("BINK journal=%d", journal)
	conn2.Close()
	p3 := startUp()
	defer func() { _ = p3.cmd.Process.Kill(); _, _ = p3.cmd.Process.Wait() }()
	if !waitAPI() {
		t.line("BIN phase=restart ok=0 msg=%s", hx([]byte("the HTTP API did not come up after the kill inside a commit: "+lastLines(p3.out.String(), 3))))
		return
	}
	same2 := 1
	for id, b := range held2 {
		if st, nb := get("/witness/v0/logs/" + id + "/checkpoint"); st != 200 || !bytes.Equal(nb, b) {
			same2 = 0
		}
	}
	t.line("BIN phase=restart ok=%d msg=%s logs=%d", same2, hx([]byte("a checkpoint acknowledged before the kill inside a commit is not served after the restart")), len(held2))
	s.t.line("END %s", s.id)
	_ = f_log.ID
}

func lastLines(s string, n int) string {
	ls := bytes.Split(bytes.TrimSpace([]byte(s)), []byte("\n"))
	if len(ls) > n {
		ls = ls[len(ls)-n:]
	}
	return string(bytes.Join(ls, []byte(" | ")))
}
