package main

import (
	"database/sql"
	"errors"
	"fmt"
	"math/rand"
	"os"
	"path/filepath"
	"runtime"
	"sort"
	"strconv"
	"strings"
	"sync"
	"sync/atomic"
	"time"

	"github.com/transparency-dev/merkle/rfc6962"
	"github.com/transparency-dev/witness/internal/feeder"
	"github.com/transparency-dev/witness/internal/persistence"
	"github.com/transparency-dev/witness/internal/persistence/inmemory"
	"github.com/transparency-dev/witness/internal/witness"
	"github.com/transparency-dev/witness/omniwitness"
	"golang.org/x/mod/sumdb/note"
	"google.golang.org/grpc/codes"
	"google.golang.org/grpc/status"
)

func init() { scenarios["conc"] = scenarioConc }

// gid is the id of the calling goroutine (harness only: the storage wrapper has no other way to learn which request
// a storage call belongs to when all requests share one Witness, as they do in production).
func gid() int64 {
	var buf [64]byte
	n := runtime.Stack(buf[:], false)
	f := strings.Fields(string(buf[:n]))
	if len(f) < 2 {
		return -1
	}
	id, _ := strconv.ParseInt(f[1], 10, 64)
	return id
}

// linLate: how often the scheduler of the execution being written up moved on without the released request having
// parked or finished (then the recorded order is not the whole truth and the small-step replay is not applied)
var linLate int

// linAdapter: the adapter the execution being written up went through (nil: none); its view of every log is compared
// with the storage view once everything has finished
var linAdapter feeder.Witness

var tidByG sync.Map // goroutine id -> thread (request) number of the running concurrent execution

func curTid() int {
	if v, ok := tidByG.Load(gid()); ok {
		return v.(int)
	}
	return 0
}

// ---------------------------------------------------------------- controlled scheduler

// sched parks every goroutine before each of its storage calls and releases them one at a time in a chosen
// order. A released goroutine that does not reach its next storage call within the settle time is blocked inside
// the call (SQLite's single connection): it stays "in flight" and the scheduler goes on with the others.
type sched struct {
	mu     sync.Mutex
	parked map[int]chan struct{}
	op     map[int]string
	done   map[int]bool
	wake   chan struct{}
	late   int // releases after which the thread neither parked again nor finished within the settle time
}

func newSched() *sched {
	return &sched{parked: map[int]chan struct{}{}, op: map[int]string{}, done: map[int]bool{}, wake: make(chan struct{}, 64)}
}

func (s *sched) poke() {
	select {
	case s.wake <- struct{}{}:
	default:
	}
}

func (s *sched) gate(tid int, op string) {
	ch := make(chan struct{})
	s.mu.Lock()
	s.parked[tid] = ch
	s.op[tid] = op
	s.mu.Unlock()
	s.poke()
	<-ch
}

func (s *sched) finish(tid int) {
	s.mu.Lock()
	s.done[tid] = true
	s.mu.Unlock()
	s.poke()
}

func (s *sched) snapshot(n int) (enabled []int, allDone bool) {
	s.mu.Lock()
	defer s.mu.Unlock()
	allDone = len(s.done) == n
	for t := range s.parked {
		enabled = append(enabled, t)
	}
	sort.Ints(enabled)
	return
}

// settled waits until thread tid is parked again or finished, or the settle time has passed.
func (s *sched) settled(tid int, d time.Duration) bool {
	deadline := time.After(d)
	for {
		s.mu.Lock()
		_, p := s.parked[tid]
		f := s.done[tid]
		s.mu.Unlock()
		if p || f {
			return true
		}
		select {
		case <-s.wake:
		case <-deadline:
			return false
		}
	}
}

// run drives n threads with the given choice list; returns the branching factors met, the order in which
// threads were released (with the operation they were released into), and whether everything finished.
func (s *sched) run(n int, choices []int, settle time.Duration) (factors []int, order []string, ok bool) {
	return s.runWith(n, func(step int, enabled []int, _ map[int]string) int {
		if step < len(choices) {
			return choices[step] % len(enabled)
		}
		return 0
	}, settle)
}

// chooser picks the index (into enabled) of the thread to release next.
type chooser func(step int, enabled []int, ops map[int]string) int

func (s *sched) runWith(n int, choose chooser, settle time.Duration) (factors []int, order []string, ok bool) {
	// before the first choice every thread has to reach its first storage call (or finish without one)
	for t := 0; t < n; t++ {
		s.settled(t, 500*time.Millisecond)
	}
	idle := 0
	for {
		enabled, allDone := s.snapshot(n)
		if allDone {
			return factors, order, true
		}
		if len(enabled) == 0 {
			select {
			case <-s.wake:
				idle = 0
			case <-time.After(200 * time.Millisecond):
				idle++
				if idle > 25 { // 5 s without any progress: a hang
					return factors, order, false
				}
			}
			continue
		}
		step := len(factors)
		s.mu.Lock()
		ops := map[int]string{}
		for _, e := range enabled {
			ops[e] = s.op[e]
		}
		s.mu.Unlock()
		c := choose(step, enabled, ops)
		if c < 0 || c >= len(enabled) {
			c = 0
		}
		factors = append(factors, len(enabled))
		tid := enabled[c]
		s.mu.Lock()
		ch := s.parked[tid]
		op := s.op[tid]
		delete(s.parked, tid)
		s.mu.Unlock()
		order = append(order, fmt.Sprintf("%d%s", tid, op))
		close(ch)
		// the released thread parks again, finishes, or is blocked inside the call (then it stays in flight);
		// threads that were blocked may have been freed by this step: give them the settle time too
		if !s.settled(tid, settle) {
			s.late++ // still running (slow machine) or blocked inside the call: from here on the order is not fully known
		}
		for t := 0; t < n; t++ {
			if t != tid {
				s.mu.Lock()
				_, p := s.parked[t]
				f := s.done[t]
				s.mu.Unlock()
				if !p && !f {
					s.settled(t, settle)
				}
			}
		}
	}
}

// ---------------------------------------------------------------- requests

type creq struct {
	kind  string // "U" update, "G" read
	l     *logDef
	old   uint64
	cp    []byte
	proof [][]byte
	// results
	start, end int64
	ret        []byte
	err        error
}

var concBranches []*branch

type concCase struct {
	name  string
	setup func(s *session, ls []*logDef) // initial state through a plain witness
	reqs  func(ls []*logDef) []*creq
}

func scenarioConc(t *traceWriter, rng *rand.Rand)     { scenarioConcSel2(t, rng, false, false) }
func scenarioConcLogs(t *traceWriter, rng *rand.Rand) { scenarioConcSel2(t, rng, true, false) }

func init() { scenarios["conclogs"] = scenarioConcLogs }

func init() { scenarios["concfree"] = scenarioConcFree }

// scenarioConcFree: free-running rounds only (no scheduler): many goroutines hammer ONE shared Witness on the in-memory
// and the SQLite store.  Meant to be run from the race-detector build; outcomes are judged as everywhere else.
func scenarioConcFree(t *traceWriter, rng *rand.Rand) { scenarioConcSel2(t, rng, false, true) }

// scenarioConcSel runs the controlled-schedule cases; with onlyMultiLog just the cases whose requests name more
// than one log (C12: a log's outcomes do not depend on requests naming other logs, under every interleaving).
func scenarioConcSel2(t *traceWriter, rng *rand.Rand, onlyMultiLog, onlyFree bool) {
	key := genLogKey(rng, "conc-log")
	tr := newExplicitBranch("trunk", 12, nil, 0)
	f5 := newExplicitBranch("f5", 12, tr, 5) // shares the first 5 leaves with the trunk
	concBranches = []*branch{tr, f5}
	wkeys := []witKey{genWitKey(rng, "cwit", "ed25519"), genWitKey(rng, "cwit", "cosigv1")}
	cpOf := func(l *logDef, b *branch, n uint64) []byte { return signNote(cpText(l.origin, n, b.root(n)), key.signer) }
	upd := func(l *logDef, b *branch, old, n uint64) *creq {
		pr := [][]byte{}
		if old > 0 && old < n {
			pr = b.consistency(old, n)
		}
		return &creq{kind: "U", l: l, old: old, cp: cpOf(l, b, n), proof: pr}
	}
	read := func(l *logDef) *creq { return &creq{kind: "G", l: l} }
	store5 := func(s *session, ls []*logDef) {
		s.update(ls[0].id, 0, cpOf(ls[0], tr, 5), [][]byte{}, "class=setup")
	}
	cases := []concCase{
		{"firstUseConflict", nil, func(ls []*logDef) []*creq { return []*creq{upd(ls[0], tr, 0, 8), upd(ls[0], f5, 0, 5)} }},
		{"firstUseFork", nil, func(ls []*logDef) []*creq { return []*creq{upd(ls[0], tr, 0, 8), upd(ls[0], f5, 0, 8)} }},
		{"forksSameOld", store5, func(ls []*logDef) []*creq { return []*creq{upd(ls[0], tr, 5, 8), upd(ls[0], f5, 5, 8)} }},
		{"growthVsRefresh", store5, func(ls []*logDef) []*creq { return []*creq{upd(ls[0], tr, 5, 8), upd(ls[0], tr, 5, 5)} }},
		{"growthVsGrowth", store5, func(ls []*logDef) []*creq { return []*creq{upd(ls[0], tr, 5, 8), upd(ls[0], tr, 5, 7)} }},
		{"differentLogs", store5, func(ls []*logDef) []*creq { return []*creq{upd(ls[0], tr, 5, 8), upd(ls[1], tr, 0, 3)} }},
		{"updateVsRead", store5, func(ls []*logDef) []*creq { return []*creq{upd(ls[0], tr, 5, 8), read(ls[0])} }},
		{"firstUseVsRead", nil, func(ls []*logDef) []*creq { return []*creq{upd(ls[0], tr, 0, 4), read(ls[0])} }},
	}
	cases3 := []concCase{
		{"threeForks", store5, func(ls []*logDef) []*creq {
			return []*creq{upd(ls[0], tr, 5, 8), upd(ls[0], f5, 5, 8), upd(ls[0], tr, 5, 5)}
		}},
		{"twoUpdatesOneRead", store5, func(ls []*logDef) []*creq {
			return []*creq{upd(ls[0], tr, 5, 8), upd(ls[0], tr, 5, 7), read(ls[0])}
		}},
		{"firstUse3", nil, func(ls []*logDef) []*creq {
			return []*creq{upd(ls[0], tr, 0, 8), upd(ls[0], f5, 0, 6), read(ls[0])}
		}},
		{"updateTwoReads", store5, func(ls []*logDef) []*creq {
			return []*creq{read(ls[0]), upd(ls[0], tr, 5, 8), read(ls[0])}
		}},
	}
	if onlyMultiLog {
		store5b := func(s *session, ls []*logDef) {
			s.update(ls[0].id, 0, cpOf(ls[0], tr, 5), [][]byte{}, "class=setup")
			s.update(ls[1].id, 0, cpOf(ls[1], tr, 2), [][]byte{}, "class=setup")
		}
		cases = []concCase{
			{"differentLogs", store5, func(ls []*logDef) []*creq { return []*creq{upd(ls[0], tr, 5, 8), upd(ls[1], tr, 0, 3)} }},
			{"differentLogsBothStored", store5b, func(ls []*logDef) []*creq { return []*creq{upd(ls[0], tr, 5, 8), upd(ls[1], tr, 2, 6)} }},
			{"differentLogsFirstUse", nil, func(ls []*logDef) []*creq { return []*creq{upd(ls[0], tr, 0, 4), upd(ls[1], f5, 0, 7)} }},
			{"refusedVsOtherLog", store5b, func(ls []*logDef) []*creq { return []*creq{upd(ls[0], f5, 5, 8), upd(ls[1], tr, 2, 2)} }},
			{"updateVsReadOtherLog", store5b, func(ls []*logDef) []*creq { return []*creq{upd(ls[0], tr, 5, 8), read(ls[1])} }},
		}
		cases3 = []concCase{
			{"twoLogsThree", store5b, func(ls []*logDef) []*creq {
				return []*creq{upd(ls[0], tr, 5, 8), upd(ls[1], tr, 2, 6), upd(ls[0], tr, 5, 7)}
			}},
		}
	}
	scratch := scratchDir()
	defer os.RemoveAll(scratch)
	execNo := 0
	maxSched := pick(80, 4000)
	runAll := func(storeKind string, cs []concCase, limit, rndLimit int) {
		for _, c := range cs {
			choices := []int{}
			count := 0
			for {
				execNo++
				factors, hung := runConcExec(t, execNo, storeKind, scratch, c, key, wkeys, choices, nil)
				count++
				if hung || count >= limit {
					break
				}
				// next schedule in depth-first order
				next := -1
				for i := len(factors) - 1; i >= 0; i-- {
					ci := 0
					if i < len(choices) {
						ci = choices[i]
					}
					if ci+1 < factors[i] {
						next = i
						break
					}
				}
				if next < 0 {
					break
				}
				nc := make([]int, next+1)
				for i := 0; i <= next; i++ {
					if i < len(choices) {
						nc[i] = choices[i]
					}
				}
				nc[next]++
				choices = nc
			}
			// one-preemption family: thread p runs up to its k-th yield point, then the others run to completion one
			// after the other (in every order), then p finishes.  A request blocked on something that is not a storage
			// call (a mutex, a flight it joined, the single SQL connection) just stays in flight.
			nreq := len(c.reqs([]*logDef{{origin: "x", key: key}, {origin: "y", key: key}}))
			fam := 0
			hungFam := false
			for p := 0; p < nreq && !hungFam; p++ {
				var others []int
				for o := 0; o < nreq; o++ {
					if o != p {
						others = append(others, o)
					}
				}
				perms := [][]int{others}
				if len(others) == 2 {
					perms = append(perms, []int{others[1], others[0]})
				}
				for k := 1; k <= 7 && !hungFam; k++ {
					for _, perm := range perms {
						if fam >= limit {
							break
						}
						passed := 0
						p, k, perm := p, k, perm
						ch := func(step int, enabled []int, _ map[int]string) int {
							idx := func(t int) int {
								for i, e := range enabled {
									if e == t {
										return i
									}
								}
								return -1
							}
							if passed < k {
								if i := idx(p); i >= 0 {
									passed++
									return i
								}
							}
							for _, o := range perm {
								if i := idx(o); i >= 0 {
									return i
								}
							}
							return 0
						}
						execNo++
						_, hung := runConcExec(t, execNo, storeKind, scratch, c, key, wkeys, nil, ch)
						fam++
						if hung {
							hungFam = true
							break
						}
					}
				}
			}
			// random schedules
			rnd := 0
			for ; rnd < rndLimit && !hungFam; rnd++ {
				execNo++
				if _, hung := runConcExec(t, execNo, storeKind, scratch, c, key, wkeys, nil, func(_ int, enabled []int, _ map[int]string) int { return rng.Intn(len(enabled)) }); hung {
					break
				}
			}
			t.line("# conc case=%s store=%s schedules=%d preempt=%d random=%d", c.name, storeKind, count, fam, rnd)
		}
	}
	if onlyFree {
		// nothing scheduled: straight to the free-running rounds
	} else if thorough() {
		runAll("mem", cases, maxSched, 1000)
		runAll("sqlfile", cases, 300, 150)
		runAll("mem", cases3, 10000, 2000)
		runAll("sqlfile", cases3, 120, 80)
	} else {
		runAll("mem", cases, maxSched, 40)
		runAll("sqlfile", cases, 40, 20)
		runAll("mem", cases3, 60, 40)
	}
	// free-running rounds (no scheduler): many goroutines, outcomes still have to be linearizable
	rounds := pick(20, 1000)
	if onlyFree {
		rounds = pick(24, 300)
	}
	for r := 0; r < rounds; r++ {
		execNo++
		c := cases[rng.Intn(len(cases))]
		if rng.Intn(2) == 0 {
			c = cases3[rng.Intn(len(cases3))]
		}
		runConcExecFree(t, execNo, []string{"mem", "sqlfile"}[r%2], scratch, c, key, wkeys)
	}
}

// buildWitnesses makes one Witness per thread over the same persistence, each with its own gated wrapper.
func buildConc(t *traceWriter, execNo int, storeKind, scratch string, key logKey, wkeys []witKey) (*session, []*logDef, persistence.LogStatePersistence, func()) {
	defs := []*logDef{{origin: fmt.Sprintf("conc.example/%d/a", execNo), key: key}, {origin: fmt.Sprintf("conc.example/%d/b", execNo), key: key}}
	var inner persistence.LogStatePersistence
	closeFn := func() {}
	if storeKind == "mem" {
		inner = inmemory.NewPersistence()
	} else {
		path := filepath.Join(scratch, fmt.Sprintf("x%d.db", execNo))
		var db *sql.DB
		db, inner = openSQL(path)
		closeFn = func() { db.Close(); os.Remove(path) }
	}
	s := newSessionWith(t, storeKind, defs, wkeys, inner, nil)
	for _, l := range defs { // ground truth for the split-view monitor
		for _, b := range concBranches {
			s.truth(l, b, seq(1, 10))
		}
	}
	return s, defs, inner, closeFn
}

func (s *session) threadWitness(inner persistence.LogStatePersistence, ctl *lspCtl, tid int) *witness.Witness {
	return s.threadWitnessF(inner, ctl, func() int { return tid })
}

func (s *session) threadWitnessF(inner persistence.LogStatePersistence, ctl *lspCtl, tidF func() int) *witness.Witness {
	known := map[string]witness.LogInfo{}
	for _, l := range s.logs {
		known[l.id] = witness.LogInfo{SigV: l.rv, Origin: l.origin, Hasher: rfc6962.DefaultHasher}
	}
	var signers []note.Signer
	for _, k := range s.wkeys {
		signers = append(signers, k.signer)
	}
	w, err := witness.New(witness.Opts{Persistence: &wrapLSP{inner: inner, ctl: ctl, tid: tidF}, Signers: signers, KnownLogs: known})
	if err != nil {
		panic(err)
	}
	return w
}

func (s *session) statesOf() string {
	r := ""
	for i, l := range s.logs {
		if i > 0 {
			r += ";"
		}
		r += hx([]byte(l.id)) + ":" + s.readState(l.id)
	}
	return r
}

// concAdapter: when set, the requests of a concurrent execution go through the adapter omniwitness.Main puts between the
// witness and its feeders / bastion endpoint / distributor (one adapter for all of them, as in Main), not straight to
// the Witness: whatever the adapter keeps between calls is then exercised by the same schedules
var concAdapter feeder.Witness

func runReq(w *witness.Witness, r *creq, clock *int64) {
	r.start = atomic.AddInt64(clock, 1)
	if a := concAdapter; a != nil {
		if r.kind == "U" {
			r.ret, r.err = a.Update(bgctx, r.l.id, r.old, r.cp, r.proof)
		} else {
			r.ret, r.err = a.GetLatestCheckpoint(bgctx, r.l.id)
			if errors.Is(r.err, os.ErrNotExist) {
				r.err = status.Error(codes.NotFound, "no checkpoint (adapter)")
			}
		}
	} else if r.kind == "U" {
		r.ret, r.err = w.Update(bgctx, r.l.id, r.old, r.cp, r.proof)
	} else {
		r.ret, r.err = w.GetCheckpoint(r.l.id)
	}
	r.end = atomic.AddInt64(clock, 1)
}

func writeLin(t *traceWriter, s *session, execNo int, c concCase, storeKind string, init string, reqs []*creq, order []string, hung bool) {
	for i, r := range reqs {
		cls := errClass(r.err)
		if r.kind == "G" {
			cls = "none"
			if r.err != nil {
				if status.Code(r.err) == codes.NotFound {
					cls = "notFound"
				} else {
					cls = "other"
				}
			}
		}
		ret := "-"
		if r.ret != nil {
			ret = hx(r.ret)
		}
		// the verifier queries for the returned notes are recorded by the session's recording verifiers already
		t.line("LR %s tid=%d kind=%s log=%s old=%d cp=%s proof=%s start=%d end=%d err=%s ret=%s", s.id, i, r.kind,
			hx([]byte(r.l.id)), r.old, hx(r.cp), hxList(r.proof), r.start, r.end, cls, ret)
	}
	h := 0
	if hung {
		h = 1
	}
	final, loglist, aview := "!", "!", "-"
	if !hung {
		final = s.statesOf()
		// the list of known logs, with multiplicity (a log listed twice is not the list of logs with a checkpoint)
		if ls, err := s.w.GetLogs(); err == nil {
			sort.Strings(ls)
			hl := []string{}
			for _, x := range ls {
				hl = append(hl, hx([]byte(x)))
			}
			loglist = strings.Join(hl, ",")
			if len(hl) == 0 {
				loglist = "-"
			}
		}
		if a := linAdapter; a != nil {
			// what the adapter now reports as latest, per log, against what storage holds
			parts := []string{}
			for _, l := range s.logs {
				b, err := a.GetLatestCheckpoint(bgctx, l.id)
				v := "!"
				switch {
				case err == nil:
					v = hx(b)
				case errors.Is(err, os.ErrNotExist):
					v = "-"
				}
				parts = append(parts, hx([]byte(l.id))+":"+v)
			}
			aview = strings.Join(parts, ";")
		}
	}
	t.line("LIN %s case=%s store=%s init=%s final=%s hung=%d late=%d loglist=%s adapter=%s order=%s", s.id, c.name, storeKind, init, final, h, linLate, loglist, aview, fmt.Sprint(order))
}

func runConcExec(t *traceWriter, execNo int, storeKind, scratch string, c concCase, key logKey, wkeys []witKey, choices []int, ch chooser) ([]int, bool) {
	s, defs, inner, closeFn := buildConc(t, execNo, storeKind, scratch, key, wkeys)
	if c.setup != nil {
		c.setup(s, defs)
	}
	init := s.statesOf()
	reqs := c.reqs(defs)
	sc := newSched()
	ctl := &lspCtl{fail: map[string]bool{}, gate: sc.gate}
	var clock int64
	// ONE Witness serves all requests, as in production (anything it keeps in memory is shared between them); the
	// storage wrapper learns the request a call belongs to from the calling goroutine
	shared := s.threadWitnessF(inner, ctl, curTid)
	concAdapter = nil
	if execNo%2 == 1 {
		concAdapter = omniwitness.VerifNewAdapter(shared) // every other execution: through Main's adapter
	}
	for i, r := range reqs {
		go func(i int, r *creq) {
			g := gid()
			tidByG.Store(g, i)
			defer tidByG.Delete(g)
			sc.gate(i, "start") // a request may also start after another one has completed (real-time order)
			runReq(shared, r, &clock)
			sc.finish(i)
		}(i, r)
	}
	// in-memory store: nothing can block between two yield points, so the settle time is only a safety net (a loaded
	// machine must not make the scheduler move on while the released request is still running)
	settle := 300 * time.Millisecond
	if storeKind != "mem" {
		settle = 40 * time.Millisecond
	}
	var factors []int
	var order []string
	var ok bool
	if ch != nil {
		factors, order, ok = sc.runWith(len(reqs), ch, settle)
	} else {
		factors, order, ok = sc.run(len(reqs), choices, settle)
	}
	linLate = sc.late
	ctl.gate = nil // everything has finished (or hung): reads made for the write-up run freely
	linAdapter = concAdapter
	writeLin(t, s, execNo, c, storeKind, init, reqs, order, !ok)
	linLate, linAdapter, concAdapter = 0, nil, nil
	s.t.line("END %s", s.id)
	if ok {
		closeFn()
	}
	return factors, !ok
}

func runConcExecFree(t *traceWriter, execNo int, storeKind, scratch string, c concCase, key logKey, wkeys []witKey) {
	s, defs, inner, closeFn := buildConc(t, execNo, storeKind, scratch, key, wkeys)
	if c.setup != nil {
		c.setup(s, defs)
	}
	init := s.statesOf()
	base := c.reqs(defs)
	// several copies of each request
	var reqs []*creq
	for k := 0; k < 3; k++ {
		for _, r := range base {
			cp := *r
			reqs = append(reqs, &cp)
		}
	}
	ctl := &lspCtl{fail: map[string]bool{}}
	var clock int64
	var wg sync.WaitGroup
	shared := s.threadWitnessF(inner, ctl, func() int { return 0 }) // one Witness for all goroutines, as in production
	for _, r := range reqs {
		wg.Add(1)
		go func(r *creq, w *witness.Witness) { defer wg.Done(); runReq(w, r, &clock) }(r, shared)
	}
	ok := withDeadline(20*time.Second, wg.Wait)
	writeLin(t, s, execNo, c, storeKind, init, reqs, []string{"free"}, !ok)
	s.t.line("END %s", s.id)
	if ok {
		closeFn()
	}
}
