package main

// End-to-end variant of the bastion scenario: a stub bastion accepts the reverse TLS 1.3 connection the witness
// dials with the exported bastion.FeedBastion, and sends add-checkpoint requests down it over HTTP/2.  Everything
// between the socket and the handler (ALPN, http2.Server, the 16 KiB MaxBytesHandler, timeouts) is the real wiring
// of connectAndServe; the records are the same H records the in-process scenario writes (marked e2e=1).

import (
	"bytes"
	"context"
	"crypto/ecdsa"
	"crypto/ed25519"
	"crypto/elliptic"
	crand "crypto/rand"
	"crypto/tls"
	"crypto/x509"
	"crypto/x509/pkix"
	"encoding/pem"
	"fmt"
	"io"
	"math/big"
	"math/rand"
	"net"
	"net/http"
	"os"
	"path/filepath"
	"strings"
	"time"

	"github.com/transparency-dev/witness/internal/config"
	"github.com/transparency-dev/witness/internal/feeder/bastion"
	"github.com/transparency-dev/witness/omniwitness"
	"golang.org/x/net/http2"
)

func init() { scenarios["bastione2e"] = scenarioBastionE2E }

func scenarioBastionE2E(t *traceWriter, rng *rand.Rand) {
	scratch := scratchDir()
	defer os.RemoveAll(scratch)
	// the stub bastion's certificate; FeedBastion dials with the system roots, which are pointed at it
	srvKey, err := ecdsa.GenerateKey(elliptic.P256(), crand.Reader)
	if err != nil {
		panic(err)
	}
	tmpl := &x509.Certificate{
		SerialNumber: big.NewInt(1), Subject: pkix.Name{CommonName: "stub bastion"},
		NotBefore: time.Now().Add(-time.Hour), NotAfter: time.Now().Add(24 * time.Hour),
		KeyUsage: x509.KeyUsageDigitalSignature | x509.KeyUsageCertSign, ExtKeyUsage: []x509.ExtKeyUsage{x509.ExtKeyUsageServerAuth},
		BasicConstraintsValid: true, IsCA: true, IPAddresses: []net.IP{net.ParseIP("127.0.0.1")},
	}
	der, err := x509.CreateCertificate(crand.Reader, tmpl, tmpl, srvKey.Public(), srvKey)
	if err != nil {
		panic(err)
	}
	caFile := filepath.Join(scratch, "ca.pem")
	if err := os.WriteFile(caFile, pem.EncodeToMemory(&pem.Block{Type: "CERTIFICATE", Bytes: der}), 0o600); err != nil {
		panic(err)
	}
	emptyDir := filepath.Join(scratch, "certs")
	_ = os.Mkdir(emptyDir, 0o700)
	os.Setenv("SSL_CERT_FILE", caFile)
	os.Setenv("SSL_CERT_DIR", emptyDir)
	ln, err := tls.Listen("tcp", "127.0.0.1:0", &tls.Config{
		Certificates: []tls.Certificate{{Certificate: [][]byte{der}, PrivateKey: srvKey}},
		NextProtos:   []string{"bastion/0"}, ClientAuth: tls.RequireAnyClientCert, MinVersion: tls.VersionTLS13,
	})
	if err != nil {
		panic(err)
	}
	defer ln.Close()

	w := &world{rng: rng, t: t}
	w.otherKey = genLogKey(rng, "e2e-other")
	keyA := genLogKey(rng, "e2e-log-a")
	w.wk = []witKey{genWitKey(rng, "e2ewit", "ed25519"), genWitKey(rng, "e2ewit", "cosigv1")}
	lss := []*logState{
		w.newLogState("e2e.example/a", keyA, false),
		w.newLogState("e2e.example/b", keyA, false),
	}
	var defs []*logDef
	for _, ls := range lss {
		defs = append(defs, ls.l)
	}
	s := newSession(t, "sql", defs, w.wk)
	wvIdx := 1
	rv := &recVerifier{inner: w.wk[wvIdx].verif, vid: newVid("B"), t: t}
	var logs []config.Log
	for _, l := range defs {
		logs = append(logs, config.Log{ID: l.id, Origin: l.origin, Verifier: l.key.verif})
	}
	t.line("HCFG %s wv=%d vid=%s", s.id, wvIdx, rv.vid)
	_, bastionKey, err := ed25519.GenerateKey(crand.Reader)
	if err != nil {
		panic(err)
	}
	ctx, cancel := context.WithCancel(context.Background())
	defer cancel()
	go func() {
		_ = bastion.FeedBastion(ctx, bastion.Config{
			Addr: ln.Addr().String(), Logs: logs, BastionKey: bastionKey, WitnessVerifier: rv,
			Limits: bastion.RequestLimits{TotalPerSecond: 10000},
		}, omniwitness.VerifNewAdapter(s.w))
	}()
	// the witness calls in (connectAndServe waits for its 5 s ticker first)
	type accepted struct {
		c   net.Conn
		err error
	}
	ch := make(chan accepted, 1)
	go func() {
		// the first connection attempt is cut off before the TLS handshake (a bastion that is restarting): the witness has to
		// shrug that off and call in again
		if c, err := ln.Accept(); err == nil {
			if tc, ok := c.(*tls.Conn); ok {
				_ = tc.NetConn().Close()
			} else {
				_ = c.Close()
			}
		}
		c, err := ln.Accept()
		ch <- accepted{c, err}
	}()
	var conn net.Conn
	select {
	case a := <-ch:
		if a.err != nil {
			t.line("E2E connect=0 err=%s", hx([]byte(a.err.Error())))
			s.end()
			return
		}
		conn = a.c
	case <-time.After(40 * time.Second):
		t.line("E2E connect=0 err=%s", hx([]byte("the witness never connected to the bastion")))
		s.end()
		return
	}
	defer conn.Close()
	hctx, hcancel := context.WithTimeout(ctx, 10*time.Second)
	herr := conn.(*tls.Conn).HandshakeContext(hctx)
	hcancel()
	var cc *http2.ClientConn
	if herr == nil {
		cc, herr = (&http2.Transport{}).NewClientConn(conn)
	}
	if herr != nil {
		t.line("E2E connect=0 err=%s", hx([]byte(herr.Error())))
		s.end()
		return
	}
	st := conn.(*tls.Conn).ConnectionState()
	t.line("E2E connect=1 tls13=%d alpn=%s", b2i(st.Version == tls.VersionTLS13), hx([]byte(st.NegotiatedProtocol)))

	bs := &bastionSession{session: s, wvRec: rv, lss: lss, allowN: -1, e2e: 1}
	bs.doReq = func(body []byte) (int, string, []byte, bool) {
		var rdr io.Reader = bytes.NewReader(body)
		if rng.Intn(2) == 0 {
			rdr = struct{ io.Reader }{rdr} // no declared length: streamed, as HTTP/2 clients send bodies of unknown size
		}
		rctx, rcancel := context.WithTimeout(ctx, 10*time.Second)
		defer rcancel()
		req, err := http.NewRequestWithContext(rctx, http.MethodPost, "https://witness.invalid/add-checkpoint", rdr)
		if err != nil {
			return 0, "", nil, false
		}
		resp, err := cc.RoundTrip(req)
		if err != nil {
			return 0, "", nil, false
		}
		defer resp.Body.Close()
		rb, _ := io.ReadAll(resp.Body)
		return resp.StatusCode, resp.Header.Get("Content-Type"), rb, true
	}
	n := pick(40, 400)
	for i := 0; i < n && !bs.dead; i++ {
		ls := lss[rng.Intn(len(lss))]
		if i%8 == 5 {
			bs.oversize(w, ls, i)
			continue
		}
		bs.oneRequest(w, ls)
	}
	bs.end()
}

// oversize sends a request around the 16 KiB body cap: an honest, log-signed checkpoint whose extension lines
// bring the request body to just below, exactly at, or above the cap.
func (b *bastionSession) oversize(w *world, ls *logState, i int) {
	l := ls.l
	cur := ls.cur
	if cur == nil {
		cur = ls.branches[0]
	}
	stored := uint64(0)
	if ls.has {
		stored = ls.curSize
	}
	size := stored
	if !ls.has {
		size = 1 + uint64(w.rng.Intn(4))
	}
	const capBytes = 16 * 1024
	mk := func(extBytes int) []byte {
		ext := []string{}
		for extBytes > 0 {
			k := 64
			if extBytes < k {
				k = extBytes
			}
			if k < 2 {
				k = 2
			}
			ext = append(ext, strings.Repeat("x", k-1))
			extBytes -= k
		}
		cp := signNote(cpText(l.origin, size, cur.root(size), ext...), l.key.signer)
		return writeBody(stored, [][]byte{}, cp)
	}
	base := len(mk(0))
	target := []int{capBytes - 1, capBytes, capBytes + 1, capBytes + 700, 3 * capBytes}[(i/8)%5]
	body := mk(target - base)
	// the extension lines are sized so that the body has exactly the target length (lines of at least 2 bytes)
	for d := 0; len(body) != target && d < 8; d++ {
		body = mk(target - base + (target - len(body)))
	}
	expect := 200
	if len(body) > capBytes {
		expect = 400
	}
	st := b.serve(body, fmt.Sprintf("bodysize.%d", len(body)), expect, "")
	if st == 200 {
		ls.has, ls.curSize, ls.cur = true, size, cur
	}
}
