package main

// The add-checkpoint handler in a process of its own, wired as the production binary wires it (Prometheus
// counters), hit by odd unknown origins one at a time and by many requests at once: nothing a client sends
// may make the handler panic or the process die (a Go runtime "fatal error", e.g. concurrent map writes,
// cannot be recovered from: the witness would be gone).

import (
	"bytes"
	"fmt"
	"math/rand"
	"net/http"
	"net/http/httptest"
	"os"
	"os/exec"
	"strings"
	"sync"
	"time"

	"github.com/transparency-dev/witness/internal/config"
	"github.com/transparency-dev/witness/internal/feeder/bastion"
	"github.com/transparency-dev/witness/omniwitness"
	"golang.org/x/time/rate"
)

func init() {
	scenarios["bastionproc"] = scenarioBastionProc
	scenarios["bastionprocchild"] = scenarioBastionProcChild
}

func scenarioBastionProc(t *traceWriter, rng *rand.Rand) {
	cmd := exec.Command(os.Args[0], "-scenario", "bastionprocchild", "-out", os.DevNull, "-seed", fmt.Sprint(*flagSeed), "-tier", *flagTier)
	cmd.Env = append(os.Environ(), "VERIF_METRICS=prom")
	var out bytes.Buffer
	cmd.Stdout, cmd.Stderr = &out, &out
	done := make(chan error, 1)
	if err := cmd.Start(); err != nil {
		panic(err)
	}
	go func() { done <- cmd.Wait() }()
	died, msg := 0, ""
	select {
	case err := <-done:
		if err != nil {
			died = 1
			msg = err.Error()
		}
	case <-time.After(120 * time.Second):
		_ = cmd.Process.Kill()
		died, msg = 1, "did not finish"
	}
	o := out.String()
	if i := strings.Index(o, "fatal error:"); i >= 0 {
		msg += " " + strings.SplitN(o[i:], "\n", 2)[0]
	} else if i := strings.Index(o, "panic:"); i >= 0 {
		msg += " " + strings.SplitN(o[i:], "\n", 2)[0]
	}
	for _, l := range grab(o, "BP ") {
		t.line("BP %s", l)
	}
	t.line("BPX died=%d msg=%s", died, hx([]byte(strings.TrimSpace(msg))))
}

func scenarioBastionProcChild(t *traceWriter, rng *rand.Rand) {
	keyA := genLogKey(rng, "bp-log")
	wk := []witKey{genWitKey(rng, "bpwit", "cosigv1")}
	defs := []*logDef{{origin: "bp.example/a", key: keyA}, {origin: "bp.example/b", key: keyA}}
	s := newSession(t, "mem", defs, wk)
	var logs []config.Log
	for _, l := range defs {
		logs = append(logs, config.Log{ID: l.id, Origin: l.origin, Verifier: l.key.verif})
	}
	h := bastion.VerifNewHandler(bastion.Config{Logs: logs, WitnessVerifier: wk[0].verif, Limits: bastion.RequestLimits{TotalPerSecond: rate.Inf}}, omniwitness.VerifNewAdapter(s.w))
	tr := newExplicitBranch("trunk", 9, nil, 0)
	one := func(origin string) (status int, panicked bool) {
		cp := signNote(cpText(origin, 3, tr.root(3)), keyA.signer)
		body := writeBody(0, [][]byte{}, cp)
		rec := httptest.NewRecorder()
		func() {
			defer func() {
				if r := recover(); r != nil {
					panicked = true
				}
			}()
			h.ServeHTTP(rec, httptest.NewRequest(http.MethodPost, "/", bytes.NewReader(body)))
		}()
		return rec.Code, panicked
	}
	// (a) one at a time: origins that are unknown and awkward as label values, map keys or log lines
	long := strings.Repeat("x", 61)
	origins := []string{"nobody.example/x", "", " ", long + "ééé", long + "xétail", long + "xxé", strings.Repeat("é", 40), long + "\xff\xfe", "a\tb", "a\x00b",
		strings.Repeat("y", 5000), "emoji-\U0001F600-" + long, long[:60] + "\U0001F600\U0001F600", "%s%d%v", "{{.}}", `quote"back\slash`, "nl-in-label x"}
	panics, odd := 0, 0
	for _, o := range origins {
		st, p := one(o)
		if p {
			panics++
		} else if st != 404 && st != 400 && st != 403 {
			odd++
		}
	}
	fmt.Printf("BP phase=sequential requests=%d panics=%d unexpected=%d\n", len(origins), panics, odd)
	// (b) many at once: distinct unknown origins and the configured ones, interleaved
	var wg sync.WaitGroup
	var mu sync.Mutex
	cpanics, total := 0, 0
	workers, per := 16, pick(400, 4000)
	for w := 0; w < workers; w++ {
		wg.Add(1)
		go func(w int) {
			defer wg.Done()
			for i := 0; i < per; i++ {
				o := fmt.Sprintf("burst.example/%d/%d", w, i)
				if i%7 == 0 {
					o = defs[i%2].origin
				}
				_, p := one(o)
				mu.Lock()
				total++
				if p {
					cpanics++
				}
				mu.Unlock()
			}
		}(w)
	}
	wg.Wait()
	fmt.Printf("BP phase=concurrent requests=%d panics=%d unexpected=0\n", total, cpanics)
}
