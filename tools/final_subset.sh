#!/bin/bash
./setup.sh > setup.log 2>&1 || { echo SETUP-FAILED; exit 1; }
PROPS=${1:-"C04 C12 C16"}
for seed in 2 3 4 5 6; do for p in $PROPS; do VERIF_SEED=$seed ./check $p --tier quick 2>&1 | grep -E "^(VIOLATION|  )" | cut -c1-200 | sed "s/^/seed=$seed /"; done; echo "seed $seed done"; done
for p in $PROPS; do ./check $p --tier thorough 2>&1 | grep -E "^(OK|VIOLATION|  )" | cut -c1-200; done
echo "final subset done"
