#!/bin/bash
# thorough tier of every property on the unchanged tree
./setup.sh > setup.log 2>&1 || { echo SETUP-FAILED; tail -5 setup.log; exit 1; }
for p in C01 C02 C03 C04 C05 C06 C07 C08 C09 C10 C11 C12 C13 C14 C15 C16 C17 C18 C19 C20; do
  /usr/bin/time -f "$p thorough %es" ./check $p --tier thorough 2>&1 | grep -E "^(OK|VIOLATION|KNOWN|  |C[0-9]+ thorough)" | cut -c1-220
done
echo "thorough sweep done"
