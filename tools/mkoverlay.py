#!/usr/bin/env python3
import json, os, glob
rep = {}
for f in glob.glob('/verif/harness/*.go'):
    rep['/repo/internal/zzverif/' + os.path.basename(f)] = f
for d in glob.glob('/verif/harness/shims/*'):
    # shims/<path with __ for />/file.go  -> /repo/<path>/zz_verif_<file>.go
    pkg = os.path.basename(d).replace('__', '/')
    for f in glob.glob(d + '/*.go'):
        rep['/repo/' + pkg + '/zz_verif_' + os.path.basename(f)] = f
os.makedirs('/verif/build', exist_ok=True)
json.dump({'Replace': rep}, open('/verif/build/overlay.json', 'w'), indent=1)
