#!/usr/bin/env python3
import json, os, glob, sys
ROOT = os.path.dirname(os.path.dirname(os.path.abspath(__file__)))
REPO = os.environ.get('VERIF_REPO', '/repo')
rep = {}
for f in glob.glob(ROOT + '/harness/*.go'):
    rep[REPO + '/internal/zzverif/' + os.path.basename(f)] = f
for d in glob.glob(ROOT + '/harness/shims/*'):
    # shims/<path with __ for />/file.go  -> /repo/<path>/zz_verif_<file>.go
    pkg = os.path.basename(d).replace('__', '/')
    for f in glob.glob(d + '/*.go'):
        rep[REPO + '/' + pkg + '/zz_verif_' + os.path.basename(f)] = f
os.makedirs(ROOT + '/build', exist_ok=True)
# the adapter shim builds the value Main builds: when the adapter's methods have pointer receivers in the tree under
# check (a refactoring that leaves behaviour alone), the shim takes its address as Main then does
import re
try:
    om = open(REPO + '/omniwitness/omniwitness.go').read()
    key = REPO + '/omniwitness/zz_verif_export.go'
    if key in rep and re.search(r'func \(\w+ \*witnessAdapter\)', om):
        src = open(rep[key]).read().replace('return witnessAdapter{w: w}', 'return &witnessAdapter{w: w}')
        adapted = ROOT + '/build/shim-omniwitness-export-%d.go' % os.getppid()
        open(adapted, 'w').write(src)
        rep[key] = adapted
except OSError:
    pass
out = sys.argv[1] if len(sys.argv) > 1 else ROOT + '/build/overlay.json'
json.dump({'Replace': rep}, open(out, 'w'), indent=1)
