#!/usr/bin/env python3
import json, os, glob, sys
ROOT = os.path.dirname(os.path.dirname(os.path.abspath(__file__)))
REPO = os.environ.get('VERIF_REPO', '/repo')
rep = {}
for f in glob.glob(ROOT + '/harness/*.go'):
    rep[REPO + '/internal/zzverif/' + os.path.basename(f)] = f
for d in glob.glob(ROOT + '/harness/shims/*'):
    # shims/<path with __ for />/file.go  -> /repo/<path>/zz_verif_<file>.go
    pkg = os.path.basename(d).replace('__', '/')
    for f in glob.glob(d + '/*.go'):
        rep[REPO + '/' + pkg + '/zz_verif_' + os.path.basename(f)] = f
os.makedirs(ROOT + '/build', exist_ok=True)
out = sys.argv[1] if len(sys.argv) > 1 else ROOT + '/build/overlay.json'
json.dump({'Replace': rep}, open(out, 'w'), indent=1)
