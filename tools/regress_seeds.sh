#!/bin/bash
# regress_seeds.sh: every kept seeded change must still be reported by the checks recorded as detecting it
# (quick tier), and every harmless rewrite must leave all 20 checks quiet.  Applies each patch to /repo and
# undoes it straight afterwards; nothing else may touch /repo while this runs.
cd "$(dirname "$0")/.."
ROOT=$(pwd)
fail=0
for d in seeded/*/; do
  name=$(basename $d)
  P=$ROOT/$d/patch.diff
  [ -f "$P" ] || continue
  if ! git -C /repo apply --check "$P" 2>/dev/null; then echo "SEED $name: patch no longer applies"; fail=1; continue; fi
  git -C /repo apply "$P"
  if [[ $name == harmless-* ]]; then
    props="C01 C02 C03 C04 C05 C06 C07 C08 C09 C10 C11 C12 C13 C14 C15 C16 C17 C18 C19 C20"
    for p in $props; do
      out=$(./check $p --tier quick 2>&1)
      if echo "$out" | grep -q "^VIOLATION"; then echo "HARMLESS $name: $p ALARM: $(echo "$out" | grep -A1 '^VIOLATION' | tr '\n' ' ' | cut -c1-200)"; fail=1; fi
    done
    echo "HARMLESS $name done"
  else
    props=$(python3 -c "import json;print(' '.join(json.load(open('$d/meta.json'))['confirmed']['detected_by']))")
    for p in $props; do
      out=$(./check $p --tier quick 2>&1)
      if echo "$out" | grep -q "^VIOLATION property=$p"; then
        echo "SEED $name: $p detects: $(echo "$out" | grep -A1 '^VIOLATION' | tail -1 | cut -c1-160)"
      else echo "SEED $name: $p MISSED"; fail=1; fi
    done
  fi
  git -C /repo apply -R "$P" 2>/dev/null; git -C /repo checkout -q -- .
done
git -C /repo status --short
echo "regress done fail=$fail"
exit $fail
