#!/bin/bash
# regress_seeds.sh [P]: every kept seeded change must still be reported by the checks recorded as detecting it
# (quick tier), and every harmless rewrite must leave all 20 checks quiet.  Each patch is applied to its own
# scratch worktree (tools/try_seed_par.sh, VERIF_REPO); /repo itself is never touched.  P = parallel jobs (4).
cd "$(dirname "$0")/.."
ROOT=$(pwd)
P=${1:-4}
OUT=$ROOT/build/regress; rm -rf "$OUT"; mkdir -p "$OUT"
ALL="C01 C02 C03 C04 C05 C06 C07 C08 C09 C10 C11 C12 C13 C14 C15 C16 C17 C18 C19 C20"
for d in seeded/*/; do
  name=$(basename $d)
  [ -f "$d/patch.diff" ] || continue
  if [[ $name == harmless-* ]]; then props=$ALL
  else props=$(python3 -c "import json;print(' '.join(json.load(open('$d/meta.json'))['confirmed']['detected_by']))"); fi
  echo "$name $props"
done | xargs -P "$P" -L 1 bash -c 'n=$0; bash '"$ROOT"'/tools/try_seed_par.sh '"$ROOT"'/seeded/$n/patch.diff "$@" > '"$OUT"'/$n.txt 2>&1'
fail=0
for f in "$OUT"/*.txt; do
  name=$(basename $f .txt)
  if [[ $name == harmless-* ]]; then
    if grep -q "VIOLATION\|patch does not apply" $f; then echo "HARMLESS $name ALARM: $(grep -A1 VIOLATION $f | head -2 | tr '\n' ' ' | cut -c1-220)"; fail=1; else echo "HARMLESS $name quiet ($(grep -c 'OK property' $f) checks)"; fi
  else
    for p in $(python3 -c "import json;print(' '.join(json.load(open('seeded/$name/meta.json'))['confirmed']['detected_by']))"); do
      if grep -q "^\[$p\] VIOLATION property=$p" $f; then echo "SEED $name: $p detects: $(grep -A1 "^\[$p\] VIOLATION" $f | tail -1 | cut -c1-150)"
      else echo "SEED $name: $p MISSED"; fail=1; fi
    done
  fi
done
echo "regress done fail=$fail"
exit $fail
