#!/usr/bin/env python3
"""writes MANIFEST.json from lib/props.py + lib/levels.json (texts per property)"""
import json, os, sys
ROOT = os.path.dirname(os.path.dirname(os.path.abspath(__file__)))
sys.path.insert(0, os.path.join(ROOT, 'lib'))
import props as P
texts = json.load(open(os.path.join(ROOT, 'lib', 'levels.json')))
man = json.load(open(os.path.join(ROOT, 'MANIFEST.json')))
all_ids = [json.loads(l)['id'] for l in open(os.path.join(ROOT, 'properties.jsonl'))]
checks = []
na = []
for pid in all_ids:
    if pid in P.PROPS and pid in texts and not texts[pid].get('not_applicable'):
        t = texts[pid]
        checks.append({
            'property_id': pid,
            'quick_cmd': f'./check {pid} --tier quick',
            'thorough_cmd': f'./check {pid} --tier thorough',
            'evidence_file': f'/verif/evidence/{pid}.json',
            'replay_cmd_template': f'./check {pid} --replay {{path}}',
            'engine': 'lean-model',
            'level_claimed': {'category': 'proof', 'text': t['text'], 'design_ref': f'DESIGN.md §5 {pid}'},
            'level_note': t['note'],
            'technique': t.get('technique', 'Lean 4 theorems over a hand-written model + differential correspondence check against the Go code'),
        })
    else:
        na.append({'property_id': pid, 'reason': texts.get(pid, {}).get('not_applicable', 'check not built yet in this round; see DESIGN.md §5 for the plan')})
man['checks'] = checks
man['not_applicable'] = na
json.dump(man, open(os.path.join(ROOT, 'MANIFEST.json'), 'w'), indent=1)
print(f'{len(checks)} checks, {len(na)} not claimed')
