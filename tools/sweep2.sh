#!/bin/bash
# quick tier on several seeds on the unchanged tree, then the seed regression
./setup.sh > setup.log 2>&1 || { echo SETUP-FAILED; tail -5 setup.log; exit 1; }
git -C /repo status --short
for seed in 1 2 3 4 5 6; do
  for p in C01 C02 C03 C04 C05 C06 C07 C08 C09 C10 C11 C12 C13 C14 C15 C16 C17 C18 C19 C20; do
    VERIF_SEED=$seed ./check $p --tier quick 2>&1 | grep -E "^(VIOLATION|  )" | cut -c1-220 | sed "s/^/seed=$seed /"
  done
  echo "seed $seed done"
done
bash tools/regress_seeds.sh
