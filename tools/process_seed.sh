#!/bin/bash
# process_seed.sh <round-worktree name, e.g. r5-C07> <k> <props...>: confirm seed k of that worktree, then try it
# against the named checks (scratch worktree, never /repo).  Output in /tmp/wt/proc/<name>-<k>.txt
N=$1; K=$2; shift 2
mkdir -p /tmp/wt/proc
OUT=/tmp/wt/proc/$N-$K.txt
{
  echo "### confirm"
  bash /verif/tools/confirm_seed.sh /tmp/wt/$N /tmp/wt/$N/seed_$K 2>&1 | tail -25
  echo "### try"
  bash /verif/tools/try_seed_par.sh /tmp/wt/$N/seed_$K/patch.diff "$@" 2>&1
} > $OUT 2>&1
echo "done $N-$K"
