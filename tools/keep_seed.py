#!/usr/bin/env python3
"""keep_seed.py <worktree seed dir> <name> <detected_by comma list> <note>: copy a confirmed seeded change into /verif/seeded/<name>/"""
import sys, os, json, shutil, glob
sd, name, det, note = sys.argv[1:5]
dst = f'/verif/seeded/{name}'
os.makedirs(dst, exist_ok=True)
shutil.copy(os.path.join(sd, 'patch.diff'), dst)
meta = json.load(open(os.path.join(sd, 'meta.json')))
for f in glob.glob(os.path.join(sd, '**', '*.go'), recursive=True):
    # demo files are stored with a .txt suffix so that no Go tool ever picks them up as part of a package
    shutil.copy(f, os.path.join(dst, os.path.basename(f) + '.txt'))
meta['confirmed'] = {
    'how': 'tools/confirm_seed.sh in a scratch worktree at /repo HEAD: patch applies, go build ./... ok, unedited suite passes with the patch, demo passes on the clean tree and fails with the patch',
    'checks_run': 'tools/try_seed.sh (git -C /repo apply, ./check <id> --tier quick, git -C /repo checkout -- .)',
    'detected_by': [d for d in det.split(',') if d],
    'note': note,
}
json.dump(meta, open(os.path.join(dst, 'meta.json'), 'w'), indent=1)
print('kept', dst)
