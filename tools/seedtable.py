#!/usr/bin/env python3
"""seedtable.py: print the markdown table of /verif/seeded (used for DESIGN.md §0.4)."""
import json, glob, os, re
rows = []
for d in sorted(glob.glob('/verif/seeded/*/')):
    name = os.path.basename(d.rstrip('/'))
    m = json.load(open(d + 'meta.json'))
    c = m.get('confirmed', {})
    summ = m.get('summary') or m.get('change') or ''
    if isinstance(summ, dict):
        summ = '; '.join(f'{k}: {v}' for k, v in summ.items())
    summ = str(summ).replace('|', '/').replace('\n', ' ')
    rows.append((name, summ[:150], ','.join(c.get('detected_by', [])) or '(none: no alarm expected)', (c.get('note') or '').replace('|', '/')))
print('| seed | change | caught by | note |\n|---|---|---|---|')
for r in rows:
    print('| %s | %s | %s | %s |' % r)
