#!/bin/bash
# confirm_seed.sh <worktree> <seed_dir>: in the scratch worktree (at /repo's HEAD) confirm that the patch applies,
# builds, passes the unedited suite, and that the demo fails with it and passes without it.
set -u
WT=$1; SD=$2
export GOFLAGS=-mod=mod GOPROXY=off GOSUMDB=off GOTOOLCHAIN=local
cd "$WT" || exit 2
git checkout -q --detach main 2>/dev/null; git checkout -q -- . 
DEMO=$(python3 -c "import json;print(json.load(open('$SD/meta.json'))['demo_path'])")
DFILE=$(find $SD -name '*.go' | head -1)
DREL=${DFILE#$SD/}
RUN=$(python3 -c "
import json,re
m=json.load(open('$SD/meta.json'))
c=m['demo_cmd']
print(c)")
mv $WT/seed_1 /tmp/wt/.hold_seed_1_$$ 2>/dev/null; mv $WT/seed_2 /tmp/wt/.hold_seed_2_$$ 2>/dev/null
SDH=/tmp/wt/.hold_$(basename $SD)_$$
cp "$SDH/$DREL" "$WT/$DEMO"
echo "== clean tree demo"; (cd $WT && eval "$RUN" 2>&1 | tail -3)
CLEAN=$?
git apply "$SDH/patch.diff" 2>/dev/null || git apply --3way "$SDH/patch.diff" || { echo "PATCH DOES NOT APPLY"; }
echo "== build+suite with patch"; go build ./... 2>&1 | tail -3; rm -f "$WT/$DEMO"; go test -vet=off -count=1 ./... 2>&1 | grep -v "no test files" | grep -v "^ok" | tail -5; echo "suite rc=$?"
cp "$SDH/$DREL" "$WT/$DEMO"
echo "== patched tree demo"; (cd $WT && eval "$RUN" 2>&1 | tail -4)
rm -f "$WT/$DEMO"; git reset -q; git checkout -q -- .; git clean -fdq -e seed_1 -e seed_2
mv /tmp/wt/.hold_seed_1_$$ $WT/seed_1 2>/dev/null; mv /tmp/wt/.hold_seed_2_$$ $WT/seed_2 2>/dev/null
git status --short | head -5
