#!/bin/bash
# process_wt.sh <worktree name> <props for seed 1, comma separated> <props for seed 2>: both seeds of one worktree, one after the other
N=$1
bash /verif/tools/process_seed.sh $N 1 ${2//,/ }
bash /verif/tools/process_seed.sh $N 2 ${3//,/ }
