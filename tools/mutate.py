#!/usr/bin/env python3
"""mutate.py [--workers N] [--files f1,f2,...] [--limit K]: a mutation campaign against the checks.

For every single-token change (operators below) to a non-test Go file that a property anchors in:
  1. apply it in a scratch worktree of /repo (never /repo itself), `go build ./...` and the unedited suite;
     changes that do not compile or that the suite already rejects are dropped (they are not "realistic changes
     that still pass the existing tests");
  2. run the quick checks of the properties anchored in that file (VERIF_REPO=<scratch>), stopping at the first
     that reports a VIOLATION;
  3. a change that no check reports is a SURVIVOR: either an equivalent rewrite (then all is well: no alarm on code
     where the property holds) or a blind spot to look at by hand.
Results: build/mutation/results.jsonl (one line per mutant), survivors' diffs in build/mutation/survivors/.
The campaign is a development tool (it found scenario gaps); it is not part of any registered check.
"""
import sys, os, re, json, subprocess, shutil, hashlib, concurrent.futures as cf, threading

ROOT = os.path.dirname(os.path.dirname(os.path.abspath(__file__)))
OUT = os.path.join(ROOT, 'build', 'mutation')
ENV = dict(os.environ, GOFLAGS='-mod=mod', GOPROXY='off', GOSUMDB='off', GOTOOLCHAIN='local')


def anchored():
    m = {}
    for line in open(os.path.join(ROOT, 'properties.jsonl')):
        p = json.loads(line)
        for f in p['anchors']['files']:
            if f.endswith('.go'):
                m.setdefault(f, []).append(p['id'])
    return m


REL = [(' == ', ' != '), (' != ', ' == '), (' < ', ' <= '), (' <= ', ' < '), (' > ', ' >= '), (' >= ', ' > '),
       (' && ', ' || '), (' || ', ' && ')]


def mutants_of(path, src):
    lines = src.split('\n')
    out = []
    in_block_comment = False
    in_raw = False
    for i, ln in enumerate(lines):
        st = ln.strip()
        if in_block_comment:
            if '*/' in st:
                in_block_comment = False
            continue
        if st.startswith('/*'):
            in_block_comment = '*/' not in st
            continue
        if ln.count('`') % 2 == 1:
            in_raw = not in_raw
            continue
        if in_raw or not st or st.startswith('//') or st.startswith('import') or st.startswith('package'):
            continue
        code = ln.split('//')[0] if '"' not in ln else ln
        # 1. relational / logical operators (outside string literals, roughly)
        for a, b in REL:
            for m in re.finditer(re.escape(a), code):
                pre = code[:m.start()]
                if pre.count('"') % 2 == 1:
                    continue
                out.append((i, f'{a.strip()}->{b.strip()}', code[:m.start()] + b + code[m.end():] + ln[len(code):]))
        # 2. condition forced false
        m = re.match(r'^(\s*)(?:\} else )?if (.*) \{$', code)
        if m and '; ' not in m.group(2):
            out.append((i, 'if-false', re.sub(r'if (.*) \{$', lambda mm: 'if false && (' + mm.group(1) + ') {', code, count=1)))
        # 3. statement deletion: plain calls and defers
        if re.match(r'^\s*(defer )?[A-Za-z_][\w\.]*\(.*\)$', code) and not st.startswith('return') and 'klog.' not in st:
            out.append((i, 'delete-call', re.match(r'^\s*', code).group(0) + '// deleted'))
        # 4. first return value dropped
        m = re.match(r'^(\s*)return ([A-Za-z_]\w*), (.+)$', code)
        if m and m.group(2) not in ('nil', 'true', 'false', 'err'):
            out.append((i, 'return-nil-first', f'{m.group(1)}return nil, {m.group(3)}'))
        # 5. off by one on small integer literals in comparisons
        m = re.search(r'( [<>=!]=? )(\d+)\b', code)
        if m and code[:m.start()].count('"') % 2 == 0:
            n = int(m.group(2))
            out.append((i, 'const+1', code[:m.start(2)] + str(n + 1) + code[m.end(2):]))
    res = []
    for (i, op, newline) in out:
        if newline == lines[i]:
            continue
        new = lines[:i] + [newline] + lines[i + 1:]
        res.append({'file': path, 'line': i + 1, 'op': op, 'old': lines[i].strip(), 'new': newline.strip(), 'src': '\n'.join(new)})
    return res


def sh(cmd, cwd=None, env=None, timeout=1800):
    try:
        r = subprocess.run(cmd, cwd=cwd, env=env or ENV, stdout=subprocess.PIPE, stderr=subprocess.STDOUT, text=True, timeout=timeout)
        return r.returncode, r.stdout
    except subprocess.TimeoutExpired as e:
        return 124, (e.stdout or '') if isinstance(e.stdout, str) else ''


def worker_dir(k):
    wt = f'/tmp/wt/mut-{k}'
    if not os.path.isdir(wt):
        for attempt in range(4):
            rc, _ = sh(['git', '-C', '/repo', 'worktree', 'add', '-q', '--detach', wt, 'HEAD'])
            if rc == 0:
                break
    return wt


lock = threading.Lock()
slots = []


def run_mutant(mu, props):
    with lock:
        k = slots.pop()
    try:
        wt = worker_dir(k)
        sh(['git', 'checkout', '-q', '--', '.'], cwd=wt)
        with open(os.path.join(wt, mu['file']), 'w') as fh:
            fh.write(mu['src'])
        rc, out = sh(['go', 'build', './...'], cwd=wt, timeout=300)
        if rc != 0:
            return dict(mu, src=None, verdict='no-compile')
        rc, out = sh(['go', 'vet', './' + os.path.dirname(mu['file'])], cwd=wt, timeout=300)
        if rc != 0:
            return dict(mu, src=None, verdict='vet-rejects')
        rc, out = sh(['go', 'test', '-vet=off', '-count=1', './...'], cwd=wt, timeout=600)
        if rc != 0:
            return dict(mu, src=None, verdict='suite-kills')
        rc, diff = sh(['git', 'diff'], cwd=wt)
        detected = None
        for p in props:
            e = dict(ENV, VERIF_REPO=wt)
            rc, out = sh([os.path.join(ROOT, 'check'), p, '--tier', 'quick'], cwd=ROOT, env=e, timeout=1500)
            if 'VIOLATION' in out:
                first = [l for l in out.split('\n') if l.startswith('VIOLATION') or l.startswith('  ')][:2]
                detected = {'by': p, 'how': ' | '.join(x.strip() for x in first)[:300]}
                break
        shutil.rmtree(os.path.join(ROOT, 'build', 'trial-' + os.path.basename(wt)), ignore_errors=True)
        res = dict(mu, src=None, verdict='detected' if detected else 'SURVIVOR', detected=detected)
        if not detected:
            os.makedirs(os.path.join(OUT, 'survivors'), exist_ok=True)
            name = hashlib.sha1((mu['file'] + str(mu['line']) + mu['op'] + mu['new']).encode()).hexdigest()[:10]
            with open(os.path.join(OUT, 'survivors', name + '.diff'), 'w') as fh:
                fh.write(diff)
            res['diff'] = name + '.diff'
        return res
    finally:
        sh(['git', 'checkout', '-q', '--', '.'], cwd=f'/tmp/wt/mut-{k}')
        with lock:
            slots.append(k)


def main():
    args = sys.argv[1:]
    workers, files, limit = 3, None, None
    while args:
        a = args.pop(0)
        if a == '--workers':
            workers = int(args.pop(0))
        elif a == '--files':
            files = args.pop(0).split(',')
        elif a == '--limit':
            limit = int(args.pop(0))
    os.makedirs(OUT, exist_ok=True)
    anc = anchored()
    allprops = [f'C{i:02d}' for i in range(1, 21)]
    todo = []
    for f in (files or sorted(anc)):
        props = list(anc.get(f, []))
        if f.startswith('internal/feeder/') and 'C14' not in props:
            props.append('C14')   # the omni scenario follows a log through every feeder type
        # anchored properties first, then the rest (a defect may show under a property that does not name the file)
        order = props + [p for p in allprops if p not in props]
        src = open(os.path.join('/repo', f)).read()
        ms = mutants_of(f, src)
        for mu in ms:
            todo.append((mu, order if os.environ.get('MUT_ALL') else props))
    if limit:
        todo = todo[:limit]
    done = set()
    resf = os.path.join(OUT, 'results.jsonl')
    if os.path.exists(resf):
        for l in open(resf):
            r = json.loads(l)
            done.add((r['file'], r['line'], r['op'], r['new']))
    todo = [(m, p) for (m, p) in todo if (m['file'], m['line'], m['op'], m['new']) not in done]
    print(f'{len(todo)} mutants to run ({len(done)} already done)', flush=True)
    slots.extend(range(workers))
    with cf.ThreadPoolExecutor(max_workers=workers) as ex, open(resf, 'a') as fh:
        futs = [ex.submit(run_mutant, m, p) for (m, p) in todo]
        for f in cf.as_completed(futs):
            r = f.result()
            fh.write(json.dumps(r) + '\n')
            fh.flush()
            if r['verdict'] in ('SURVIVOR',):
                print(f"SURVIVOR {r['file']}:{r['line']} {r['op']}: {r['old']}  =>  {r['new']}", flush=True)
    for k in range(workers):
        sh(['git', '-C', '/repo', 'worktree', 'remove', '--force', f'/tmp/wt/mut-{k}'])
    print('done', flush=True)


if __name__ == '__main__':
    main()
