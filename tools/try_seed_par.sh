#!/bin/bash
# try_seed_par.sh <absolute patch.diff> <prop> [<prop>...]: apply the patch to a scratch worktree of /repo (never to
# /repo itself), run the quick checks against that copy (VERIF_REPO), remove the worktree.  Safe to run several
# at once and while other checks use /repo.  Output: one line per check.
P=$1; shift
ROOT=$(cd "$(dirname "$0")/.." && pwd)
WT=/tmp/wt/try-$$
for attempt in 1 2 3 4; do git -C /repo worktree add -q --detach "$WT" HEAD 2>/dev/null && break; sleep $((attempt * 2)); done
[ -d "$WT" ] || { echo "could not create scratch worktree"; exit 2; }
cleanup() { git -C /repo worktree remove --force "$WT" 2>/dev/null; rm -rf "$ROOT/build/trial-try-$$"; }
trap cleanup EXIT
git -C "$WT" apply "$P" || { echo "patch does not apply"; exit 2; }
cd "$ROOT"
for pid in "$@"; do
  out=$(VERIF_REPO=$WT ./check $pid --tier ${TIER:-quick} 2>&1)
  echo "$out" | grep -E "^(VIOLATION|OK|KNOWN-FINDING|TRIAL)|^  " | head -4 | sed "s|^|[$pid] |"
done
