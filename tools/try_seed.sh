#!/bin/bash
# try_seed.sh <patch.diff> <prop> [<prop>...]: apply the patch to /repo, run the quick checks, undo the patch.
P=$1; shift
cd /repo && git apply "$P" || { echo "patch does not apply"; exit 2; }
trap 'git -C /repo apply -R "$P" 2>/dev/null; git -C /repo checkout -q -- .' EXIT
cd /verif
for pid in "$@"; do
  out=$(VERIF_TIER=${TIER:-quick} ./check $pid --tier ${TIER:-quick} 2>&1)
  echo "$out" | grep -E "^(VIOLATION|OK|KNOWN-FINDING)|^  " | head -4
done
