#!/bin/bash
# regress_subset.sh "<props>" [P]: as regress_seeds.sh, restricted to the kept seeds recorded as detected by one of the
# named checks (all their recorded checks are run) and to the harmless rewrites against the named checks only.
./setup.sh > setup.log 2>&1 || { echo SETUP-FAILED; tail -5 setup.log; exit 1; }
cd "$(dirname "$0")/.."
ROOT=$(pwd)
SUB="$1"; P=${2:-6}
OUT=$ROOT/build/regress; rm -rf "$OUT"; mkdir -p "$OUT"
for d in seeded/*/; do
  name=$(basename $d)
  [ -f "$d/patch.diff" ] || continue
  if [[ $name == harmless-* ]]; then [ -n "$SKIP_HARMLESS" ] || echo "$name $SUB"; continue; fi
  props=$(python3 -c "import json;print(' '.join(json.load(open('$d/meta.json'))['confirmed']['detected_by']))")
  for s in $SUB; do if [[ " $props " == *" $s "* ]]; then echo "$name $props"; break; fi; done
done | xargs -P "$P" -L 1 bash -c 'n=$0; bash '"$ROOT"'/tools/try_seed_par.sh '"$ROOT"'/seeded/$n/patch.diff "$@" > '"$OUT"'/$n.txt 2>&1'
fail=0
for f in "$OUT"/*.txt; do
  name=$(basename $f .txt)
  if [[ $name == harmless-* ]]; then
    if grep -q "VIOLATION\|patch does not apply" $f; then echo "HARMLESS $name ALARM: $(grep -A1 VIOLATION $f | head -2 | tr '\n' ' ' | cut -c1-220)"; fail=1; else echo "HARMLESS $name quiet ($(grep -c 'OK property' $f) checks)"; fi
  else
    for p in $(python3 -c "import json;print(' '.join(json.load(open('seeded/$name/meta.json'))['confirmed']['detected_by']))"); do
      if grep -q "^\[$p\] VIOLATION property=$p" $f; then echo "SEED $name: $p detects"; else echo "SEED $name: $p MISSED"; fail=1; fi
    done
  fi
done
echo "regress subset done fail=$fail"
exit $fail
