#!/bin/sh
# Build the framework from files on disk only (offline): Lean library + driver, Go harness.
set -e
python3 "$(cd "$(dirname "$0")" && pwd)/tools/extract.py"
HERE=$(cd "$(dirname "$0")" && pwd)
cd "$HERE/lean"
lake build WitnessVerif wdrv
cd "$HERE"
python3 tools/mkoverlay.py
export GOFLAGS=-mod=mod GOPROXY=off GOSUMDB=off GOTOOLCHAIN=local
(cd /repo && go build -tags verif -overlay "$HERE/build/overlay.json" -o "$HERE/build/harness" ./internal/zzverif)
echo setup-ok
