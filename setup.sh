#!/bin/sh
# Build the framework from files on disk only (offline): Lean library + driver, Go harness.
set -e
python3 /verif/tools/extract.py
cd /verif/lean
lake build WitnessVerif wdrv
cd /verif
python3 tools/mkoverlay.py
export GOFLAGS=-mod=mod GOPROXY=off GOSUMDB=off GOTOOLCHAIN=local
(cd /repo && go build -tags verif -overlay /verif/build/overlay.json -o /verif/build/harness ./internal/zzverif)
echo setup-ok
