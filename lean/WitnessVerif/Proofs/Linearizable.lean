import WitnessVerif.Model.StoreProtocol
/-
Linearizability of the snapshot + compare-and-set protocol, for any number of threads and any schedule.
-/
namespace Lin
variable {V Q R : Type} [DecidableEq V]

structure Inv (dec : Option V → Q → Dec V R) (reqs : List Q) (s0 : Option V) (s : Sys V R) : Prop where
  len : s.pcs.length = reqs.length
  replay : Replays dec reqs s0 s.lin s.store
  doneIn : ∀ i r, s.pcs[i]? = some (.done (.ok r)) → (i, r) ∈ s.lin
  refIn : ∀ i snap q r, s.pcs[i]? = some (.began snap) → reqs[i]? = some q → dec snap q = .refuse r → (i, r) ∈ s.lin
  idleOut : ∀ i, s.pcs[i]? = some .idle → ∀ r, (i, r) ∉ s.lin
  errOut : ∀ i, s.pcs[i]? = some (.done .storageErr) → ∀ r, (i, r) ∉ s.lin
  wrOut : ∀ i snap q v r, s.pcs[i]? = some (.began snap) → reqs[i]? = some q → dec snap q = .write v r → ∀ r', (i, r') ∉ s.lin

theorem getElem?_set' {α : Type} (l : List α) (i j : Nat) (a : α) (hi : i < l.length) :
    (l.set i a)[j]? = if i = j then some a else l[j]? := by
  rw [List.getElem?_set]; split <;> simp_all

theorem inv_step (dec : Option V → Q → Dec V R) (reqs : List Q) (s0 : Option V) (s : Sys V R) (i : Nat)
    (h : Inv dec reqs s0 s) : Inv dec reqs s0 (stepThread dec reqs s i) := by
  unfold stepThread
  split
  · -- idle
    rename_i hpc hq; rename_i q
    have hi : i < s.pcs.length := by
      rcases Nat.lt_or_ge i s.pcs.length with h' | h'
      · exact h'
      · rw [List.getElem?_eq_none h'] at hpc; cases hpc
    cases hd : dec s.store q with
    | refuse r =>
      simp only
      have hspec : specStep dec s.store q = (s.store, r) := by simp [specStep, hd]
      refine ⟨by simp [h.len], ?_, ?_, ?_, ?_, ?_, ?_⟩
      · have := h.replay.snoc i q hq; rw [hspec] at this; exact this
      · intro j r' hj; simp only [getElem?_set' _ _ _ _ hi] at hj
        split at hj
        · cases hj
        · exact List.mem_append_left _ (h.doneIn j r' hj)
      · intro j snap q' r' hj hq' hd'; simp only [getElem?_set' _ _ _ _ hi] at hj
        split at hj
        · rename_i e; subst e; cases hj; rw [hq] at hq'; cases hq'; rw [hd] at hd'; cases hd'
          exact List.mem_append_right _ (List.mem_singleton.2 rfl)
        · exact List.mem_append_left _ (h.refIn j snap q' r' hj hq' hd')
      · intro j hj r'; simp only [getElem?_set' _ _ _ _ hi] at hj
        split at hj
        · cases hj
        · rename_i ne; intro hm
          rcases List.mem_append.1 hm with hm | hm
          · exact h.idleOut j hj r' hm
          · simp at hm; exact ne hm.1.symm
      · intro j hj r'; simp only [getElem?_set' _ _ _ _ hi] at hj
        split at hj
        · cases hj
        · rename_i ne; intro hm
          rcases List.mem_append.1 hm with hm | hm
          · exact h.errOut j hj r' hm
          · simp at hm; exact ne hm.1.symm
      · intro j snap q' v r' hj hq' hd' r''; simp only [getElem?_set' _ _ _ _ hi] at hj
        split at hj
        · rename_i e; subst e; cases hj; rw [hq] at hq'; cases hq'; rw [hd] at hd'; cases hd'
        · rename_i ne; intro hm
          rcases List.mem_append.1 hm with hm | hm
          · exact h.wrOut j snap q' v r' hj hq' hd' r'' hm
          · simp at hm; exact ne hm.1.symm
    | write v r =>
      simp only
      refine ⟨by simp [h.len], h.replay, ?_, ?_, ?_, ?_, ?_⟩
      · intro j r' hj; simp only [getElem?_set' _ _ _ _ hi] at hj
        split at hj
        · cases hj
        · exact h.doneIn j r' hj
      · intro j snap q' r' hj hq' hd'; simp only [getElem?_set' _ _ _ _ hi] at hj
        split at hj
        · rename_i e; subst e; cases hj; rw [hq] at hq'; cases hq'; rw [hd] at hd'; cases hd'
        · exact h.refIn j snap q' r' hj hq' hd'
      · intro j hj r'; simp only [getElem?_set' _ _ _ _ hi] at hj
        split at hj
        · cases hj
        · exact h.idleOut j hj r'
      · intro j hj r'; simp only [getElem?_set' _ _ _ _ hi] at hj
        split at hj
        · cases hj
        · exact h.errOut j hj r'
      · intro j snap q' v' r' hj hq' hd' r''; simp only [getElem?_set' _ _ _ _ hi] at hj
        split at hj
        · rename_i e; subst e; exact h.idleOut i hpc r''
        · exact h.wrOut j snap q' v' r' hj hq' hd' r''
  · -- began
    rename_i hpc hq; rename_i snap q
    have hi : i < s.pcs.length := by
      rcases Nat.lt_or_ge i s.pcs.length with h' | h'
      · exact h'
      · rw [List.getElem?_eq_none h'] at hpc; cases hpc
    cases hd : dec snap q with
    | refuse r =>
      simp only
      refine ⟨by simp [h.len], h.replay, ?_, ?_, ?_, ?_, ?_⟩
      · intro j r' hj; simp only [getElem?_set' _ _ _ _ hi] at hj
        split at hj
        · rename_i e; subst e; cases hj; exact h.refIn i snap q r hpc hq hd
        · exact h.doneIn j r' hj
      · intro j snap' q' r' hj hq' hd'; simp only [getElem?_set' _ _ _ _ hi] at hj
        split at hj
        · cases hj
        · exact h.refIn j snap' q' r' hj hq' hd'
      · intro j hj r'; simp only [getElem?_set' _ _ _ _ hi] at hj
        split at hj
        · cases hj
        · exact h.idleOut j hj r'
      · intro j hj r'; simp only [getElem?_set' _ _ _ _ hi] at hj
        split at hj
        · cases hj
        · exact h.errOut j hj r'
      · intro j snap' q' v' r' hj hq' hd' r''; simp only [getElem?_set' _ _ _ _ hi] at hj
        split at hj
        · cases hj
        · exact h.wrOut j snap' q' v' r' hj hq' hd' r''
    | write v r =>
      simp only
      have hnot := h.wrOut i snap q v r hpc hq hd
      split
      · rename_i heq
        have hspec : specStep dec s.store q = (some v, r) := by simp [specStep, heq, hd]
        refine ⟨by simp [h.len], ?_, ?_, ?_, ?_, ?_, ?_⟩
        · have := h.replay.snoc i q hq; rw [hspec] at this; exact this
        · intro j r' hj; simp only [getElem?_set' _ _ _ _ hi] at hj
          split at hj
          · rename_i e; subst e; cases hj; exact List.mem_append_right _ (List.mem_singleton.2 rfl)
          · exact List.mem_append_left _ (h.doneIn j r' hj)
        · intro j snap' q' r' hj hq' hd'; simp only [getElem?_set' _ _ _ _ hi] at hj
          split at hj
          · cases hj
          · exact List.mem_append_left _ (h.refIn j snap' q' r' hj hq' hd')
        · intro j hj r'; simp only [getElem?_set' _ _ _ _ hi] at hj
          split at hj
          · cases hj
          · rename_i ne; intro hm
            rcases List.mem_append.1 hm with hm | hm
            · exact h.idleOut j hj r' hm
            · simp at hm; exact ne hm.1.symm
        · intro j hj r'; simp only [getElem?_set' _ _ _ _ hi] at hj
          split at hj
          · cases hj
          · rename_i ne; intro hm
            rcases List.mem_append.1 hm with hm | hm
            · exact h.errOut j hj r' hm
            · simp at hm; exact ne hm.1.symm
        · intro j snap' q' v' r' hj hq' hd' r''; simp only [getElem?_set' _ _ _ _ hi] at hj
          split at hj
          · cases hj
          · rename_i ne; intro hm
            rcases List.mem_append.1 hm with hm | hm
            · exact h.wrOut j snap' q' v' r' hj hq' hd' r'' hm
            · simp at hm; exact ne hm.1.symm
      · refine ⟨by simp [h.len], h.replay, ?_, ?_, ?_, ?_, ?_⟩
        · intro j r' hj; simp only [getElem?_set' _ _ _ _ hi] at hj
          split at hj
          · cases hj
          · exact h.doneIn j r' hj
        · intro j snap' q' r' hj hq' hd'; simp only [getElem?_set' _ _ _ _ hi] at hj
          split at hj
          · cases hj
          · exact h.refIn j snap' q' r' hj hq' hd'
        · intro j hj r'; simp only [getElem?_set' _ _ _ _ hi] at hj
          split at hj
          · cases hj
          · exact h.idleOut j hj r'
        · intro j hj r'; simp only [getElem?_set' _ _ _ _ hi] at hj
          split at hj
          · rename_i e; subst e; exact hnot r'
          · exact h.errOut j hj r'
        · intro j snap' q' v' r' hj hq' hd' r''; simp only [getElem?_set' _ _ _ _ hi] at hj
          split at hj
          · cases hj
          · exact h.wrOut j snap' q' v' r' hj hq' hd' r''
  · exact h

/-- C05 (in-memory store, one log): after ANY schedule of ANY number of threads, the store and every
    successful outcome are those of the atomic steps taken in the ghost linearisation order; threads
    that got a storage error are not in that order (no effect). -/
theorem linearizable (dec : Option V → Q → Dec V R) (reqs : List Q) (s0 : Option V) (sched : List Nat) :
    let init : Sys V R := { store := s0, pcs := reqs.map (fun _ => .idle), lin := [] }
    let fin := runSched dec reqs init sched
    Replays dec reqs s0 fin.lin fin.store ∧
    (∀ i r, fin.pcs[i]? = some (.done (.ok r)) → (i, r) ∈ fin.lin) ∧
    (∀ i, fin.pcs[i]? = some (.done .storageErr) → ∀ r, (i, r) ∉ fin.lin) := by
  intro init fin
  have hinit : Inv dec reqs s0 init :=
    ⟨by simp [init], .nil _, by intro i r h; simp [init] at h, by intro i sn q r h; simp [init] at h,
     by intro i _ r; simp [init], by intro i h; simp [init] at h, by intro i sn q v r h; simp [init] at h⟩
  have hfin : Inv dec reqs s0 fin := by
    show Inv dec reqs s0 (runSched dec reqs init sched)
    generalize init = s at hinit
    induction sched generalizing s with
    | nil => exact hinit
    | cons i rest ih => exact ih _ (inv_step dec reqs s0 s i hinit)
  exact ⟨hfin.replay, hfin.doneIn, hfin.errOut⟩

end Lin
