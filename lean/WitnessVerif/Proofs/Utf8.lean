import WitnessVerif.Model.Note
/-
A valid note name contains no newline byte (it is valid UTF-8 without Unicode spaces, and the byte
0x0A can only occur in valid UTF-8 as the rune U+000A).
-/
namespace Utf8

theorem isCont_high (c : UInt8) (h : isCont c = true) : 0x80 ≤ c.toNat := by
  simp only [isCont, Bool.and_eq_true, decide_eq_true_eq] at h; exact h.1

theorem inRange_high (c : UInt8) (lo hi : Nat) (hlo : 0x80 ≤ lo) (h : inRange c lo hi = true) : 0x80 ≤ c.toNat := by
  simp only [inRange, Bool.and_eq_true, decide_eq_true_eq] at h; omega

/-- bytes consumed by a multi-byte rune after the first are all ≥ 0x80 -/
theorem decodeRune_tail_high (b : UInt8) (r : Bytes) :
    ∀ c ∈ r.take ((decodeRune (b :: r)).2 - 1), 0x80 ≤ c.toNat := by
  intro c hc
  by_cases h1 : b.toNat < 0x80
  · simp [decodeRune, h1] at hc
  by_cases h2 : b.toNat < 0xC2
  · simp [decodeRune, h1, h2] at hc
  by_cases h3 : b.toNat ≤ 0xDF
  · cases r with
    | nil => simp at hc
    | cons b1 r1 =>
      by_cases hk : isCont b1 = true
      · simp [decodeRune, h1, h2, h3, hk] at hc
        subst hc; exact isCont_high _ hk
      · simp [decodeRune, h1, h2, h3, hk] at hc
  by_cases h4 : b.toNat ≤ 0xEF
  · cases r with
    | nil => simp at hc
    | cons b1 r1 =>
      cases r1 with
      | nil => simp [decodeRune, h1, h2, h3, h4] at hc
      | cons b2 r2 =>
        by_cases hk : (inRange b1 (if b.toNat = 0xE0 then 0xA0 else 0x80) (if b.toNat = 0xED then 0x9F else 0xBF) && isCont b2) = true
        · simp only [Bool.and_eq_true] at hk
          simp [decodeRune, h1, h2, h3, h4, hk.1, hk.2] at hc
          rcases hc with h | h
          · subst h
            exact inRange_high _ _ _ (by split <;> omega) hk.1
          · subst h; exact isCont_high _ hk.2
        · have hk' : ¬ (inRange b1 (if b.toNat = 0xE0 then 0xA0 else 0x80) (if b.toNat = 0xED then 0x9F else 0xBF) = true ∧ isCont b2 = true) := by
            simpa [Bool.and_eq_true] using hk
          simp [decodeRune, h1, h2, h3, h4, hk'] at hc
  by_cases h5 : b.toNat ≤ 0xF4
  · cases r with
    | nil => simp at hc
    | cons b1 r1 =>
      cases r1 with
      | nil => simp [decodeRune, h1, h2, h3, h4, h5] at hc
      | cons b2 r2 =>
        cases r2 with
        | nil => simp [decodeRune, h1, h2, h3, h4, h5] at hc
        | cons b3 r3 =>
          by_cases hk : (inRange b1 (if b.toNat = 0xF0 then 0x90 else 0x80) (if b.toNat = 0xF4 then 0x8F else 0xBF) = true ∧ isCont b2 = true) ∧ isCont b3 = true
          · simp [decodeRune, h1, h2, h3, h4, h5, hk.1.1, hk.1.2, hk.2] at hc
            rcases hc with h | h | h
            · subst h; exact inRange_high _ _ _ (by split <;> omega) hk.1.1
            · subst h; exact isCont_high _ hk.1.2
            · subst h; exact isCont_high _ hk.2
          · simp [decodeRune, h1, h2, h3, h4, h5, hk] at hc
  · simp [decodeRune, h1, h2, h3, h4, h5] at hc

theorem decodeRune_nl (r : Bytes) : decodeRune (B.nl :: r) = (10, 1) := by
  unfold decodeRune; simp [B.nl]

/-- if a byte string contains 0x0A then one of its runes is U+000A -/
theorem nl_rune : ∀ (n : Nat) (s : Bytes), s.length ≤ n → B.nl ∈ s → (10, 1) ∈ runes s := by
  intro n
  induction n with
  | zero => intro s hl hm; cases s <;> simp_all
  | succ n ih =>
    intro s hl hm
    cases s with
    | nil => simp at hm
    | cons b r =>
      rw [runes]
      by_cases hb : b = B.nl
      · subst hb; rw [decodeRune_nl]; simp
      · have hmr : B.nl ∈ r := by
          rcases List.mem_cons.1 hm with h | h
          · exact absurd h.symm hb
          · exact h
        apply List.mem_cons_of_mem
        have hpos := decodeRune_size_pos b r
        apply ih
        · simp only [List.length_drop, List.length_cons] at hl ⊢; omega
        · -- the newline is not among the bytes consumed by this rune
          have hsplit : r = r.take ((decodeRune (b :: r)).2 - 1) ++ r.drop ((decodeRune (b :: r)).2 - 1) :=
            (List.take_append_drop _ _).symm
          have hdrop : (b :: r).drop (decodeRune (b :: r)).2 = r.drop ((decodeRune (b :: r)).2 - 1) := by
            cases hk : (decodeRune (b :: r)).2 with
            | zero => omega
            | succ k => simp
          rw [hdrop]
          rw [hsplit] at hmr
          rcases List.mem_append.1 hmr with h | h
          · have := decodeRune_tail_high b r B.nl h
            simp [B.nl] at this
          · exact h

end Utf8

namespace Note

theorem validName_no_nl (name : Bytes) (h : isValidName name = true) : B.nl ∉ name := by
  intro hm
  have hr := Utf8.nl_rune name.length name (Nat.le_refl _) hm
  unfold isValidName at h
  simp only [Bool.and_eq_true, Bool.not_eq_true', List.any_eq_false] at h
  have := h.1.2 (10, 1) hr
  simp [Utf8.isSpace] at this

end Note

namespace Utf8

theorem decodeRune_sp (r : Bytes) : decodeRune (B.sp :: r) = (32, 1) := by
  unfold decodeRune; simp [B.sp]

/-- if a byte string contains 0x20 then one of its runes is U+0020 -/
theorem sp_rune : ∀ (n : Nat) (s : Bytes), s.length ≤ n → B.sp ∈ s → (32, 1) ∈ runes s := by
  intro n
  induction n with
  | zero => intro s hl hm; cases s <;> simp_all
  | succ n ih =>
    intro s hl hm
    cases s with
    | nil => simp at hm
    | cons b r =>
      rw [runes]
      by_cases hb : b = B.sp
      · subst hb; rw [decodeRune_sp]; simp
      · have hmr : B.sp ∈ r := by
          rcases List.mem_cons.1 hm with h | h
          · exact absurd h.symm hb
          · exact h
        apply List.mem_cons_of_mem
        have hpos := decodeRune_size_pos b r
        apply ih
        · simp only [List.length_drop, List.length_cons] at hl ⊢; omega
        · have hsplit : r = r.take ((decodeRune (b :: r)).2 - 1) ++ r.drop ((decodeRune (b :: r)).2 - 1) :=
            (List.take_append_drop _ _).symm
          have hdrop : (b :: r).drop (decodeRune (b :: r)).2 = r.drop ((decodeRune (b :: r)).2 - 1) := by
            cases hk : (decodeRune (b :: r)).2 with
            | zero => omega
            | succ k => simp
          rw [hdrop]
          rw [hsplit] at hmr
          rcases List.mem_append.1 hmr with h | h
          · have := decodeRune_tail_high b r B.sp h
            simp [B.sp] at this
          · exact h

end Utf8

namespace Note

theorem validName_no_sp (name : Bytes) (h : isValidName name = true) : B.sp ∉ name := by
  intro hm
  have hr := Utf8.sp_rune name.length name (Nat.le_refl _) hm
  unfold isValidName at h
  simp only [Bool.and_eq_true, Bool.not_eq_true', List.any_eq_false] at h
  have := h.1.2 (32, 1) hr
  simp [Utf8.isSpace] at this

end Note
