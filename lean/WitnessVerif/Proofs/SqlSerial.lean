import WitnessVerif.Proofs.Linearizable
/-
SQLite through `database/sql` with a pool of one connection (`db.SetMaxOpenConns(1)` in
cmd/omniwitness/monolith.go): `WriteOps` = BEGIN needs the only connection and keeps it until `Set`
(COMMIT) or `Close` (ROLLBACK). A thread that asks for the connection while another holds it waits
(its step is a no-op). Under that discipline the snapshot a decision uses is always current, so no
request ever loses a compare-and-set: every schedule is a schedule of the compare-and-set protocol in
which no storage error occurs.
-/
namespace Lin
variable {V Q R : Type} [DecidableEq V]

structure SqlSys (V R : Type) where
  sys : Sys V R
  owner : Option Nat          -- which thread holds the single connection

/-- one micro-step of thread `i` under the single-connection discipline -/
def stepSql (dec : Option V → Q → Dec V R) (reqs : List Q) (s : SqlSys V R) (i : Nat) : SqlSys V R :=
  match s.sys.pcs[i]? with
  | some .idle =>
    match s.owner with
    | none => { sys := stepThread dec reqs s.sys i, owner := if (reqs[i]?).isSome then some i else none }
    | some _ => s                                        -- Begin blocks: the connection is taken
  | some (.began _) => { sys := stepThread dec reqs s.sys i, owner := if (reqs[i]?).isSome then none else s.owner }
  | _ => s

def runSql (dec : Option V → Q → Dec V R) (reqs : List Q) (s : SqlSys V R) : List Nat → SqlSys V R
  | [] => s
  | i :: sched => runSql dec reqs (stepSql dec reqs s i) sched

/-- whoever is between `WriteOps` and `Set`/`Close` holds the connection, and its snapshot is current -/
structure OwnerInv (reqs : List Q) (s : SqlSys V R) : Prop where
  len : s.sys.pcs.length = reqs.length
  began : ∀ (j : Nat) (snap : Option V), s.sys.pcs[j]? = some (.began snap) → s.owner = some j ∧ snap = s.sys.store
  noErr : ∀ j : Nat, s.sys.pcs[j]? ≠ some (PC.done (V := V) (R := R) Out.storageErr)

theorem ownerInv_step (dec : Option V → Q → Dec V R) (reqs : List Q) (s : SqlSys V R) (i : Nat)
    (h : OwnerInv reqs s) : OwnerInv reqs (stepSql dec reqs s i) := by
  unfold stepSql
  cases hpc : s.sys.pcs[i]? with
  | none => simpa [hpc] using h
  | some pc =>
    have hi : i < s.sys.pcs.length := by
      rcases Nat.lt_or_ge i s.sys.pcs.length with hlt | hge
      · exact hlt
      · rw [List.getElem?_eq_none hge] at hpc; cases hpc
    have hq : ∃ q, reqs[i]? = some q := by
      have : i < reqs.length := by rw [← h.len]; exact hi
      exact ⟨reqs[i], List.getElem?_eq_getElem this⟩
    obtain ⟨q, hq⟩ := hq
    cases pc with
    | done o => simpa [hpc] using h
    | idle =>
      simp only [hpc]
      cases ho : s.owner with
      | some k => simpa [ho] using h
      | none =>
        simp only [ho, hq, Option.isSome_some, if_true]
        -- nobody is in `began` (it would own the connection)
        have hnob : ∀ (j : Nat) (snap : Option V), s.sys.pcs[j]? ≠ some (PC.began (R := R) snap) := by
          intro j snap hj; have := (h.began j snap hj).1; rw [ho] at this; cases this
        unfold stepThread
        simp only [hpc, hq]
        cases hd : dec s.sys.store q with
        | refuse r =>
          refine ⟨by simp [h.len], ?_, ?_⟩
          · intro j snap hj
            simp only [getElem?_set' _ _ _ _ hi] at hj
            split at hj
            · rename_i e; subst e; simp only [Option.some.injEq, PC.began.injEq] at hj; exact ⟨rfl, hj.symm⟩
            · exact absurd hj (hnob j snap)
          · intro j hj
            simp only [getElem?_set' _ _ _ _ hi] at hj
            split at hj
            · cases hj
            · exact h.noErr j hj
        | write v r =>
          refine ⟨by simp [h.len], ?_, ?_⟩
          · intro j snap hj
            simp only [getElem?_set' _ _ _ _ hi] at hj
            split at hj
            · rename_i e; subst e; simp only [Option.some.injEq, PC.began.injEq] at hj; exact ⟨rfl, hj.symm⟩
            · exact absurd hj (hnob j snap)
          · intro j hj
            simp only [getElem?_set' _ _ _ _ hi] at hj
            split at hj
            · cases hj
            · exact h.noErr j hj
    | began snap =>
      simp only [hpc, hq, Option.isSome_some, if_true]
      obtain ⟨hown, hsnap⟩ := h.began i snap hpc
      -- only `i` is in `began`
      have honly : ∀ (j : Nat) (snap' : Option V), s.sys.pcs[j]? = some (PC.began (R := R) snap') → j = i := by
        intro j snap' hj; have := (h.began j snap' hj).1; rw [hown] at this; simpa using this.symm
      unfold stepThread
      simp only [hpc, hq]
      cases hd : dec snap q with
      | refuse r =>
        refine ⟨by simp [h.len], ?_, ?_⟩
        · intro j snap' hj
          simp only [getElem?_set' _ _ _ _ hi] at hj
          split at hj
          · cases hj
          · rename_i ne; exact absurd (honly j snap' hj).symm ne
        · intro j hj
          simp only [getElem?_set' _ _ _ _ hi] at hj
          split at hj
          · cases hj
          · exact h.noErr j hj
      | write v r =>
        simp only [hsnap, if_true]
        refine ⟨by simp [h.len], ?_, ?_⟩
        · intro j snap' hj
          simp only [getElem?_set' _ _ _ _ hi] at hj
          split at hj
          · cases hj
          · rename_i ne; exact absurd (honly j snap' hj).symm ne
        · intro j hj
          simp only [getElem?_set' _ _ _ _ hi] at hj
          split at hj
          · cases hj
          · exact h.noErr j hj

theorem inv_stepSql (dec : Option V → Q → Dec V R) (reqs : List Q) (s0 : Option V) (s : SqlSys V R) (i : Nat)
    (h : Inv dec reqs s0 s.sys) : Inv dec reqs s0 (stepSql dec reqs s i).sys := by
  unfold stepSql
  cases hpc : s.sys.pcs[i]? with
  | none => simpa [hpc] using h
  | some pc =>
    cases pc with
    | done o => simpa [hpc] using h
    | idle =>
      simp only [hpc]
      cases s.owner with
      | some k => simpa using h
      | none => exact inv_step dec reqs s0 s.sys i h
    | began snap => exact inv_step dec reqs s0 s.sys i h

/-- single-connection SQLite: any schedule of any number of threads ends in a state explained by the
    sequential order of the linearisation, every finished request is in that order, and no request
    ever fails with a storage error -/
theorem linearizable_sql (dec : Option V → Q → Dec V R) (reqs : List Q) (s0 : Option V) (sched : List Nat) :
    let init : SqlSys V R := { sys := { store := s0, pcs := reqs.map (fun _ => .idle), lin := [] }, owner := none }
    let fin := runSql dec reqs init sched
    Replays dec reqs s0 fin.sys.lin fin.sys.store ∧
    (∀ i r, fin.sys.pcs[i]? = some (.done (.ok r)) → (i, r) ∈ fin.sys.lin) ∧
    (∀ i : Nat, fin.sys.pcs[i]? ≠ some (PC.done (V := V) (R := R) Out.storageErr)) := by
  intro init fin
  have hinit : Inv dec reqs s0 init.sys :=
    ⟨by simp [init], .nil _, by intro i r h; simp [init] at h, by intro i sn q r h; simp [init] at h,
     by intro i _ r; simp [init], by intro i h; simp [init] at h, by intro i sn q v r h; simp [init] at h⟩
  have hown : OwnerInv reqs init :=
    ⟨by simp [init], by intro j snap h; simp [init] at h, by intro j h; simp [init] at h⟩
  have hfin : Inv dec reqs s0 fin.sys ∧ OwnerInv reqs fin := by
    show Inv dec reqs s0 (runSql dec reqs init sched).sys ∧ OwnerInv reqs (runSql dec reqs init sched)
    generalize init = s at hinit hown
    induction sched generalizing s with
    | nil => exact ⟨hinit, hown⟩
    | cons i rest ih => exact ih _ (inv_stepSql dec reqs s0 s i hinit) (ownerInv_step dec reqs s i hown)
  exact ⟨hfin.1.replay, hfin.1.doneIn, hfin.2.noErr⟩

end Lin
