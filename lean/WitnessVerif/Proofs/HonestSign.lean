import WitnessVerif.Proofs.OpenSigned
import WitnessVerif.Proofs.Utf8Append
import WitnessVerif.Proofs.BytesRun
/-
Completeness of `note.Sign` followed by `note.Open` for an honest checkpoint (the log's own
signature line only): the cosigned bytes open again under the log's verifier, so the read-back check
of `signChkpt` passes and nothing the witness stored can make its own next verification fail.
-/
namespace B64

theorem encChar_ascii : ∀ i : Fin 64, 0x20 ≤ (encChar i.val).toNat ∧ (encChar i.val).toNat < 0x80 := by decide
theorem pad_ascii : 0x20 ≤ pad.toNat ∧ pad.toNat < 0x80 := by decide

theorem encode_ascii (bs : Bytes) : ∀ c ∈ encode bs, 0x20 ≤ c.toNat ∧ c.toNat < 0x80 := by
  induction bs using encode.induct with
  | case1 => simp [encode]
  | case2 a =>
    have ha := u8 a
    intro c hc
    simp only [encode, List.mem_cons, List.not_mem_nil, or_false] at hc
    rcases hc with h | h | h | h <;> subst h
    · exact encChar_ascii ⟨a.toNat / 4, by omega⟩
    · exact encChar_ascii ⟨a.toNat % 4 * 16, by omega⟩
    · exact pad_ascii
    · exact pad_ascii
  | case3 a b =>
    have ha := u8 a; have hb := u8 b
    intro c hc
    simp only [encode, List.mem_cons, List.not_mem_nil, or_false] at hc
    rcases hc with h | h | h | h <;> subst h
    · exact encChar_ascii ⟨a.toNat / 4, by omega⟩
    · exact encChar_ascii ⟨a.toNat % 4 * 16 + b.toNat / 16, by omega⟩
    · exact encChar_ascii ⟨b.toNat % 16 * 4, by omega⟩
    · exact pad_ascii
  | case4 a b c r ih =>
    have ha := u8 a; have hb := u8 b; have hc := u8 c
    intro x hx
    simp only [encode, List.mem_cons] at hx
    rcases hx with h | h | h | h | h
    · subst h; exact encChar_ascii ⟨a.toNat / 4, by omega⟩
    · subst h; exact encChar_ascii ⟨a.toNat % 4 * 16 + b.toNat / 16, by omega⟩
    · subst h; exact encChar_ascii ⟨b.toNat % 16 * 4 + c.toNat / 64, by omega⟩
    · subst h; exact encChar_ascii ⟨c.toNat % 64, by omega⟩
    · exact ih x h

end B64

namespace Note
open B

/-- what `Open` checked about a signature line it kept (verified or not) -/
def SigOK (s : Sig) : Prop :=
  isValidName s.name = true ∧ ∃ raw, B64.decode s.b64 = some raw ∧ 5 ≤ raw.length ∧ s.hash = beDecode (raw.take 4)

theorem parseLine_sigok (line : Bytes) (l : Line) (h : parseLine line = some l) :
    SigOK { name := l.name, hash := l.hash, b64 := l.b64 } := by
  unfold parseLine at h
  split at h
  · cases h
  simp only at h
  cases hd : B64.decode (chopSpace (List.drop sigPrefix.length line)).2 with
  | none => simp [hd] at h
  | some sig =>
    simp only [hd] at h
    split at h
    · cases h
    · rename_i hcond
      simp only [Option.some.injEq] at h
      subst h
      simp only [Bool.or_eq_true, Bool.not_eq_true', not_or] at hcond
      refine ⟨by simpa using hcond.1.1, sig, hd, ?_, rfl⟩
      have := hcond.2
      simp only [decide_eq_true_eq] at this
      omega

theorem openLoop_sigok (vs : List Verifier) (text : Bytes) :
    ∀ (lines : List Bytes) (st st' : LoopSt), openLoop vs text lines st = .ok st' →
      (∀ s ∈ st.sigs ++ st.unverified, SigOK s) → ∀ s ∈ st'.sigs ++ st'.unverified, SigOK s := by
  intro lines
  induction lines with
  | nil => intro st st' h hi; simp [openLoop] at h; subst h; exact hi
  | cons line rest ih =>
    intro st st' h hi
    rw [openLoop] at h
    cases hp : parseLine line with
    | none => simp [hp] at h
    | some l =>
      simp only [hp] at h
      have hok := parseLine_sigok line l hp
      split at h
      · cases h
      cases hlk : lookup vs l.name l.hash with
      | unknown =>
        simp only [hlk] at h
        split at h
        · exact ih _ _ h hi
        · refine ih _ _ h ?_
          intro s hs
          simp only [List.mem_append, List.mem_cons, List.not_mem_nil, or_false] at hs
          rcases hs with hs | hs | hs
          · exact hi s (List.mem_append_left _ hs)
          · exact hi s (List.mem_append_right _ hs)
          · subst hs; exact hok
      | ambiguous => simp [hlk] at h
      | found v =>
        simp only [hlk] at h
        split at h
        · exact ih _ _ h hi
        · split at h
          · cases h
          · refine ih _ _ h ?_
            intro s hs
            simp only [List.mem_append, List.mem_cons, List.not_mem_nil, or_false] at hs
            rcases hs with (hs | hs) | hs
            · exact hi s (List.mem_append_left _ hs)
            · subst hs; exact hok
            · exact hi s (List.mem_append_right _ hs)

theorem open_sigok (msg : Bytes) (vs : List Verifier) (n : Note) (h : «open» msg vs = .ok n) :
    ∀ s ∈ n.sigs ++ n.unverified, SigOK s := by
  unfold «open» at h
  split at h
  · cases h
  split at h
  · cases h
  rename_i text sigs0 _
  split at h
  · cases h
  cases hl : openLoop vs text (sigLines sigs0) {} with
  | error e => simp [hl] at h
  | ok st =>
    simp only [hl] at h
    split at h
    · cases h
    · simp only [Except.ok.injEq] at h
      have := openLoop_sigok vs text _ _ _ hl (by simp)
      rw [← h]; exact this

theorem open_charsOK (msg : Bytes) (vs : List Verifier) (n : Note) (h : «open» msg vs = .ok n) :
    Utf8.noteCharsOK msg = true := by
  unfold «open» at h
  split at h
  · cases h
  · rename_i hc; simpa using hc

end Note

namespace Note
open B

theorem beDecode_be4 (h : Nat) (hlt : h < 2 ^ 32) (rest : Bytes) : beDecode ((B.be 4 h ++ rest).take 4) = h := by
  have : (B.be 4 h ++ rest).take 4 = B.be 4 h := by
    rw [List.take_append_of_le_length (by simp [B.be])]
    exact List.take_of_length_le (by simp [B.be])
  rw [this]
  simp only [B.be, beDecode, List.range, List.range.loop, List.map_cons, List.map_nil, List.foldl_cons, List.foldl_nil]
  have e : ∀ k : Nat, (UInt8.ofNat (k % 256)).toNat = k % 256 := by
    intro k; simp
  simp only [e]
  simp only [Nat.shiftRight_eq_div_pow]
  omega

/-- the line `Sign` writes for a signer parses back to that signer's name and key hash -/
theorem parseLine_new (o : SignerOut) (hv : isValidName o.name = true) (hs : o.sig ≠ []) (hh : o.hash < 2 ^ 32) :
    ∃ l, parseLine (lineOf o.name (B64.encode (B.be 4 o.hash ++ o.sig))) = some l ∧ l.name = o.name ∧ l.hash = o.hash := by
  have hlen : 5 ≤ (B.be 4 o.hash ++ o.sig).length := by
    have : 0 < o.sig.length := by
      cases hq : o.sig with
      | nil => exact absurd hq hs
      | cons _ _ => simp
    simp [B.be]; omega
  refine ⟨_, parseLine_lineOf o.name _ _ hv (B64.roundtrip _) hlen, rfl, ?_⟩
  exact beDecode_be4 o.hash hh o.sig

/-- lines from keys the verifier list does not know are set aside: the loop goes through and the
    verified signatures stay as they were -/
theorem openLoop_unknown (vs : List Verifier) (text : Bytes) :
    ∀ (lines : List Bytes) (st : LoopSt),
      (∀ line ∈ lines, ∃ l, parseLine line = some l ∧ lookup vs l.name l.hash = .unknown) →
      st.numSig + lines.length ≤ 100 →
      ∃ st', openLoop vs text lines st = .ok st' ∧ st'.sigs = st.sigs := by
  intro lines
  induction lines with
  | nil => intro st _ _; exact ⟨st, by simp [openLoop], rfl⟩
  | cons line rest ih =>
    intro st hl hn
    obtain ⟨l, hp, hlk⟩ := hl line (List.mem_cons_self ..)
    rw [openLoop]
    simp only [hp, hlk]
    have hnum : ¬ st.numSig + 1 > 100 := by simp only [List.length_cons] at hn; omega
    rw [if_neg hnum]
    have hrest : ∀ line ∈ rest, ∃ l, parseLine line = some l ∧ lookup vs l.name l.hash = .unknown :=
      fun x hx => hl x (List.mem_cons_of_mem _ hx)
    split
    · exact ih _ hrest (by simp only [List.length_cons] at hn ⊢; omega)
    · exact ih _ hrest (by simp only [List.length_cons] at hn ⊢; omega)

theorem lookup_singleton_unknown (v : Verifier) (name : Bytes) (hash : Nat) (h : ¬ (v.name = name ∧ v.hash = hash)) :
    lookup [v] name hash = .unknown := by
  unfold lookup
  have : (v.name == name && v.hash == hash) = false := by
    simp only [Bool.and_eq_false_iff, beq_eq_false_iff_ne]
    by_cases h1 : v.name = name
    · right; intro h2; exact h ⟨h1, h2⟩
    · left; exact h1
  simp [this]

theorem lookup_singleton_found (v : Verifier) : lookup [v] v.name v.hash = .found v := by
  unfold lookup
  simp

theorem flattenLines_last (ls : List Bytes) (hne : ls ≠ []) :
    flattenLines ls ≠ [] ∧ (flattenLines ls).getLast? = some nl := by
  induction ls with
  | nil => exact absurd rfl hne
  | cons l rest ih =>
    simp only [flattenLines]
    refine ⟨by simp, ?_⟩
    cases rest with
    | nil => simp [flattenLines]
    | cons r rs =>
      have h2 := (ih (by simp)).2
      have h1 := (ih (by simp)).1
      rw [List.getLast?_append, List.getLast?_cons, h2]; simp

theorem hasSuffix_nl (t : Bytes) : hasSuffix (t ++ [nl]) [nl] = true := by
  unfold hasSuffix
  simp [isPrefix]

end Note

namespace Note
open B

def newLinesOf (outs : List SignerOut) : Bytes :=
  outs.flatMap (fun o => sigLine o.name (B64.encode (B.be 4 o.hash ++ o.sig)))

theorem sign_honest (nn : Note) (s : Sig) (outs : List SignerOut)
    (hs1 : nn.sigs = [s]) (hu : nn.unverified = []) (hok : NoteOK nn) (hsok : SigOK s)
    (hval : ∀ o ∈ outs, isValidName o.name = true)
    (hdiff : ∀ o ∈ outs, ¬ (o.name = s.name ∧ o.hash = s.hash)) :
    sign nn outs = some (nn.text ++ [nl] ++ sigLine s.name s.b64 ++ newLinesOf outs) := by
  obtain ⟨t', ht'⟩ := hok.text_nl
  obtain ⟨hv, raw, hd, hlen, hh⟩ := hsok
  unfold sign
  have h1 : hasSuffix nn.text [nl] = true := by rw [ht']; exact hasSuffix_nl t'
  have h2 : outs.all (fun s => isValidName s.name) = true := by
    rw [List.all_eq_true]; intro o ho; exact hval o ho
  simp only [h1, h2, Bool.not_true, Bool.false_eq_true, if_false]
  have hc : (outs.map (fun s => (s.name, s.hash))).contains (s.name, s.hash) = false := by
    rw [List.contains_eq_mem]
    simp only [decide_eq_false_iff_not, List.mem_map, not_exists, not_and]
    intro o ho he
    simp only [Prod.mk.injEq] at he
    exact hdiff o ho he
  have hk : keepLines (outs.map (fun s => (s.name, s.hash))) (nn.sigs ++ nn.unverified) = some (sigLine s.name s.b64 ++ []) := by
    rw [hs1, hu]
    simp only [List.append_nil]
    rw [keepLines]
    have hl4 : ¬ raw.length < 4 := by omega
    simp [hv, hd, hl4, hh.symm, keepLines]
    intro x hx e1 e2
    exact absurd ⟨e1, e2⟩ (hdiff x hx)
  rw [hk]
  simp [newLinesOf]

theorem charsOK_sigPrefix : Utf8.noteCharsOK sigPrefix = true := by
  simp [Utf8.noteCharsOK, Utf8.runes, Utf8.decodeRune, sigPrefix, Utf8.isCont, Utf8.inRange, Utf8.runeError]

theorem charsOK_newLines (outs : List SignerOut) (hchars : ∀ o ∈ outs, Utf8.noteCharsOK o.name = true) :
    Utf8.noteCharsOK (newLinesOf outs) = true := by
  induction outs with
  | nil => simp [newLinesOf, Utf8.noteCharsOK, Utf8.runes]
  | cons o rest ih =>
    have hrest := ih (fun x hx => hchars x (List.mem_cons_of_mem _ hx))
    have ho := hchars o (List.mem_cons_self ..)
    unfold newLinesOf at hrest ⊢
    rw [List.flatMap_cons]
    apply Utf8.noteCharsOK_append _ _ _ hrest
    unfold sigLine
    have hsp : Utf8.noteCharsOK [sp] = true := Utf8.noteCharsOK_ascii _ (by intro c hc; simp at hc; subst hc; simp [sp])
    have hnl : Utf8.noteCharsOK [nl] = true := Utf8.noteCharsOK_ascii _ (by intro c hc; simp at hc; subst hc; simp [nl])
    have henc : Utf8.noteCharsOK (B64.encode (B.be 4 o.hash ++ o.sig)) = true :=
      Utf8.noteCharsOK_ascii _ (fun c hc => by have := B64.encode_ascii _ c hc; omega)
    exact Utf8.noteCharsOK_append _ _ (Utf8.noteCharsOK_append _ _ (Utf8.noteCharsOK_append _ _
      (Utf8.noteCharsOK_append _ _ charsOK_sigPrefix ho) hsp) henc) hnl

end Note

namespace Note
open B

/-- an honest checkpoint (the log's own line only) cosigned by `Sign` opens again under the log's
    verifier, with the same text and the same verified signature -/
theorem open_sign_honest (lv : Verifier) (nextRaw : Bytes) (nn : Note) (s : Sig) (outs : List SignerOut)
    (hopen : «open» nextRaw [lv] = .ok nn) (hs1 : nn.sigs = [s]) (hu : nn.unverified = [])
    (hraw : nextRaw = nn.text ++ [nl] ++ sigLine s.name s.b64)
    (hval : ∀ o ∈ outs, isValidName o.name = true) (hsig : ∀ o ∈ outs, o.sig ≠ [] ∧ o.hash < 2 ^ 32)
    (hchars : ∀ o ∈ outs, Utf8.noteCharsOK o.name = true)
    (hdiff : ∀ o ∈ outs, ¬ (lv.name = o.name ∧ lv.hash = o.hash))
    (hcount : outs.length + 1 ≤ 100) :
    ∃ n', «open» (nextRaw ++ newLinesOf outs) [lv] = .ok n' ∧ n'.text = nn.text ∧ n'.sigs = [s] := by
  obtain ⟨hok, hver, _⟩ := open_spec nextRaw [lv] nn hopen
  have hsok := open_sigok nextRaw [lv] nn hopen s (by rw [hs1]; simp)
  obtain ⟨hv, raw, hd, hlen, hh⟩ := hsok
  obtain ⟨v, raw', hlk, hd', hvf⟩ := hver s (by rw [hs1]; simp)
  rw [hd] at hd'; cases hd'
  obtain ⟨hveq, hvn, hvh⟩ := lookup_singleton lv v s.name s.hash hlk
  rw [hveq] at hlk hvf
  obtain ⟨t', ht'⟩ := hok.text_nl
  -- the lines of the cosigned note
  let ls : List Bytes := lineOf s.name s.b64 :: outs.map (fun o => lineOf o.name (B64.encode (B.be 4 o.hash ++ o.sig)))
  have hform : nextRaw ++ newLinesOf outs = nn.text ++ nl :: flattenLines ls := by
    rw [hraw]
    unfold newLinesOf
    rw [newLines_eq, sigLine_eq]
    simp [ls, flattenLines]
  have hg : ∀ x ∈ ls, GoodLine x := by
    intro x hx
    simp only [ls, List.mem_cons, List.mem_map] at hx
    rcases hx with hx | ⟨o, ho, rfl⟩
    · subst hx
      exact lineOf_good _ _ (validName_no_nl _ hv) (hok.b64_ok s (by rw [hs1]; simp))
    · exact lineOf_good _ _ (validName_no_nl _ (hval o ho)) (B64.nl_not_mem_encode _)
  have hne : ls ≠ [] := by simp [ls]
  have hsplit := splitLast_sign nn.text ls hne hg t' ht'
  have hchar : Utf8.noteCharsOK (nextRaw ++ newLinesOf outs) = true :=
    Utf8.noteCharsOK_append _ _ (open_charsOK nextRaw [lv] nn hopen) (charsOK_newLines outs hchars)
  obtain ⟨hfl1, hfl2⟩ := flattenLines_last ls hne
  -- the loop: the log's line verifies, every witness line is from a key this verifier list does not know
  have hp0 := parseLine_lineOf s.name s.b64 raw hv hd hlen
  have hrestU : ∀ line ∈ outs.map (fun o => lineOf o.name (B64.encode (B.be 4 o.hash ++ o.sig))),
      ∃ l, parseLine line = some l ∧ lookup [lv] l.name l.hash = .unknown := by
    intro line hl
    obtain ⟨o, ho, rfl⟩ := List.mem_map.1 hl
    obtain ⟨l, hpl, hn, hhash⟩ := parseLine_new o (hval o ho) (hsig o ho).1 (hsig o ho).2
    refine ⟨l, hpl, ?_⟩
    rw [hn, hhash]
    exact lookup_singleton_unknown lv o.name o.hash (hdiff o ho)
  obtain ⟨st', hrun, hsigs⟩ := openLoop_unknown [lv] nn.text _
    { sigs := [{ name := s.name, hash := beDecode (raw.take 4), b64 := s.b64 }], unverified := [],
      seen := [(s.name, beDecode (raw.take 4))], seenUnverified := [], numSig := 1 } hrestU
    (by simp only [List.length_map]; omega)
  have hloop : openLoop [lv] nn.text ls {} = .ok st' := by
    simp only [ls]
    rw [openLoop, hp0]
    simp only
    have hlk' : lookup [lv] s.name (beDecode (raw.take 4)) = .found lv := by rw [← hh]; exact hlk
    rw [if_neg (by simp), hlk']
    simp only [List.contains_nil, Bool.false_eq_true, if_false, hvf, Bool.not_true, List.nil_append]
    exact hrun
  have hs' : st'.sigs = [s] := by
    rw [hsigs]
    have : ({ name := s.name, hash := beDecode (raw.take 4), b64 := s.b64 } : Sig) = s := by
      cases s; simp only [Sig.mk.injEq, true_and, and_true] at hh ⊢; exact hh.symm
    simp [this]
  refine ⟨{ text := nn.text, sigs := st'.sigs, unverified := st'.unverified }, ?_, rfl, hs'⟩
  unfold «open»
  rw [hchar, hform, hsplit]
  simp only [Bool.not_true, Bool.false_eq_true, if_false]
  have hcond : (flattenLines ls == [] || (flattenLines ls).getLast? != some nl) = false := by
    rw [hfl2]
    cases hq : flattenLines ls with
    | nil => exact absurd hq hfl1
    | cons _ _ => simp
  rw [hcond]
  simp only [Bool.false_eq_true, if_false]
  rw [sigLines_flatten ls hg, hloop]
  simp [hs']

end Note
