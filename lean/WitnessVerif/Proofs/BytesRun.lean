import WitnessVerif.Proofs.NoteLemmas
import WitnessVerif.Proofs.CoreRun
import WitnessVerif.Proofs.Frame
/-
From bytes to parsed checkpoints: the byte-level witness refines the decision core. The stored
bytes are re-parsed on every update (as the Go code does); reparse stability (R3) makes the
re-parsed checkpoint the one that was accepted.
-/
namespace Wit
open Note

/-- what `parse` (= `log.ParseCheckpoint` under the log's verifier) demands -/
theorem parse_spec (l : LogInfo) (raw : Bytes) (cp : Cp.Checkpoint) (n : Note.Note) (h : parse l raw = some (cp, n)) :
    Note.open raw [l.verifier] = .ok n ∧
    (∃ s ∈ n.sigs, s.hash = l.verifier.hash ∧ s.name = l.verifier.name) ∧
    Cp.unmarshal n.text = some cp ∧ cp.origin = l.origin := by
  unfold parse Cp.parseCheckpoint at h
  split at h
  · cases h
  · rename_i n' hopen
    split at h
    · rename_i hany
      split at h
      · cases h
      · rename_i cp' hun
        split at h
        · cases h
        · rename_i horigin
          simp only [Option.some.injEq, Prod.mk.injEq] at h
          obtain ⟨h1, h2⟩ := h
          subst h1 h2
          refine ⟨hopen, ?_, hun, by simpa using horigin⟩
          simp only [List.any_eq_true, Bool.and_eq_true, beq_iff_eq] at hany
          obtain ⟨s, hs, h1, h2⟩ := hany
          exact ⟨s, hs, h1, h2⟩
    · cases h

/-- re-parsing what was signed gives the checkpoint that was accepted -/
theorem parse_sign_same (l : LogInfo) (nextRaw : Bytes) (next : Cp.Checkpoint) (nn : Note.Note)
    (outs : List SignerOut) (signed : Bytes) (p' : Cp.Checkpoint) (n' : Note.Note)
    (hp : parse l nextRaw = some (next, nn)) (hs : Note.sign nn outs = some signed)
    (hp' : parse l signed = some (p', n')) : p' = next ∧ n'.text = nn.text := by
  obtain ⟨hopen, _, hun, _⟩ := parse_spec l nextRaw next nn hp
  obtain ⟨hopen', _, hun', _⟩ := parse_spec l signed p' n' hp'
  obtain ⟨hok, _, _⟩ := open_spec nextRaw [l.verifier] nn hopen
  have ht := open_sign_text nn outs signed hok hs [l.verifier] n' hopen'
  rw [ht, hun] at hun'
  simp only [Option.some.injEq] at hun'
  exact ⟨hun'.symm, ht⟩

/-- every way `update` can accept -/
theorem update_accepted (cfg : Cfg) (env : Env) (id : Bytes) (old : Nat) (nextRaw : Bytes) (proof : List Bytes)
    (h : (update cfg env id old nextRaw proof).err = .none) :
    ∃ l next nn outs signed,
      cfg.find id = some l ∧ parse l nextRaw = some (next, nn) ∧
      cfg.signers nn.text = some outs ∧ Note.sign nn outs = some signed ∧ (parse l signed).isSome ∧
      (update cfg env id old nextRaw proof).ret = some signed ∧ (update cfg env id old nextRaw proof).set = some signed ∧
      (env.prev = .notFound ∨ ∃ raw prev pn, env.prev = .found raw ∧ parse l raw = some (prev, pn) ∧
        Core.decide cfg.H (toCore prev) old (toCore next) proof = .accepted) := by
  have key : ∀ (l : LogInfo) (n : Note.Note) (c : Ctr), (signAndSet cfg env l n c).err = .none →
      ∃ outs signed, cfg.signers n.text = some outs ∧ Note.sign n outs = some signed ∧ (parse l signed).isSome ∧
        (signAndSet cfg env l n c).ret = some signed ∧ (signAndSet cfg env l n c).set = some signed := by
    intro l n c hs
    unfold signAndSet at hs ⊢
    cases h1 : cfg.signers n.text with
    | none => simp [h1] at hs
    | some outs =>
      simp only [h1] at hs ⊢
      cases h2 : Note.sign n outs with
      | none => simp [h2] at hs
      | some signed =>
        simp only [h2] at hs ⊢
        by_cases hp : (parse l signed).isNone = true
        · simp [hp] at hs
        · by_cases hse : env.setErr = true
          · simp [hp, hse] at hs
          · refine ⟨outs, signed, rfl, h2, ?_, ?_, ?_⟩
            · cases hq : parse l signed with
              | none => simp [hq] at hp
              | some _ => rfl
            · simp [hp, hse]
            · simp [hp, hse]
  unfold update at h ⊢
  cases hf : cfg.find id with
  | none => simp [hf] at h
  | some l =>
    simp only [hf] at h ⊢
    cases hp : parse l nextRaw with
    | none => simp [hp] at h
    | some pn =>
      obtain ⟨next, nn⟩ := pn
      simp only [hp] at h ⊢
      by_cases hw : env.writeOpsErr = true
      · simp [hw] at h
      · simp only [hw, Bool.false_eq_true, if_false] at h ⊢
        cases hprev : env.prev with
        | readErr => simp [hprev] at h
        | notFound =>
          simp only [hprev] at h ⊢
          obtain ⟨outs, signed, a, b, c, d, e⟩ := key l nn _ h
          exact ⟨l, next, nn, outs, signed, rfl, hp, a, b, c, d, e, by simp⟩
        | found raw =>
          simp only [hprev] at h ⊢
          cases hpp : parse l raw with
          | none => simp [hpp] at h
          | some pp =>
            obtain ⟨prev, pnote⟩ := pp
            simp only [hpp] at h ⊢
            cases hd : Core.decide cfg.H (toCore prev) old (toCore next) proof <;> simp only [hd] at h ⊢ <;> try (simp at h)
            obtain ⟨outs, signed, a, b, c, d, e⟩ := key l nn _ h
            exact ⟨l, next, nn, outs, signed, rfl, hp, a, b, c, d, e, Or.inr ⟨raw, prev, pnote, by simp, hpp, hd⟩⟩

/-- the checkpoints cosigned for `id`, in order of acceptance: parsed from the submitted bytes of every
    accepted request naming `id` (the text the witness signed) -/
def acceptedFor (cfg : Cfg) (l : LogInfo) (id : Bytes) : Store → List Req → List (Core.CP Bytes)
  | _, [] => []
  | s, r :: rs =>
    let so := step cfg s r
    if r.logID = id ∧ so.2.err = .none then
      match parse l r.next with
      | some (next, _) => toCore next :: acceptedFor cfg l id so.1 rs
      | none => acceptedFor cfg l id so.1 rs
    else acceptedFor cfg l id so.1 rs

theorem step_out (cfg : Cfg) (s : Store) (r : Req) :
    (step cfg s r).2 = update cfg (envOf s r.logID {}) r.logID r.old r.next r.proof := by
  unfold step stepF; simp only; split <;> rfl

theorem envOf_prev (s : Store) (id : Bytes) :
    (envOf s id {}).prev = match s.get id with | some raw => .found raw | none => .notFound := by
  unfold envOf prevOf
  cases s.get id <;> rfl

theorem bytes_run_ext (cfg : Cfg) (e : Bytes) (hinj : M.Inj cfg.H) (id : Bytes) (l : LogInfo) (hl : cfg.find id = some l) :
    ∀ (reqs : List Req) (s : Store),
      (acceptedFor cfg l id s reqs).Pairwise (Core.Ext cfg.H e) ∧
      (∀ raw p n, s.get id = some raw → parse l raw = some (p, n) →
        ∀ c ∈ acceptedFor cfg l id s reqs, Core.Ext cfg.H e (toCore p) c) := by
  intro reqs
  induction reqs with
  | nil => intro s; simp [acceptedFor]
  | cons r rs ih =>
    intro s
    by_cases hacc : r.logID = id ∧ (step cfg s r).2.err = .none
    · obtain ⟨hid, herr⟩ := hacc
      have herr' := herr
      rw [step_out] at herr'
      obtain ⟨l', next, nn, outs, signed, hfind, hparse, _, hsign, hps, hret, hset, hprev⟩ :=
        update_accepted cfg _ r.logID r.old r.next r.proof herr'
      rw [hid, hl] at hfind
      simp only [Option.some.injEq] at hfind
      subst hfind
      -- the new store holds `signed` for `id`, which re-parses to `next`
      have hstore : (step cfg s r).1.get id = some signed := by
        obtain ⟨v, hv1, hv2⟩ := stepF_accepted cfg s r {} herr
        have : (step cfg s r).2.ret = some signed := by rw [step_out]; exact hret
        have hv : v = signed := by
          have h1 : (stepF cfg s r {}).2.ret = some v := hv1
          have h2 : (stepF cfg s r {}).2.ret = some signed := this
          rw [h1] at h2; simpa using h2
        rw [← hid, ← hv]; exact hv2
      obtain ⟨ih1, ih2⟩ := ih (step cfg s r).1
      have hafter : ∀ c ∈ acceptedFor cfg l id (step cfg s r).1 rs, Core.Ext cfg.H e (toCore next) c := by
        cases hq : parse l signed with
        | none => simp [hq] at hps
        | some pq =>
          obtain ⟨p', n'⟩ := pq
          have := (parse_sign_same l r.next next nn outs signed p' n' hparse hsign hq).1
          subst this
          exact ih2 signed p' n' hstore hq
      have hlist : acceptedFor cfg l id s (r :: rs) = toCore next :: acceptedFor cfg l id (step cfg s r).1 rs := by
        simp only [acceptedFor, hid, herr, and_self, if_true, true_and]
        rw [show parse l r.next = some (next, nn) from hparse]
      rw [hlist]
      refine ⟨List.pairwise_cons.2 ⟨hafter, ih1⟩, ?_⟩
      intro raw p n hget hp c hc
      have hpn : Core.Ext cfg.H e (toCore p) (toCore next) := by
        rcases hprev with hnf | ⟨raw', prev, pnote, hfound, hpp, hdec⟩
        · rw [envOf_prev, hid, hget] at hnf; cases hnf
        · rw [envOf_prev, hid, hget] at hfound
          simp only [Prev.found.injEq] at hfound
          subst hfound
          rw [hp] at hpp
          simp only [Option.some.injEq, Prod.mk.injEq] at hpp
          rw [← hpp.1] at hdec
          exact Core.decide_accepted_ext cfg.H e hinj _ _ _ _ hdec
      rcases List.mem_cons.1 hc with h1 | h1
      · subst h1; exact hpn
      · exact Core.Ext.trans cfg.H e hpn (hafter c h1)
    · -- refused, or another log: the slot of `id` is untouched
      have hslot : (step cfg s r).1.get id = s.get id := by
        by_cases hid : r.logID = id
        · have : (step cfg s r).2.err ≠ .none := fun h => hacc ⟨hid, h⟩
          rw [show (step cfg s r).1 = s from stepF_refused_store cfg s r {} this]
        · exact stepF_other_log cfg s r {} id (fun h => hid h.symm)
      have hlist : acceptedFor cfg l id s (r :: rs) = acceptedFor cfg l id (step cfg s r).1 rs := by
        simp only [acceptedFor, hacc, if_false]
      rw [hlist]
      obtain ⟨ih1, ih2⟩ := ih (step cfg s r).1
      refine ⟨ih1, ?_⟩
      intro raw p n hget hp c hc
      exact ih2 raw p n (by rw [hslot]; exact hget) hp c hc

end Wit

namespace Cp

theorem splitN4_first (data o s h r : Bytes) (hs : B.splitN B.nl 4 data = [o, s, h, r]) :
    ∃ rest, data = o ++ B.nl :: rest := by
  simp only [B.splitN] at hs
  cases hc : B.cut B.nl data with
  | none => simp [hc] at hs
  | some pq =>
    obtain ⟨p, q⟩ := pq
    simp only [hc] at hs
    have := (B.cut_spec B.nl data p q hc).1
    simp only [List.cons.injEq] at hs
    exact ⟨q, by rw [this, hs.1]⟩

/-- the first line of a text that unmarshals as a checkpoint is the checkpoint's origin -/
theorem unmarshal_origin (text : Bytes) (cp : Checkpoint) (h : unmarshal text = some cp) :
    ∃ rest, text = cp.origin ++ B.nl :: rest := by
  unfold unmarshal at h
  split at h
  · rename_i o sz hh r hs
    split at h
    · cases h
    · split at h
      · simp only [Option.some.injEq] at h
        subst h
        exact splitN4_first text o sz hh r hs
      · cases h
  · cases h

end Cp

namespace Note

theorem lookup_singleton (v v' : Verifier) (name : Bytes) (hash : Nat) (h : lookup [v] name hash = .found v') :
    v' = v ∧ v.name = name ∧ v.hash = hash := by
  unfold lookup at h
  by_cases hm : (v.name == name && v.hash == hash) = true
  · simp only [List.filter_cons, hm, if_true, List.filter_nil] at h
    simp only [Lookup.found.injEq] at h
    simp only [Bool.and_eq_true, beq_iff_eq] at hm
    exact ⟨h.symm, hm.1, hm.2⟩
  · simp [List.filter_cons, hm] at h

end Note
