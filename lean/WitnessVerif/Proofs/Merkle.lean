import WitnessVerif.Model.Merkle

namespace M
variable {α : Type}
theorem recRoots_sound (H : α → α → α) (e : α) (hinj : Inj H) (old : α) :
    ∀ (n : Nat) (b : Bool) (m : Nat) (rp : List α) (o t : α) (D : List α),
      0 < m → m ≤ n → D.length = n →
      recRoots H old b m n rp = some (o, t) → t = mth H e D → o = mth H e (D.take m) := by
  intro n
  induction n using Nat.strongRecOn with
  | _ n ih =>
    intro b m rp o t D hm hmn hD hrec ht
    rw [recRoots.eq_def] at hrec
    by_cases hmn' : m = n
    · simp only [hmn', if_true] at hrec
      have htake : D.take m = D := by rw [hmn', ← hD]; exact List.take_length
      rw [htake]
      cases b with
      | true =>
        simp only [if_true] at hrec
        match rp, hrec with
        | [], hrec => simp at hrec; rw [← hrec.1, hrec.2, ht]
      | false =>
        simp only [Bool.false_eq_true, if_false] at hrec
        match rp, hrec with
        | [x], hrec => simp at hrec; rw [← hrec.1, hrec.2, ht]
    · simp only [hmn', if_false] at hrec
      have hlt : m < n := by omega
      have h2 : 2 ≤ n := by omega
      have hc : 2 ≤ n ∧ 0 < m ∧ m < n := ⟨h2, hm, hlt⟩
      simp only [hc, and_self, dite_true] at hrec
      match rp, hrec with
      | x :: rest, hrec =>
        simp only at hrec
        have hsplit := mth_split H e D (by omega)
        rw [hD] at hsplit
        have hk := splitK_lt h2
        have hkpos := splitK_pos n
        by_cases hle : m ≤ splitK n
        · simp only [hle, if_true] at hrec
          cases hr : recRoots H old b m (splitK n) rest with
          | none => simp [hr] at hrec
          | some p =>
            obtain ⟨o', t'⟩ := p
            simp only [hr, Option.some.injEq, Prod.mk.injEq] at hrec
            obtain ⟨ho, ht'⟩ := hrec
            rw [ht, hsplit] at ht'
            have := hinj _ _ _ _ ht'
            have hIH := ih (splitK n) hk b m rest o' t' (D.take (splitK n)) hm hle
              (by rw [List.length_take]; omega) hr this.1
            rw [← ho, hIH, List.take_take, Nat.min_eq_left hle]
        · simp only [hle, if_false] at hrec
          cases hr : recRoots H old false (m - splitK n) (n - splitK n) rest with
          | none => simp [hr] at hrec
          | some p =>
            obtain ⟨o', t'⟩ := p
            simp only [hr, Option.some.injEq, Prod.mk.injEq] at hrec
            obtain ⟨ho, ht'⟩ := hrec
            rw [ht, hsplit] at ht'
            have hxy := hinj _ _ _ _ ht'
            have hIH := ih (n - splitK n) (by omega) false (m - splitK n) rest o' t' (D.drop (splitK n))
              (by omega) (by omega) (by rw [List.length_drop]; omega) hr hxy.2
            -- o = H x o' = mth (D.take m)
            have hlenm : (D.take m).length = m := by rw [List.length_take]; omega
            have hsm : splitK m = splitK n := splitK_mid h2 (by omega) hmn
            have hsplit2 := mth_split H e (D.take m) (by rw [hlenm]; omega)
            rw [hlenm, hsm, List.take_take, Nat.min_eq_left (by omega), List.drop_take] at hsplit2
            rw [hsplit2, ← ho, hIH, hxy.1]

end M
namespace G
variable {α : Type}
/-! ### bit facts -/

theorem bitLen_eq {x t : Nat} (h1 : 2 ^ t ≤ x) (h2 : x < 2 ^ (t+1)) : bitLen x = t + 1 := by
  have hx : x ≠ 0 := by have := Nat.pow_pos (a := 2) (n := t) (by decide); omega
  unfold bitLen; rw [if_neg hx, (Nat.log2_eq_iff hx).2 ⟨h1, h2⟩]

theorem lt_two_pow_bitLen (x : Nat) : x < 2 ^ bitLen x := by
  unfold bitLen; split
  · subst_vars; simp
  · exact Nat.lt_log2_self

theorem bitLen_le {x t : Nat} (h : x < 2 ^ t) : bitLen x ≤ t := by
  unfold bitLen; split
  · omega
  · rename_i hx; have := (Nat.log2_lt hx).2 h; omega

theorem testBit_top {a t : Nat} (h1 : 2 ^ t ≤ a) (h2 : a < 2 ^ (t+1)) : a.testBit t = true := by
  rw [Nat.testBit_eq_decide_div_mod_eq]
  have : a / 2 ^ t = 1 := by
    apply Nat.div_eq_of_lt_le
    · omega
    · rw [Nat.pow_succ] at h2; omega
  rw [this]; rfl

theorem testBit_bitLen_pred {x : Nat} (hx : x ≠ 0) : x.testBit (bitLen x - 1) = true := by
  unfold bitLen; rw [if_neg hx]; simp only [Nat.add_sub_cancel]
  exact testBit_top (Nat.log2_self_le hx) Nat.lt_log2_self

/-- L1 -/
theorem bitLen_xor_top {a b t : Nat} (h1 : 2 ^ t ≤ a) (h2 : a < 2 ^ (t+1)) (hb : b < 2 ^ t) :
    bitLen (b ^^^ a) = t + 1 := by
  apply bitLen_eq
  · apply Nat.ge_two_pow_of_testBit
    rw [Nat.testBit_xor, Nat.testBit_lt_two_pow hb, testBit_top h1 h2]; rfl
  · exact Nat.xor_lt_two_pow (by rw [Nat.pow_succ]; omega) h2

theorem popcount_two_pow_sub_one (d : Nat) : popcount (2 ^ d - 1) = d := by
  induction d with
  | zero => unfold popcount; simp
  | succ d ih =>
    unfold popcount
    have hp := Nat.pow_pos (a := 2) (n := d) (by decide)
    have h0 : 2 ^ (d+1) - 1 ≠ 0 := by rw [Nat.pow_succ]; omega
    rw [dif_neg h0]
    have h1 : (2 ^ (d+1) - 1) % 2 = 1 := by rw [Nat.pow_succ]; omega
    have h2 : (2 ^ (d+1) - 1) / 2 = 2 ^ d - 1 := by rw [Nat.pow_succ]; omega
    rw [h1, h2, ih]; omega

theorem popcount_two_pow_add {d z : Nat} (hz : z < 2 ^ d) : popcount (2 ^ d + z) = popcount z + 1 := by
  induction d generalizing z with
  | zero =>
    have : z = 0 := by simpa using hz
    subst this; unfold popcount; simp; unfold popcount; simp
  | succ d ih =>
    have hp := Nat.pow_pos (a := 2) (n := d) (by decide)
    rw [Nat.pow_succ] at hz
    conv => lhs; unfold popcount
    have h0 : 2 ^ (d+1) + z ≠ 0 := by rw [Nat.pow_succ]; omega
    rw [dif_neg h0]
    have h1 : (2 ^ (d+1) + z) % 2 = z % 2 := by rw [Nat.pow_succ]; omega
    have h2 : (2 ^ (d+1) + z) / 2 = 2 ^ d + z / 2 := by rw [Nat.pow_succ]; omega
    rw [h1, h2, ih (by omega)]
    conv => rhs; unfold popcount
    by_cases hz0 : z = 0
    · subst hz0; simp; unfold popcount; simp
    · rw [dif_neg hz0]; omega

theorem tz_two_pow_add {t m : Nat} (h0 : 0 < m) (h1 : m < 2 ^ t) : tz (2 ^ t + m) = tz m := by
  induction t generalizing m with
  | zero => simp at h1; omega
  | succ t ih =>
    have hp := Nat.pow_pos (a := 2) (n := t) (by decide)
    rw [Nat.pow_succ] at h1
    conv => lhs; unfold tz
    conv => rhs; unfold tz
    have hne : 2 ^ (t+1) + m ≠ 0 := by omega
    have hm : m ≠ 0 := by omega
    rw [dif_neg hne, dif_neg hm]
    have h2 : (2 ^ (t+1) + m) % 2 = m % 2 := by rw [Nat.pow_succ]; omega
    rw [h2]
    by_cases hodd : m % 2 = 1
    · simp [hodd]
    · simp only [hodd, if_false]
      have h3 : (2 ^ (t+1) + m) / 2 = 2 ^ t + m / 2 := by rw [Nat.pow_succ]; omega
      rw [h3, ih (by omega) (by omega)]

theorem tz_two_pow (t : Nat) : tz (2 ^ t) = t := by
  induction t with
  | zero => unfold tz; simp
  | succ t ih =>
    have hp := Nat.pow_pos (a := 2) (n := t) (by decide)
    unfold tz
    have hne : 2 ^ (t+1) ≠ 0 := by rw [Nat.pow_succ]; omega
    have h2 : 2 ^ (t+1) % 2 = 0 := by rw [Nat.pow_succ]; omega
    have h3 : 2 ^ (t+1) / 2 = 2 ^ t := by rw [Nat.pow_succ]; omega
    rw [dif_neg hne, h2, h3, ih]; simp

/-- low `tz m` bits of `m-1` are ones and bit `tz m` of `m-1` is zero. -/
theorem testBit_pred_tz {m : Nat} (hm : 0 < m) :
    (∀ j, j < tz m → (m - 1).testBit j = true) ∧ (m - 1).testBit (tz m) = false := by
  induction m using Nat.strongRecOn with
  | _ m ih =>
    unfold tz
    have hne : m ≠ 0 := by omega
    rw [dif_neg hne]
    by_cases hodd : m % 2 = 1
    · simp only [hodd, if_true]
      refine ⟨fun j hj => by omega, ?_⟩
      rw [Nat.testBit_eq_decide_div_mod_eq]; simp; omega
    · simp only [hodd, if_false]
      have hm2 : 0 < m / 2 := by omega
      obtain ⟨ih1, ih2⟩ := ih (m / 2) (by omega) hm2
      have hpred : (m - 1) / 2 = m / 2 - 1 := by omega
      have hpred1 : (m - 1) % 2 = 1 := by omega
      constructor
      · intro j hj
        cases j with
        | zero => rw [Nat.testBit_eq_decide_div_mod_eq]; simp; omega
        | succ j =>
          rw [Nat.testBit_succ, hpred]; exact ih1 j (by omega)
      · rw [Nat.testBit_succ, hpred]; exact ih2

end G
namespace G
variable {α : Type}
open M

theorem shiftRight_eq_zero {x i : Nat} (h : x < 2 ^ i) : x >>> i = 0 := by
  rw [Nat.shiftRight_eq_div_pow]; exact Nat.div_eq_of_lt h

theorem popcount_zero : popcount 0 = 0 := by unfold popcount; simp

/-- facts about `t = log2 (n-1)` -/
theorem splitK_bounds {n : Nat} (hn : 2 ≤ n) :
    2 ^ (n-1).log2 ≤ n - 1 ∧ n - 1 < 2 ^ ((n-1).log2 + 1) :=
  ⟨Nat.log2_self_le (by omega), Nat.lt_log2_self⟩

theorem tz_le_of_pred_lt {m t : Nat} (hm : 0 < m) (h : m - 1 < 2 ^ t) : tz m ≤ t := by
  apply Nat.le_of_not_lt
  intro hlt
  have := (testBit_pred_tz hm).1 t hlt
  have := Nat.ge_two_pow_of_testBit this
  omega

/-- L2a -/
theorem ones_above {b t j : Nat} (hj1 : bitLen (b ^^^ (2 ^ t - 1)) ≤ j) (hj2 : j < t) :
    b.testBit j = true := by
  have hx := lt_two_pow_bitLen (b ^^^ (2 ^ t - 1))
  have hx' : b ^^^ (2 ^ t - 1) < 2 ^ j :=
    Nat.lt_of_lt_of_le hx (Nat.pow_le_pow_right (by decide) hj1)
  have h := Nat.testBit_lt_two_pow hx'
  rw [Nat.testBit_xor, Nat.testBit_two_pow_sub_one] at h
  simp [hj2] at h
  exact h

/-- L2b -/
theorem popcount_above {b t : Nat} (hb : b < 2 ^ t) :
    popcount (b >>> bitLen (b ^^^ (2 ^ t - 1))) = t - bitLen (b ^^^ (2 ^ t - 1)) := by
  have hp := Nat.pow_pos (a := 2) (n := t) (by decide)
  have hi : bitLen (b ^^^ (2 ^ t - 1)) ≤ t := bitLen_le (Nat.xor_lt_two_pow hb (by omega))
  have : b >>> bitLen (b ^^^ (2 ^ t - 1)) = 2 ^ (t - bitLen (b ^^^ (2 ^ t - 1))) - 1 := by
    apply Nat.eq_of_testBit_eq
    intro j
    rw [Nat.testBit_shiftRight, Nat.testBit_two_pow_sub_one]
    by_cases hj : bitLen (b ^^^ (2 ^ t - 1)) + j < t
    · rw [ones_above (by omega) hj]; simp; omega
    · have : b < 2 ^ (bitLen (b ^^^ (2 ^ t - 1)) + j) :=
        Nat.lt_of_lt_of_le hb (Nat.pow_le_pow_right (by decide) (by omega))
      rw [Nat.testBit_lt_two_pow this]; simp; omega
  rw [this, popcount_two_pow_sub_one]

/-- general: shift < inner0 when m < n -/
theorem tz_lt_bitLen_xor {m n : Nat} (hm : 0 < m) (hmn : m < n) :
    tz m < bitLen ((m-1) ^^^ (n-1)) := by
  apply Nat.lt_of_not_le
  intro hle
  have hx := lt_two_pow_bitLen ((m-1) ^^^ (n-1))
  have hx' : (m-1) ^^^ (n-1) < 2 ^ tz m :=
    Nat.lt_of_lt_of_le hx (Nat.pow_le_pow_right (by decide) hle)
  obtain ⟨h1, h2⟩ := testBit_pred_tz hm
  -- bits ≥ tz m agree
  have hagree : ∀ j, tz m ≤ j → (n-1).testBit j = (m-1).testBit j := by
    intro j hj
    have : (m-1) ^^^ (n-1) < 2 ^ j := Nat.lt_of_lt_of_le hx' (Nat.pow_le_pow_right (by decide) hj)
    have h := Nat.testBit_lt_two_pow this
    rw [Nat.testBit_xor] at h
    cases h3 : (m-1).testBit j <;> cases h4 : (n-1).testBit j <;> simp [h3, h4] at h ⊢
  -- n - 1 ≤ m - 1 : compare via testBit: show (n-1) ≤ (m-1) using  "m-1 has all low bits set"
  have hdiv : (n-1) / 2 ^ tz m = (m-1) / 2 ^ tz m := by
    rw [← Nat.shiftRight_eq_div_pow, ← Nat.shiftRight_eq_div_pow]
    apply Nat.eq_of_testBit_eq
    intro j
    rw [Nat.testBit_shiftRight, Nat.testBit_shiftRight]
    exact hagree _ (by omega)
  have hmod : (m-1) % 2 ^ tz m = 2 ^ tz m - 1 := by
    apply Nat.eq_of_testBit_eq
    intro j
    rw [Nat.testBit_mod_two_pow, Nat.testBit_two_pow_sub_one]
    by_cases hj : j < tz m
    · simp [hj, h1 j hj]
    · simp [hj]
  have e1 := Nat.div_add_mod (n-1) (2 ^ tz m)
  have e2 := Nat.div_add_mod (m-1) (2 ^ tz m)
  have e3 := Nat.mod_lt (n-1) (Nat.pow_pos (a := 2) (n := tz m) (by decide))
  rw [hdiv] at e1
  omega

end G
namespace G
variable {α : Type}
open M

theorem chain_left (H : α → α → α) {m t : Nat} (hm : 0 < m) (hmk : m < 2 ^ t)
    (seed : α) (rest : List α) (x : α) (hlen : rest.length = t - tz m) :
    chainF H (seed, seed) (rest ++ [x]) (dirAt ((m-1) >>> tz m) (t + 1 - tz m)) =
      ((chainF H (seed, seed) rest (dirAt ((m-1) >>> tz m) (bitLen ((m-1) ^^^ (2 ^ t - 1)) - tz m))).1,
       H (chainF H (seed, seed) rest (dirAt ((m-1) >>> tz m) (bitLen ((m-1) ^^^ (2 ^ t - 1)) - tz m))).2 x) := by
  have hs : tz m ≤ t := tz_le_of_pred_lt hm (by omega)
  rw [chainF_snoc]
  have hd : dirAt ((m-1) >>> tz m) (t + 1 - tz m) rest.length = false := by
    unfold dirAt
    rw [if_pos (by omega), Nat.testBit_shiftRight, hlen]
    have : tz m + (t - tz m) = t := by omega
    rw [this]
    exact Nat.testBit_lt_two_pow (by omega)
  rw [hd]
  have hc : chainF H (seed, seed) rest (dirAt ((m-1) >>> tz m) (t + 1 - tz m)) =
      chainF H (seed, seed) rest (dirAt ((m-1) >>> tz m) (bitLen ((m-1) ^^^ (2 ^ t - 1)) - tz m)) := by
    apply chainF_congr
    intro j hj
    unfold dirAt
    rw [if_pos (by omega)]
    split
    · rfl
    · rw [Nat.testBit_shiftRight]
      exact ones_above (t := t) (by omega) (by omega)
  rw [hc]
  simp [stepD]

theorem len_left {m t : Nat} (hm : 0 < m) (hmk : m < 2 ^ t) :
    (bitLen ((m-1) ^^^ (2 ^ t - 1)) - tz m) + popcount ((m-1) >>> bitLen ((m-1) ^^^ (2 ^ t - 1))) = t - tz m := by
  have hp := Nat.pow_pos (a := 2) (n := t) (by decide)
  have hb : m - 1 < 2 ^ t := by omega
  rw [popcount_above hb]
  have h1 : bitLen ((m-1) ^^^ (2 ^ t - 1)) ≤ t := bitLen_le (Nat.xor_lt_two_pow hb (by omega))
  have h2 := tz_lt_bitLen_xor hm hmk
  have : 2 ^ t - 1 = 2 ^ t - 1 := rfl
  omega

theorem goFull_left_lt (H : α → α → α) (r1 : α) (b : Bool) {m n : Nat} (hm : 0 < m) (hn : 2 ≤ n)
    (hmk : m < splitK n) (q : List α) (x : α) :
    goFull H r1 b m n (q ++ [x]) = (goFull H r1 b m (splitK n) q).map (fun ot => (ot.1, H ot.2 x)) := by
  obtain ⟨ha1, ha2⟩ := splitK_bounds hn
  have hk : splitK n = 2 ^ (n-1).log2 := rfl
  generalize ht : (n-1).log2 = t at *
  rw [hk] at hmk ⊢
  have hkn : 2 ^ t < n := by omega
  have hmn : m ≠ n := by omega
  have hmk' : m ≠ 2 ^ t := by omega
  have hb : m - 1 < 2 ^ t := by omega
  have hi0 : bitLen ((m-1) ^^^ (n-1)) = t + 1 := bitLen_xor_top ha1 ha2 hb
  have hborder : popcount ((m-1) >>> (t+1)) = 0 := by
    rw [shiftRight_eq_zero (by rw [Nat.pow_succ]; omega), popcount_zero]
  have hs : tz m ≤ t := tz_le_of_pred_lt hm hb
  have hlen := len_left hm hmk
  unfold goFull
  simp only [hmn, hmk', if_false, hi0, hborder, Nat.add_zero]
  by_cases hu : (b && (m == 2 ^ tz m)) = true
  · simp only [hu, if_true, List.length_append, List.length_cons, List.length_nil]
    by_cases hl : q.length = t - tz m
    · have hl' : q.length + (0 + 1) = t + 1 - tz m := by omega
      rw [if_pos hl', if_pos (by rw [hlen]; exact hl), chain_left H hm hmk r1 q x hl]
      simp
    · have hl' : ¬ (q.length + (0 + 1) = t + 1 - tz m) := by omega
      rw [if_neg hl', if_neg (by rw [hlen]; exact hl)]
      simp
  · have hu' : (b && (m == 2 ^ tz m)) = false := by simpa using hu
    simp only [hu', Bool.false_eq_true, if_false]
    cases q with
    | nil =>
      simp only [List.nil_append, List.length_nil]
      have : ¬ (0 = t + 1 - tz m) := by omega
      simp [this]
    | cons y q' =>
      simp only [List.cons_append, List.length_append, List.length_cons, List.length_nil]
      by_cases hl : q'.length = t - tz m
      · have hl' : q'.length + (0 + 1) = t + 1 - tz m := by omega
        rw [if_pos hl', if_pos (by rw [hlen]; exact hl), chain_left H hm hmk y q' x hl]
        simp
      · have hl' : ¬ (q'.length + (0 + 1) = t + 1 - tz m) := by omega
        rw [if_neg hl', if_neg (by rw [hlen]; exact hl)]
        simp

end G
namespace G
variable {α : Type}
open M

theorem xor_top_cancel {a b t : Nat} (ha : a < 2 ^ t) (hb : b < 2 ^ t) :
    (2 ^ t + a) ^^^ (2 ^ t + b) = a ^^^ b := by
  apply Nat.eq_of_testBit_eq
  intro j
  rw [Nat.testBit_xor, Nat.testBit_xor]
  rcases Nat.lt_trichotomy j t with h | h | h
  · rw [Nat.testBit_two_pow_add_gt h, Nat.testBit_two_pow_add_gt h]
  · subst h
    rw [Nat.testBit_two_pow_add_eq, Nat.testBit_two_pow_add_eq,
      Nat.testBit_lt_two_pow ha, Nat.testBit_lt_two_pow hb]; rfl
  · have hp : 2 ^ (t+1) ≤ 2 ^ j := Nat.pow_le_pow_right (by decide) h
    have h2 : 2 ^ t < 2 ^ j := Nat.lt_of_lt_of_le (Nat.pow_lt_pow_right (by decide) (Nat.lt_succ_self t)) hp
    rw [Nat.pow_succ] at hp
    rw [Nat.testBit_lt_two_pow (x := 2 ^ t + a) (by omega), Nat.testBit_lt_two_pow (x := 2 ^ t + b) (by omega),
      Nat.testBit_lt_two_pow (x := a) (by omega), Nat.testBit_lt_two_pow (x := b) (by omega)]

theorem shiftRight_top {y t i : Nat} (hi : i ≤ t) (hy : y < 2 ^ t) :
    (2 ^ t + y) >>> i = 2 ^ (t - i) + y >>> i ∧ y >>> i < 2 ^ (t - i) := by
  have e : 2 ^ t = 2 ^ i * 2 ^ (t - i) := by rw [← Nat.pow_add]; congr 1; omega
  rw [Nat.shiftRight_eq_div_pow, Nat.shiftRight_eq_div_pow]
  constructor
  · rw [e, Nat.mul_add_div (Nat.pow_pos (by decide))]
  · apply Nat.div_lt_of_lt_mul; rw [← e]; exact hy

theorem goFull_right (H : α → α → α) (r1 : α) (b : Bool) {m n : Nat} (hn : 2 ≤ n)
    (hkm : splitK n < m) (hmn : m < n) (q : List α) (x : α) :
    goFull H r1 b m n (q ++ [x]) =
      (goFull H r1 false (m - splitK n) (n - splitK n) q).map (fun ot => (H x ot.1, H x ot.2)) := by
  obtain ⟨ha1, ha2⟩ := splitK_bounds hn
  have hk : splitK n = 2 ^ (n-1).log2 := rfl
  generalize ht : (n-1).log2 = t at *
  rw [hk] at hkm ⊢
  have hp := Nat.pow_pos (a := 2) (n := t) (by decide)
  have hp2 : 2 ^ (t+1) = 2 * 2 ^ t := by rw [Nat.pow_succ]; omega
  -- primed quantities
  have hm' : 0 < m - 2 ^ t := by omega
  have hmn' : m - 2 ^ t < n - 2 ^ t := by omega
  have hne : m ≠ n := by omega
  have hne' : m - 2 ^ t ≠ n - 2 ^ t := by omega
  have em : m - 1 = 2 ^ t + (m - 2 ^ t - 1) := by omega
  have en : n - 1 = 2 ^ t + (n - 2 ^ t - 1) := by omega
  have hm1 : m - 2 ^ t - 1 < 2 ^ t := by omega
  have hn1 : n - 2 ^ t - 1 < 2 ^ t := by omega
  have hxor : (m-1) ^^^ (n-1) = (m - 2 ^ t - 1) ^^^ (n - 2 ^ t - 1) := by
    rw [em, en]; exact xor_top_cancel hm1 hn1
  have hi0 : bitLen ((m - 2 ^ t - 1) ^^^ (n - 2 ^ t - 1)) ≤ t := bitLen_le (Nat.xor_lt_two_pow hm1 hn1)
  have htz : tz m = tz (m - 2 ^ t) := by
    have : m = 2 ^ t + (m - 2 ^ t) := by omega
    rw [this, tz_two_pow_add hm' (by omega)]
    congr 1; omega
  have hlt := tz_lt_bitLen_xor hm' hmn'
  have hnotpow : (m == 2 ^ tz m) = false := by
    apply beq_false_of_ne
    intro h
    have h1 : 2 ^ t < 2 ^ tz m := by omega
    have h2 : 2 ^ tz m < 2 ^ (t+1) := by omega
    have h3 := (Nat.pow_lt_pow_iff_right (a := 2) (by decide)).1 h1
    have h4 := (Nat.pow_lt_pow_iff_right (a := 2) (by decide)).1 h2
    omega
  have hsh := shiftRight_top hi0 hm1
  have hborder : popcount ((m-1) >>> bitLen ((m - 2 ^ t - 1) ^^^ (n - 2 ^ t - 1))) =
      popcount ((m - 2 ^ t - 1) >>> bitLen ((m - 2 ^ t - 1) ^^^ (n - 2 ^ t - 1))) + 1 := by
    rw [em, hsh.1, popcount_two_pow_add hsh.2]
  unfold goFull
  simp only [hne, hne', if_false, hxor, hborder, hnotpow, Bool.and_false, Bool.false_and, Bool.false_eq_true, ← htz]
  cases q with
  | nil =>
    simp only [List.nil_append, List.length_nil]
    rw [if_neg (by omega)]; rfl
  | cons y q' =>
    simp only [List.cons_append, List.length_append, List.length_cons, List.length_nil]
    by_cases hl : q'.length = bitLen ((m - 2 ^ t - 1) ^^^ (n - 2 ^ t - 1)) - tz m +
        popcount ((m - 2 ^ t - 1) >>> bitLen ((m - 2 ^ t - 1) ^^^ (n - 2 ^ t - 1)))
    · rw [if_pos (by omega), if_pos hl, chainF_snoc]
      have hd : dirAt ((m-1) >>> tz m) (bitLen ((m - 2 ^ t - 1) ^^^ (n - 2 ^ t - 1)) - tz m) q'.length = true := by
        unfold dirAt; rw [if_neg (by omega)]
      rw [hd]
      have hc : chainF H (y, y) q' (dirAt ((m-1) >>> tz m) (bitLen ((m - 2 ^ t - 1) ^^^ (n - 2 ^ t - 1)) - tz m)) =
          chainF H (y, y) q' (dirAt ((m - 2 ^ t - 1) >>> tz m) (bitLen ((m - 2 ^ t - 1) ^^^ (n - 2 ^ t - 1)) - tz m)) := by
        apply chainF_congr
        intro j _
        unfold dirAt
        split
        · rw [Nat.testBit_shiftRight, Nat.testBit_shiftRight, em, Nat.testBit_two_pow_add_gt (by omega)]
        · rfl
      rw [hc]
      simp [stepD]
    · rw [if_neg (by omega), if_neg hl]; rfl

end G
namespace G
variable {α : Type}
open M

theorem goFull_left_eq (H : α → α → α) (r1 : α) (b : Bool) {n : Nat} (hn : 2 ≤ n)
    (q : List α) (x : α) :
    goFull H r1 b (splitK n) n (q ++ [x]) =
      (goFull H r1 b (splitK n) (splitK n) q).map (fun ot => (ot.1, H ot.2 x)) := by
  obtain ⟨ha1, ha2⟩ := splitK_bounds hn
  have hk : splitK n = 2 ^ (n-1).log2 := rfl
  generalize ht : (n-1).log2 = t at *
  rw [hk]
  have hp := Nat.pow_pos (a := 2) (n := t) (by decide)
  have hne : 2 ^ t ≠ n := by omega
  have hi0 : bitLen ((2 ^ t - 1) ^^^ (n-1)) = t + 1 := bitLen_xor_top ha1 ha2 (by omega)
  have hborder : popcount ((2 ^ t - 1) >>> (t+1)) = 0 := by
    rw [shiftRight_eq_zero (by rw [Nat.pow_succ]; omega), popcount_zero]
  have hmask : (2 ^ t - 1) >>> t = 0 := shiftRight_eq_zero (by omega)
  unfold goFull
  simp only [hne, if_false, if_true, hi0, hborder, tz_two_pow, hmask, beq_self_eq_true, Bool.and_true,
    Nat.add_sub_cancel_left, Nat.add_zero]
  have hd0 : dirAt 0 1 0 = false := by unfold dirAt; simp
  cases b with
  | true =>
    simp only [if_true]
    cases q with
    | nil => simp [chainF, stepD, hd0]
    | cons y q' => simp
  | false =>
    simp only [Bool.false_eq_true, if_false]
    cases q with
    | nil => simp
    | cons y q' =>
      cases q' with
      | nil => simp [chainF, stepD, hd0]
      | cons z q'' => simp

theorem goFull_nil (H : α → α → α) (r1 : α) (b : Bool) {m n : Nat} (hm : 0 < m) (hmn : m < n) :
    goFull H r1 b m n [] = none := by
  have hlt := tz_lt_bitLen_xor hm hmn
  unfold goFull
  simp only [show m ≠ n by omega, if_false]
  split
  · rfl
  · rename_i seed rest heq
    split at heq
    · simp only [Option.some.injEq, Prod.mk.injEq] at heq
      rw [← heq.2]
      simp only [List.length_nil]
      rw [if_neg (by omega)]
    · simp at heq

/-- The Go bit-twiddling algorithm coincides with the recursive (tlog/RFC 6962 style) verifier. -/
theorem goFull_eq_recRoots (H : α → α → α) (r1 : α) :
    ∀ (n : Nat) (b : Bool) (m : Nat) (p : List α), 0 < m → m ≤ n →
      goFull H r1 b m n p = recRoots H r1 b m n p.reverse := by
  intro n
  induction n using Nat.strongRecOn with
  | _ n ih =>
    intro b m p hm hmn
    rw [recRoots.eq_def]
    by_cases hmn' : m = n
    · subst hmn'
      unfold goFull
      simp only [if_true]
      cases b with
      | true =>
        cases p with
        | nil => simp
        | cons y q => simp
      | false =>
        cases p with
        | nil => simp
        | cons y q =>
          cases q with
          | nil => simp
          | cons z q' =>
            simp only [List.reverse_cons, List.append_assoc, List.cons_append, List.nil_append]
            generalize q'.reverse = r
            cases r with
            | nil => simp
            | cons a r' => cases r' <;> simp
    · have hlt : m < n := by omega
      have hn : 2 ≤ n := by omega
      simp only [hmn', if_false, show (2 ≤ n ∧ 0 < m ∧ m < n) from ⟨hn, hm, hlt⟩, dite_true]
      rcases List.eq_nil_or_concat p with hp | ⟨q, x, hp⟩
      · subst hp; simp [goFull_nil H r1 b hm hlt]
      · subst hp
        simp only [List.concat_eq_append, List.reverse_append, List.reverse_cons, List.reverse_nil,
          List.nil_append, List.cons_append]
        have hk := splitK_lt hn
        have hkpos := splitK_pos n
        by_cases hle : m ≤ splitK n
        · simp only [hle, if_true]
          rw [← ih (splitK n) hk b m q hm hle]
          rcases Nat.lt_or_eq_of_le hle with h | h
          · rw [goFull_left_lt H r1 b hm hn h]
            cases goFull H r1 b m (splitK n) q <;> rfl
          · subst h
            rw [goFull_left_eq H r1 b hn]
            cases goFull H r1 b (splitK n) (splitK n) q <;> rfl
        · simp only [hle, if_false]
          rw [← ih (n - splitK n) (by omega) false (m - splitK n) q (by omega) (by omega)]
          rw [goFull_right H r1 b hn (by omega) hlt]
          cases goFull H r1 false (m - splitK n) (n - splitK n) q <;> rfl

/-- End-to-end soundness of the Go algorithm: if it recomputes (root1, root2) and root2 commits to D,
then root1 commits to the first m entries of D. -/
theorem go_sound (H : α → α → α) (e : α) (hinj : Inj H) (root1 root2 : α) (m n : Nat) (p : List α) (D : List α)
    (hm : 0 < m) (hmn : m ≤ n) (hD : D.length = n)
    (hv : goFull H root1 true m n p = some (root1, root2)) (h2 : root2 = mth H e D) :
    root1 = mth H e (D.take m) := by
  rw [goFull_eq_recRoots H root1 n true m p hm hmn] at hv
  exact recRoots_sound H e hinj root1 n true m p.reverse root1 root2 D hm hmn hD hv h2

end G
namespace M
variable {α : Type}
theorem recRoots_complete (H : α → α → α) (e : α) :
    ∀ (n : Nat) (b : Bool) (m : Nat) (D : List α) (old : α),
      0 < m → m ≤ n → D.length = n → (b = true → old = mth H e (D.take m)) →
      recRoots H old b m n (subproofRev H e b m D) = some (mth H e (D.take m), mth H e D) := by
  intro n
  induction n using Nat.strongRecOn with
  | _ n ih =>
    intro b m D old hm hmn hD hold
    rw [recRoots.eq_def, subproofRev.eq_def]
    by_cases hmn' : m = n
    · have htake : D.take m = D := by rw [hmn', ← hD]; exact List.take_length
      simp only [hmn', hD, if_true]
      cases b with
      | true => rw [← hmn', htake] ; simp [hold rfl, htake]
      | false => rw [← hmn', htake]; simp
    · have hlt : m < n := by omega
      have hn : 2 ≤ n := by omega
      have hc : 2 ≤ n ∧ 0 < m ∧ m < n := ⟨hn, hm, hlt⟩
      simp only [hmn', hD, if_false, hc, and_self, dite_true]
      have hk := splitK_lt hn
      have hkpos := splitK_pos n
      have hsplit := mth_split H e D (by omega)
      rw [hD] at hsplit
      by_cases hle : m ≤ splitK n
      · simp only [hle, if_true]
        have := ih (splitK n) hk b m (D.take (splitK n)) old hm hle (by rw [List.length_take]; omega)
          (by intro hb; rw [List.take_take, Nat.min_eq_left hle]; exact hold hb)
        rw [this, List.take_take, Nat.min_eq_left hle, hsplit]
      · simp only [hle, if_false]
        have := ih (n - splitK n) (by omega) false (m - splitK n) (D.drop (splitK n)) old (by omega) (by omega)
          (by rw [List.length_drop]; omega) (by intro h; cases h)
        rw [this]
        have hlenm : (D.take m).length = m := by rw [List.length_take]; omega
        have hsm : splitK m = splitK n := splitK_mid hn (by omega) hmn
        have hsplit2 := mth_split H e (D.take m) (by rw [hlenm]; omega)
        rw [hlenm, hsm, List.take_take, Nat.min_eq_left (by omega), List.drop_take] at hsplit2
        rw [hsplit2, hsplit]

end M
namespace G
open M
variable {α : Type}
/-- Completeness of the Go algorithm: an honest RFC 6962 proof is always accepted. -/
theorem go_complete (H : α → α → α) (e : α) (m : Nat) (D : List α) (hm : 0 < m) (hmn : m ≤ D.length) :
    goFull H (mth H e (D.take m)) true m D.length (rfcProof H e m D) = some (mth H e (D.take m), mth H e D) := by
  rw [goFull_eq_recRoots H _ D.length true m _ hm hmn, rfcProof, List.reverse_reverse]
  exact recRoots_complete H e D.length true m D _ hm hmn rfl (fun _ => rfl)
end G
