import WitnessVerif.Proofs.Merkle
/-
The statement-by-statement transliteration `G.rootFromConsistencyProof` computes exactly what the
mathematical reformulation `G.goFull` (with `b = true`) computes, for `0 < m < n`.
-/
namespace G
variable {α : Type}

theorem dirAt_succ (mask inner j : Nat) :
    dirAt mask (inner + 1) (j + 1) = dirAt (mask / 2) inner j := by
  unfold dirAt
  by_cases h : j < inner
  · rw [if_pos (by omega), if_pos h, Nat.testBit_succ]
  · rw [if_neg (by omega), if_neg h]

theorem chainF_all_true (H : α → α → α) (acc : α × α) (rest : List α) (d : Nat → Bool) (hd : ∀ j, d j = true) :
    chainF H acc rest d = (chainBorderRight H acc.1 rest, chainBorderRight H acc.2 rest) := by
  induction rest generalizing acc d with
  | nil => simp [chainF, chainBorderRight]
  | cons h r ih =>
    simp only [chainF, chainBorderRight]
    rw [ih _ _ (fun j => hd (j + 1)), hd 0]
    simp [stepD]

theorem chainF_eq_go (H : α → α → α) (inner : Nat) :
    ∀ (acc : α × α) (rest : List α) (mask : Nat),
      chainF H acc rest (dirAt mask inner) =
        (chainBorderRight H (chainInnerRight H acc.1 (rest.take inner) mask) (rest.drop inner),
         chainBorderRight H (chainInner H acc.2 (rest.take inner) mask) (rest.drop inner)) := by
  induction inner with
  | zero =>
    intro acc rest mask
    simp only [List.take_zero, List.drop_zero, chainInner, chainInnerRight]
    exact chainF_all_true H acc rest _ (fun j => by unfold dirAt; simp)
  | succ k ih =>
    intro acc rest mask
    cases rest with
    | nil => simp [chainF, chainInner, chainInnerRight, chainBorderRight]
    | cons h r =>
      simp only [chainF, List.take_succ_cons, List.drop_succ_cons, chainInner, chainInnerRight]
      have hfun : (fun j => dirAt mask (k + 1) (j + 1)) = dirAt (mask / 2) k := by
        funext j; exact dirAt_succ mask k j
      rw [hfun, ih]
      have h0 : dirAt mask (k + 1) 0 = mask.testBit 0 := by unfold dirAt; simp
      rw [h0]
      cases hb : mask.testBit 0 <;> simp [stepD]

theorem rootFrom_eq_goFull [DecidableEq α] (H : α → α → α) (r1 : α) {m n : Nat} (hm : 0 < m) (hmn : m < n)
    (p : List α) :
    rootFromConsistencyProof H m n p r1 =
      (match goFull H r1 true m n p with
       | some (h1, h2) => if h1 = r1 then some h2 else none
       | none => none) := by
  have hne : m ≠ n := by omega
  have hnlt : ¬ n < m := by omega
  have hm0 : m ≠ 0 := by omega
  unfold rootFromConsistencyProof goFull
  simp only [hnlt, hne, hm0, if_false]
  by_cases hp : p.length = 0
  · have : p = [] := List.length_eq_zero_iff.mp hp
    subst this
    have hlt := tz_lt_bitLen_xor hm hmn
    simp only [List.length_nil, if_true]
    by_cases hpow : m = 2 ^ tz m
    · have hbeq : (m == 2 ^ tz m) = true := by rw [beq_iff_eq]; exact hpow
      simp only [Bool.true_and, hbeq, if_true]
      rw [if_neg (by omega)]
    · have hbeq : (m == 2 ^ tz m) = false := by rw [beq_eq_false_iff_ne]; exact hpow
      simp [hbeq]
  · simp only [hp, if_false]
    by_cases hpow : m = 2 ^ tz m
    · have hbeq : (m == 2 ^ tz m) = true := by rw [beq_iff_eq]; exact hpow
      simp only [Bool.true_and, hbeq, if_pos hpow, if_true, Nat.zero_add, List.drop_zero]
      by_cases hl : p.length = bitLen ((m - 1) ^^^ (n - 1)) - tz m + popcount ((m - 1) >>> bitLen ((m - 1) ^^^ (n - 1)))
      · rw [if_neg (by omega), if_pos hl, chainF_eq_go]
        simp only
        clear hpow hbeq
        split <;> simp_all
      · rw [if_pos (by omega), if_neg hl]
    · have hbeq : (m == 2 ^ tz m) = false := by rw [beq_eq_false_iff_ne]; exact hpow
      simp only [Bool.true_and, hbeq, if_neg hpow, Bool.false_eq_true, if_false]
      cases p with
      | nil => simp at hp
      | cons x r =>
        simp only [List.length_cons, List.drop_succ_cons, List.drop_zero]
        by_cases hl : r.length = bitLen ((m - 1) ^^^ (n - 1)) - tz m + popcount ((m - 1) >>> bitLen ((m - 1) ^^^ (n - 1)))
        · rw [if_neg (by omega), if_pos hl, chainF_eq_go]
          simp only
          split <;> simp_all
        · rw [if_pos (by omega), if_neg hl]

end G
