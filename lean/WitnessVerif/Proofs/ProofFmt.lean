import WitnessVerif.Model.ProofFmt
import WitnessVerif.Proofs.Base64
/-
`Proof.Unmarshal(Proof.Marshal(p)) = p` for every list of hashes (the empty list and empty hashes
included).
-/
namespace B

theorem splitOn_append (c : UInt8) (l rest : Bytes) (h : c ∉ l) : splitOn c (l ++ c :: rest) = l :: splitOn c rest := by
  induction l with
  | nil => simp [splitOn]
  | cons x r ih =>
    have hx : x ≠ c := fun e => h (by simp [e])
    have hr : c ∉ r := fun e => h (List.mem_cons_of_mem _ e)
    simp only [List.cons_append, splitOn, hx, if_false, ih hr]

end B

namespace ProofFmt
open B

theorem splitOn_marshal (p : List Bytes) : splitOn nl (marshal p) = p.map B64.encode ++ [[]] := by
  induction p with
  | nil => simp [marshal, splitOn]
  | cons h hs ih =>
    have : marshal (h :: hs) = B64.encode h ++ nl :: marshal hs := by simp [marshal, List.flatMap_cons]
    rw [this, splitOn_append nl _ _ (B64.nl_not_mem_encode h), ih]
    simp

theorem mapM_decode_encode (p : List Bytes) : (p.map B64.encode).mapM B64.decode = some p := by
  induction p with
  | nil => rfl
  | cons h hs ih => simp [List.mapM_cons, B64.roundtrip, ih]

theorem marshal_suffix (h : Bytes) (hs : List Bytes) : hasSuffix (marshal (h :: hs)) [nl] = true := by
  have : ∃ x, marshal (h :: hs) = x ++ [nl] := by
    induction hs generalizing h with
    | nil => exact ⟨B64.encode h, by simp [marshal]⟩
    | cons h' hs' ih =>
      obtain ⟨x, hx⟩ := ih h'
      refine ⟨B64.encode h ++ [nl] ++ x, ?_⟩
      have : marshal (h :: h' :: hs') = B64.encode h ++ [nl] ++ marshal (h' :: hs') := by simp [marshal, List.flatMap_cons]
      rw [this, hx]; simp
  obtain ⟨x, hx⟩ := this
  rw [hx]
  simp [hasSuffix, isPrefix]

/-- the proof text format reads back, for every list of hashes including the empty list, as the list
    that was written -/
theorem unmarshal_marshal (p : List Bytes) : unmarshal (marshal p) = some p := by
  cases p with
  | nil => simp [marshal, unmarshal]
  | cons h hs =>
    unfold unmarshal
    have hne : (marshal (h :: hs)).isEmpty = false := by
      have : marshal (h :: hs) = B64.encode h ++ nl :: marshal hs := by simp [marshal, List.flatMap_cons]
      rw [this]; cases B64.encode h <;> simp
    simp only [hne, Bool.false_eq_true, if_false, marshal_suffix h hs, Bool.not_true]
    rw [splitOn_marshal]
    simp only [List.dropLast_concat]
    exact mapM_decode_encode (h :: hs)

end ProofFmt
