import WitnessVerif.Proofs.NoteLemmas
import WitnessVerif.Proofs.ParseBody
import WitnessVerif.Proofs.ProofFmt
/-
Opening what `note.Sign` wrote under the log's verifier and the witness verifiers: the log's
signature and exactly one signature per witness key are verified.
-/
namespace Note
open B

theorem isPrefix_append (p s : Bytes) : isPrefix p (p ++ s) = true := by
  induction p with
  | nil => cases s <;> rfl
  | cons a r ih => simp [isPrefix, ih]

/-- a line as `Sign` writes it is read back by `Open` field by field -/
theorem parseLine_lineOf (name b64 raw : Bytes) (hv : isValidName name = true)
    (hd : B64.decode b64 = some raw) (hlen : 5 ≤ raw.length) :
    parseLine (lineOf name b64) =
      some { raw := name ++ [sp] ++ b64, name := name, b64 := b64, hash := beDecode (raw.take 4), sig := raw.drop 4 } := by
  have hb : b64 ≠ [] := by
    intro h; subst h
    simp [B64.decode, B64.decodeQ] at hd
    subst hd; simp at hlen
  unfold parseLine lineOf
  have hpre : isPrefix sigPrefix (sigPrefix ++ name ++ [sp] ++ b64) = true := by
    have : sigPrefix ++ name ++ [sp] ++ b64 = sigPrefix ++ (name ++ [sp] ++ b64) := by simp
    rw [this]; exact isPrefix_append _ _
  simp only [hpre, Bool.not_true, Bool.false_eq_true, if_false]
  have hdrop : List.drop sigPrefix.length (sigPrefix ++ name ++ [sp] ++ b64) = name ++ sp :: b64 := by
    have : sigPrefix ++ name ++ [sp] ++ b64 = sigPrefix ++ (name ++ sp :: b64) := by simp
    rw [this, List.drop_left]
  rw [hdrop]
  have hchop : chopSpace (name ++ sp :: b64) = (name, b64) := by
    unfold chopSpace
    rw [cut_append sp name b64 (validName_no_sp name hv)]
  simp only [hchop, hd]
  have hbe : (b64 == []) = false := by
    cases b64 with
    | nil => exact absurd rfl hb
    | cons _ _ => rfl
  have hl : ¬ raw.length < 5 := by omega
  simp [hv, hbe, hl]

end Note

namespace B

theorem splitOn_flatten (ls : List Bytes) (hg : ∀ l ∈ ls, nl ∉ l) : splitOn nl (flattenLines ls) = ls ++ [[]] := by
  induction ls with
  | nil => simp [flattenLines, splitOn]
  | cons l rest ih =>
    simp only [flattenLines]
    rw [splitOn_append nl l _ (hg l (List.mem_cons_self ..)), ih (fun x hx => hg x (List.mem_cons_of_mem _ hx))]
    simp

end B

namespace Note
open B

theorem sigLines_flatten (ls : List Bytes) (hg : ∀ l ∈ ls, GoodLine l) : sigLines (flattenLines ls) = ls := by
  unfold sigLines
  rw [splitOn_flatten ls (fun l hl => (hg l hl).2)]
  simp

theorem newLines_eq (signers : List SignerOut) :
    signers.flatMap (fun s => sigLine s.name (B64.encode (B.be 4 s.hash ++ s.sig))) =
      flattenLines (signers.map (fun s => lineOf s.name (B64.encode (B.be 4 s.hash ++ s.sig)))) := by
  induction signers with
  | nil => rfl
  | cons s rest ih => rw [List.flatMap_cons, ih, sigLine_eq]; simp [flattenLines]

/-- `sign_split` with the lines exposed: the block `Sign` writes contains one line per signer -/
theorem sign_lines (n : Note) (signers : List SignerOut) (b : Bytes) (hok : NoteOK n) (h : sign n signers = some b) :
    ∃ ls : List Bytes, b = n.text ++ nl :: flattenLines ls ∧ (∀ x ∈ ls, GoodLine x) ∧ ls ≠ [] ∧
      (∀ s ∈ signers, lineOf s.name (B64.encode (B.be 4 s.hash ++ s.sig)) ∈ ls) ∧
      (∀ s ∈ signers, isValidName s.name = true) := by
  unfold sign at h
  split at h
  · cases h
  split at h
  · cases h
  rename_i _ hvalid
  simp only at h
  cases hk : keepLines (signers.map (fun s => (s.name, s.hash))) (n.sigs ++ n.unverified) with
  | none => simp [hk] at h
  | some old =>
    simp only [hk, Option.some.injEq] at h
    obtain ⟨lsOld, eOld, gOld, lenOld⟩ := keepLines_spec _ _ _ hk hok.b64_ok
    have hv : signers.all (fun s => isValidName s.name) = true := by simpa using hvalid
    -- the new lines, explicitly
    have hnew := newLines_eq signers
    have gNew : ∀ x ∈ signers.map (fun s => lineOf s.name (B64.encode (B.be 4 s.hash ++ s.sig))), GoodLine x := by
      intro x hx
      obtain ⟨s, hs, rfl⟩ := List.mem_map.1 hx
      have := (List.all_eq_true.1 hv) s hs
      exact lineOf_good _ _ (validName_no_nl _ (by simpa using this)) (B64.nl_not_mem_encode _)
    have hne : lsOld ++ signers.map (fun s => lineOf s.name (B64.encode (B.be 4 s.hash ++ s.sig))) ≠ [] := by
      cases signers with
      | cons s rest => simp
      | nil =>
        have hl := lenOld (by intro s _; simp)
        intro hnil
        have : lsOld = [] := (List.append_eq_nil_iff.1 hnil).1
        rw [this] at hl
        have : n.sigs = [] := by
          have : (n.sigs ++ n.unverified).length = 0 := by simpa using hl.symm
          exact (List.append_eq_nil_iff.1 (List.length_eq_zero_iff.1 this)).1
        exact hok.sigs_ne this
    refine ⟨lsOld ++ signers.map (fun s => lineOf s.name (B64.encode (B.be 4 s.hash ++ s.sig))), ?_, ?_, hne, ?_, ?_⟩
    · rw [← h, eOld, hnew, flattenLines_append]; simp
    · intro x hx
      rcases List.mem_append.1 hx with h1 | h1
      · exact gOld x h1
      · exact gNew x h1
    · intro s hs
      exact List.mem_append_right _ (List.mem_map.2 ⟨s, hs, rfl⟩)
    · intro s hs
      have := (List.all_eq_true.1 hv) s hs
      simpa using this

def key (s : Sig) : Bytes × Nat := (s.name, s.hash)

/-- bookkeeping invariant of the signature loop: verified signatures have pairwise distinct keys, and
    `seen` is exactly their set of keys -/
structure SeenInv (st : LoopSt) : Prop where
  nodup : (st.sigs.map key).Nodup
  sub : ∀ s ∈ st.sigs, key s ∈ st.seen
  sup : ∀ k ∈ st.seen, ∃ s ∈ st.sigs, key s = k

theorem openLoop_seen (vs : List Verifier) (text : Bytes) :
    ∀ (lines : List Bytes) (st st' : LoopSt), openLoop vs text lines st = .ok st' → SeenInv st →
      SeenInv st' ∧ (∀ k ∈ st.seen, k ∈ st'.seen) ∧
      (∀ line ∈ lines, ∀ l, parseLine line = some l → ∀ v, lookup vs l.name l.hash = .found v → (l.name, l.hash) ∈ st'.seen) := by
  intro lines
  induction lines with
  | nil => intro st st' h hi; simp [openLoop] at h; subst h; exact ⟨hi, fun k hk => hk, by simp⟩
  | cons line rest ih =>
    intro st st' h hi
    rw [openLoop] at h
    cases hp : parseLine line with
    | none => simp [hp] at h
    | some l =>
      simp only [hp] at h
      split at h
      · cases h
      cases hlk : lookup vs l.name l.hash with
      | unknown =>
        simp only [hlk] at h
        have step : ∀ stm : LoopSt, openLoop vs text rest stm = .ok st' → stm.sigs = st.sigs → stm.seen = st.seen →
            SeenInv st' ∧ (∀ k ∈ st.seen, k ∈ st'.seen) ∧
            (∀ line' ∈ line :: rest, ∀ l', parseLine line' = some l' → ∀ v, lookup vs l'.name l'.hash = .found v → (l'.name, l'.hash) ∈ st'.seen) := by
          intro stm hrun h1 h2
          have him : SeenInv stm := ⟨by rw [h1]; exact hi.nodup, by rw [h1, h2]; exact hi.sub, by rw [h1, h2]; exact hi.sup⟩
          obtain ⟨a, b, c⟩ := ih stm st' hrun him
          refine ⟨a, fun k hk => b k (by rw [h2]; exact hk), ?_⟩
          intro line' hl' l' hp' v hv
          rcases List.mem_cons.1 hl' with e | e
          · subst e; rw [hp] at hp'; cases hp'; rw [hlk] at hv; cases hv
          · exact c line' e l' hp' v hv
        split at h
        · exact step _ h rfl rfl
        · exact step _ h rfl rfl
      | ambiguous => simp [hlk] at h
      | found v =>
        simp only [hlk] at h
        split at h
        · rename_i hseen
          obtain ⟨a, b, c⟩ := ih _ st' h ⟨hi.nodup, hi.sub, hi.sup⟩
          refine ⟨a, b, ?_⟩
          intro line' hl' l' hp' v' hv'
          rcases List.mem_cons.1 hl' with e | e
          · subst e; rw [hp] at hp'; cases hp'
            exact b _ (by simpa using hseen)
          · exact c line' e l' hp' v' hv'
        · rename_i hnot
          split at h
          · cases h
          · have hnew : SeenInv (⟨st.sigs ++ [⟨l.name, l.hash, l.b64⟩], st.unverified, (l.name, l.hash) :: st.seen,
                st.seenUnverified, st.numSig + 1⟩ : LoopSt) := by
              refine ⟨?_, ?_, ?_⟩
              · simp only [List.map_append, List.map_cons, List.map_nil]
                rw [List.nodup_append]
                refine ⟨hi.nodup, by simp, ?_⟩
                intro a ha b hb
                simp only [List.mem_cons, List.not_mem_nil, or_false] at hb
                subst hb
                obtain ⟨s, hs, rfl⟩ := List.mem_map.1 ha
                intro he
                have := hi.sub s hs
                rw [he] at this
                simp only [key] at this
                have hc : st.seen.contains (l.name, l.hash) = true := by simpa using this
                exact hnot hc
              · intro s hs
                rcases List.mem_append.1 hs with h1 | h1
                · exact List.mem_cons_of_mem _ (hi.sub s h1)
                · simp only [List.mem_cons, List.not_mem_nil, or_false] at h1; subst h1; simp [key]
              · intro k hk
                rcases List.mem_cons.1 hk with h1 | h1
                · exact ⟨_, List.mem_append_right _ (List.mem_cons_self ..), by simp [key, h1]⟩
                · obtain ⟨s, hs, e⟩ := hi.sup k h1
                  exact ⟨s, List.mem_append_left _ hs, e⟩
            obtain ⟨a, b, c⟩ := ih _ st' h hnew
            refine ⟨a, fun k hk => b k (List.mem_cons_of_mem _ hk), ?_⟩
            intro line' hl' l' hp' v' hv'
            rcases List.mem_cons.1 hl' with e | e
            · subst e; rw [hp] at hp'; cases hp'
              exact b _ (List.mem_cons_self ..)
            · exact c line' e l' hp' v' hv'

/-- Whoever opens the bytes an accepted update returned — under the log's verifier and the witness
    verifiers, or any other list in which each witness key is known and unambiguous — finds, for every
    configured witness key, exactly one signature, and it is valid over the log's text; every verified
    signature has a distinct key. -/
theorem open_signed_one_per_key (n : Note) (signers : List SignerOut) (b : Bytes) (hok : NoteOK n)
    (hs : sign n signers = some b) (vs : List Verifier) (n' : Note) (ho : «open» b vs = .ok n')
    (hsig : ∀ s ∈ signers, s.sig ≠ [] ∧ s.hash < 2 ^ 32)
    (hknown : ∀ s ∈ signers, ∃ v, lookup vs s.name s.hash = .found v) :
    n'.text = n.text ∧ (n'.sigs.map key).Nodup ∧ (∀ x ∈ n'.sigs, Verified vs n'.text x) ∧
    ∀ s ∈ signers, ∃ x ∈ n'.sigs, x.name = s.name ∧ x.hash = s.hash := by
  obtain ⟨ls, hb, hg, hne, hmem, hval⟩ := sign_lines n signers b hok hs
  obtain ⟨t', ht'⟩ := hok.text_nl
  have hsplit := splitLast_sign n.text ls hne hg t' ht'
  rw [← hb] at hsplit
  obtain ⟨_, hver, _⟩ := open_spec b vs n' ho
  have htext := open_sign_text n signers b hok hs vs n' ho
  -- unfold `open` to get at the loop
  unfold «open» at ho
  split at ho
  · cases ho
  simp only [hsplit] at ho
  split at ho
  · cases ho
  cases hl : openLoop vs n.text (sigLines (flattenLines ls)) {} with
  | error e => simp [hl] at ho
  | ok st =>
    simp only [hl] at ho
    split at ho
    · cases ho
    · simp only [Except.ok.injEq] at ho
      have hsigs : n'.sigs = st.sigs := by rw [← ho]
      rw [sigLines_flatten ls hg] at hl
      obtain ⟨inv, _, hall⟩ := openLoop_seen vs n.text ls {} st hl ⟨by simp, by simp, by simp⟩
      refine ⟨htext, by rw [hsigs]; exact inv.nodup, hver, ?_⟩
      intro s hsm
      obtain ⟨hne', hlt⟩ := hsig s hsm
      obtain ⟨v, hv⟩ := hknown s hsm
      have hraw : B64.decode (B64.encode (B.be 4 s.hash ++ s.sig)) = some (B.be 4 s.hash ++ s.sig) := B64.roundtrip _
      have hlen : 5 ≤ (B.be 4 s.hash ++ s.sig).length := by
        have : 0 < s.sig.length := by cases hq : s.sig with
          | nil => exact absurd hq hne'
          | cons _ _ => simp
        simp [B.be]; omega
      have hpl := parseLine_lineOf s.name _ _ (hval s hsm) hraw hlen
      have hhash : beDecode ((B.be 4 s.hash ++ s.sig).take 4) = s.hash := by
        have : (B.be 4 s.hash ++ s.sig).take 4 = B.be 4 s.hash := by
          rw [List.take_append_of_le_length (by simp [B.be])]
          exact List.take_of_length_le (by simp [B.be])
        rw [this]
        simp only [B.be, beDecode, List.range, List.range.loop, List.map_cons, List.map_nil, List.foldl_cons, List.foldl_nil]
        have e : ∀ k : Nat, (UInt8.ofNat (k % 256)).toNat = k % 256 := by
          intro k; simp
        simp only [e]
        simp only [Nat.shiftRight_eq_div_pow]
        omega
      have hin := hall _ (hmem s hsm) _ hpl v (by simp only; rw [hhash]; exact hv)
      simp only [hhash] at hin
      obtain ⟨x, hx, hkx⟩ := inv.sup _ hin
      refine ⟨x, by rw [hsigs]; exact hx, ?_, ?_⟩
      · have := congrArg Prod.fst hkx; simpa [key] using this
      · have := congrArg Prod.snd hkx; simpa [key] using this

end Note
