import WitnessVerif.Proofs.Core
/-
Histories at the level of parsed checkpoints: the list of accepted checkpoints is append-only.
-/
namespace Core
open M G
variable {α : Type} [DecidableEq α]

structure Req (α : Type) where
  old : Nat
  next : CP α
  proof : List α

def step (H : α → α → α) (s : Option (CP α)) (r : Req α) : Option (CP α) × Verdict :=
  let v := updateCore H s r.old r.next r.proof
  (if v = .accepted then some r.next else s, v)

/-- run a history, collecting accepted checkpoints in order -/
def run (H : α → α → α) : Option (CP α) → List (Req α) → List (CP α)
  | _, [] => []
  | s, r :: rs =>
    let (s', v) := step H s r
    if v = .accepted then r.next :: run H s' rs else run H s' rs

theorem run_pairwise_ext (H : α → α → α) (e : α) (hinj : Inj H) :
    ∀ (reqs : List (Req α)) (s : Option (CP α)),
      (run H s reqs).Pairwise (Ext H e) ∧ (∀ p, s = some p → ∀ c ∈ run H s reqs, Ext H e p c) := by
  intro reqs
  induction reqs with
  | nil => intro s; simp [run]
  | cons r rs ih =>
    intro s
    simp only [run, step]
    by_cases hv : updateCore H s r.old r.next r.proof = .accepted
    · simp only [hv, if_true]
      obtain ⟨ih1, ih2⟩ := ih (some r.next)
      refine ⟨List.pairwise_cons.2 ⟨fun c hc => ih2 r.next rfl c hc, ih1⟩, ?_⟩
      intro p hp c hc
      subst hp
      have hpn := decide_accepted_ext H e hinj p r.next r.old r.proof hv
      rcases List.mem_cons.1 hc with h | h
      · subst h; exact hpn
      · exact Ext.trans H e hpn (ih2 r.next rfl c h)
    · simp only [hv, if_false]
      exact ih s

end Core
