import WitnessVerif.Model.Tlog
/-
The proof `tlog.ProveTree` assembles from subtree hashes is the RFC 6962 consistency proof PROOF(n, D[0:t]).
-/
namespace Tlog
variable {α : Type}

theorem slice_length (D : List α) (lo hi : Nat) (h : hi ≤ D.length) : (slice D lo hi).length = hi - lo := by
  unfold slice; simp only [List.length_take, List.length_drop]; omega

theorem slice_take (D : List α) (lo hi k : Nat) (hk : k ≤ hi - lo) : (slice D lo hi).take k = slice D lo (lo + k) := by
  unfold slice
  rw [List.take_take, Nat.min_eq_left hk]
  congr 1; omega

theorem slice_drop (D : List α) (lo hi k : Nat) : (slice D lo hi).drop k = slice D (lo + k) hi := by
  unfold slice
  rw [List.drop_take, List.drop_drop]
  congr 1; omega

theorem treeProof_base (H : α → α → α) (e : α) (D : List α) (lo hi : Nat) :
    treeProof H e D lo hi hi = if lo = 0 then [] else [M.mth H e (slice D lo hi)] := by
  rw [treeProof, if_pos rfl]

theorem treeProof_step (H : α → α → α) (e : α) (D : List α) (lo hi n : Nat) (h1 : n ≠ hi) (h : lo < n ∧ n < hi) :
    treeProof H e D lo hi n =
      if n ≤ lo + M.splitK (hi - lo) then treeProof H e D lo (lo + M.splitK (hi - lo)) n ++ [M.mth H e (slice D (lo + M.splitK (hi - lo)) hi)]
      else treeProof H e D (lo + M.splitK (hi - lo)) hi n ++ [M.mth H e (slice D lo (lo + M.splitK (hi - lo)))] := by
  rw [treeProof, if_neg h1, dif_pos h]

theorem subproofRev_base (H : α → α → α) (e : α) (b : Bool) (D : List α) :
    M.subproofRev H e b D.length D = if b then [] else [M.mth H e D] := by
  rw [M.subproofRev, if_pos rfl]

theorem subproofRev_step (H : α → α → α) (e : α) (b : Bool) (m : Nat) (D : List α) (h1 : m ≠ D.length)
    (h : 2 ≤ D.length ∧ 0 < m ∧ m < D.length) :
    M.subproofRev H e b m D =
      if m ≤ M.splitK D.length then
        M.mth H e (D.drop (M.splitK D.length)) :: M.subproofRev H e b m (D.take (M.splitK D.length))
      else
        M.mth H e (D.take (M.splitK D.length)) :: M.subproofRev H e false (m - M.splitK D.length) (D.drop (M.splitK D.length)) := by
  rw [M.subproofRev, if_neg h1, dif_pos h]

theorem treeProof_eq (H : α → α → α) (e : α) (D : List α) :
    ∀ (d lo hi n : Nat), hi - lo = d → lo < n → n ≤ hi → hi ≤ D.length →
      treeProof H e D lo hi n = (M.subproofRev H e (decide (lo = 0)) (n - lo) (slice D lo hi)).reverse := by
  intro d
  induction d using Nat.strongRecOn with
  | _ d ih =>
    intro lo hi n hd hlo hhi hlen
    have hL := slice_length D lo hi hlen
    by_cases hn : n = hi
    · subst hn
      have hm : n - lo = (slice D lo n).length := hL.symm
      rw [treeProof_base, hm, subproofRev_base]
      by_cases h0 : lo = 0
      · simp [h0]
      · simp [h0]
    · have hlt : n < hi := by omega
      have hkpos := M.splitK_pos (hi - lo)
      have hklt := M.splitK_lt (n := hi - lo) (by omega)
      rw [treeProof_step H e D lo hi n hn ⟨hlo, hlt⟩,
        subproofRev_step H e _ (n - lo) (slice D lo hi) (by rw [hL]; omega) (by rw [hL]; omega)]
      simp only [hL]
      by_cases hm : n ≤ lo + M.splitK (hi - lo)
      · rw [if_pos hm, if_pos (by omega)]
        rw [List.reverse_cons, slice_drop, slice_take D lo hi _ (by omega)]
        rw [ih (lo + M.splitK (hi - lo) - lo) (by omega) lo (lo + M.splitK (hi - lo)) n rfl hlo hm (by omega)]
      · rw [if_neg hm, if_neg (by omega)]
        rw [List.reverse_cons, slice_drop, slice_take D lo hi _ (by omega)]
        rw [ih (hi - (lo + M.splitK (hi - lo))) (by omega) (lo + M.splitK (hi - lo)) hi n rfl (by omega) hhi hlen]
        have hf : decide (lo + M.splitK (hi - lo) = 0) = false := by simp; omega
        rw [hf]
        congr 3; omega

/-- `ProveTree(t, n)` over the hashes of the honest log's leaf list is PROOF(n, D[0:t]) of RFC 6962 -/
theorem proveTree_eq_rfc (H : α → α → α) (e : α) (D : List α) (t n : Nat) (hn : 0 < n) (hnt : n ≤ t) (ht : t ≤ D.length) :
    proveTree H e D t n = some (M.rfcProof H e n (D.take t)) := by
  unfold proveTree
  rw [if_neg (by omega)]
  rw [treeProof_eq H e D t 0 t n rfl hn hnt ht]
  unfold M.rfcProof slice
  simp

end Tlog
