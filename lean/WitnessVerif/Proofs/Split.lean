import WitnessVerif.Model.Bytes
/-
`bytes.LastIndex(msg, "\n\n")` as used by `note.Open`, and the fact that it finds exactly the
boundary `note.Sign` wrote: text ending in a newline, a blank line, then non-empty newline-free
signature lines.
-/
namespace B

theorem findNN_spec : ∀ (l p q : Bytes), findNN l = some (p, q) → l = p ++ nl :: nl :: q := by
  intro l
  induction l with
  | nil => intro p q h; simp [findNN] at h
  | cons a r ih =>
    intro p q h
    cases r with
    | nil => simp [findNN] at h
    | cons b r' =>
      rw [findNN] at h
      by_cases hab : a = nl ∧ b = nl
      · simp only [hab, and_self, if_true, Option.some.injEq, Prod.mk.injEq] at h
        obtain ⟨h1, h2⟩ := h
        subst h1 h2
        simp [hab.1, hab.2]
      · simp only [hab, if_false] at h
        cases hf : findNN (b :: r') with
        | none => simp [hf] at h
        | some pq =>
          obtain ⟨p', q'⟩ := pq
          simp only [hf, Option.some.injEq, Prod.mk.injEq] at h
          obtain ⟨h1, h2⟩ := h
          subst h1 h2
          rw [ih p' q' hf]
          simp

/-- what `splitLast` returns: the message is `text ++ "\n" ++ sigs` and the text ends in a newline -/
theorem splitLast_spec (msg text sigs : Bytes) (h : splitLast msg = some (text, sigs)) :
    msg = text ++ nl :: sigs ∧ ∃ t', text = t' ++ [nl] := by
  unfold splitLast at h
  cases hf : findNN msg.reverse with
  | none => simp [hf] at h
  | some pq =>
    obtain ⟨p, q⟩ := pq
    simp only [hf, Option.some.injEq, Prod.mk.injEq] at h
    obtain ⟨h1, h2⟩ := h
    have := findNN_spec _ _ _ hf
    have hm : msg = (p ++ nl :: nl :: q).reverse := by rw [← this, List.reverse_reverse]
    subst h1 h2
    refine ⟨?_, q.reverse, rfl⟩
    rw [hm]; simp

/-- no two consecutive newlines -/
def NoNN : Bytes → Prop
  | [] => True
  | [_] => True
  | a :: b :: r => ¬ (a = nl ∧ b = nl) ∧ NoNN (b :: r)

theorem findNN_append (S t : Bytes) (h1 : NoNN S) (h2 : S.getLast? ≠ some nl) :
    findNN (S ++ nl :: nl :: t) = some (S, t) := by
  induction S with
  | nil => simp [findNN]
  | cons a S ih =>
    cases S with
    | nil =>
      have ha : a ≠ nl := by simpa using h2
      simp [findNN, ha]
    | cons b S' =>
      have hn : ¬ (a = nl ∧ b = nl) := h1.1
      have h1' : NoNN (b :: S') := h1.2
      have h2' : (b :: S').getLast? ≠ some nl := by
        simpa [List.getLast?_cons_cons] using h2
      have := ih h1' h2'
      simp only [List.cons_append] at this ⊢
      rw [findNN]
      simp only [hn, if_false, this]

/-- a block of lines: each followed by a newline -/
def flattenLines : List Bytes → Bytes
  | [] => []
  | l :: ls => l ++ nl :: flattenLines ls

def GoodLine (l : Bytes) : Prop := l ≠ [] ∧ nl ∉ l

theorem NoNN_append_single (A : Bytes) (x : UInt8) (hA : NoNN A) (h : ¬ (A.getLast? = some nl ∧ x = nl)) :
    NoNN (A ++ [x]) := by
  induction A with
  | nil => simp [NoNN]
  | cons a A ih =>
    cases A with
    | nil =>
      simp only [List.cons_append, List.nil_append, NoNN, and_true]
      intro hh; exact h ⟨by simp [hh.1], hh.2⟩
    | cons b A' =>
      simp only [List.cons_append]
      refine ⟨hA.1, ?_⟩
      have := ih hA.2 (by simpa [List.getLast?_cons_cons] using h)
      simpa using this

theorem NoNN_head {a : UInt8} {A : Bytes} (h : NoNN (a :: A)) : ¬ (a = nl ∧ A.head? = some nl) := by
  cases A with
  | nil => simp
  | cons b A' => simpa using h.1

theorem NoNN_tail {a : UInt8} {A : Bytes} (h : NoNN (a :: A)) : NoNN A := by
  cases A with
  | nil => trivial
  | cons b A' => exact h.2

theorem NoNN_reverse (A : Bytes) (h : NoNN A) : NoNN A.reverse := by
  induction A with
  | nil => trivial
  | cons a A ih =>
    rw [List.reverse_cons]
    apply NoNN_append_single _ _ (ih (NoNN_tail h))
    intro hh
    apply NoNN_head h
    refine ⟨hh.2, ?_⟩
    have := hh.1
    rwa [List.getLast?_reverse] at this

theorem NoNN_of_not_mem (l : Bytes) (h : nl ∉ l) : NoNN l := by
  induction l with
  | nil => trivial
  | cons a l ih =>
    cases l with
    | nil => trivial
    | cons b l' =>
      refine ⟨fun hh => h (by simp [hh.1]), ih (fun hm => h (List.mem_cons_of_mem _ hm))⟩

theorem NoNN_append (A C : Bytes) (hA : NoNN A) (hB : NoNN C)
    (h : ¬ (A.getLast? = some nl ∧ C.head? = some nl)) : NoNN (A ++ C) := by
  induction A with
  | nil => simpa using hB
  | cons a A ih =>
    cases A with
    | nil =>
      cases C with
      | nil => trivial
      | cons b B' =>
        refine ⟨fun hh => h (by simp [hh.1, hh.2]), hB⟩
    | cons a' A' =>
      simp only [List.cons_append]
      refine ⟨hA.1, ?_⟩
      have := ih hA.2 (by simpa [List.getLast?_cons_cons] using h)
      simpa using this

theorem flatten_head (ls : List Bytes) (hg : ∀ l ∈ ls, GoodLine l) : (flattenLines ls).head? ≠ some nl := by
  cases ls with
  | nil => simp [flattenLines]
  | cons l ls =>
    obtain ⟨hne, hnl⟩ := hg l (List.mem_cons_self ..)
    cases l with
    | nil => exact absurd rfl hne
    | cons c l' =>
      simp only [flattenLines, List.cons_append, List.head?_cons, ne_eq, Option.some.injEq]
      intro hc; exact hnl (by simp [hc])

theorem NoNN_flatten (ls : List Bytes) (hg : ∀ l ∈ ls, GoodLine l) : NoNN (flattenLines ls) := by
  induction ls with
  | nil => trivial
  | cons l ls ih =>
    have hgl := hg l (List.mem_cons_self ..)
    have hrest : ∀ l' ∈ ls, GoodLine l' := fun l' h' => hg l' (List.mem_cons_of_mem _ h')
    simp only [flattenLines]
    apply NoNN_append
    · exact NoNN_of_not_mem l hgl.2
    · have hh := flatten_head ls hrest
      cases hf : flattenLines ls with
      | nil => trivial
      | cons b r =>
        rw [hf] at hh
        refine ⟨fun h2 => hh (by simp [h2.2]), ?_⟩
        rw [← hf]; exact ih hrest
    · intro hh
      have : l.getLast? = some nl := hh.1
      have hm : nl ∈ l := by
        rw [List.getLast?_eq_some_iff] at this
        obtain ⟨ys, rfl⟩ := this
        simp
      exact hgl.2 hm

/-- reparse stability of the split: for a text ending in a newline (it may itself contain blank
    lines) and a non-empty block of good lines, `LastIndex("\n\n")` finds exactly the boundary -/
theorem splitLast_sign (text : Bytes) (ls : List Bytes) (hne : ls ≠ []) (hg : ∀ l ∈ ls, GoodLine l)
    (t' : Bytes) (htext : text = t' ++ [nl]) :
    splitLast (text ++ nl :: flattenLines ls) = some (text, flattenLines ls) := by
  have h1 : NoNN (flattenLines ls).reverse := NoNN_reverse _ (NoNN_flatten ls hg)
  have h2 : (flattenLines ls).reverse.getLast? ≠ some nl := by
    rw [List.getLast?_reverse]; exact flatten_head ls hg
  unfold splitLast
  have : (text ++ nl :: flattenLines ls).reverse = (flattenLines ls).reverse ++ nl :: nl :: t'.reverse := by
    subst htext; simp
  rw [this, findNN_append _ _ h1 h2]
  subst htext; simp

theorem flattenLines_append (a b : List Bytes) : flattenLines (a ++ b) = flattenLines a ++ flattenLines b := by
  induction a with
  | nil => rfl
  | cons x xs ih => simp [flattenLines, ih]

end B
