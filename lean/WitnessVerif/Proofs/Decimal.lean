import WitnessVerif.Model.Decimal
/-
`%d` then `strconv.ParseUint(·, 10, 64)` gives the number back.
-/
namespace Dec

theorem digitVal_digitChar (d : Nat) (h : d < 10) : digitVal (digitChar d) = some d := by
  have : d = 0 ∨ d = 1 ∨ d = 2 ∨ d = 3 ∨ d = 4 ∨ d = 5 ∨ d = 6 ∨ d = 7 ∨ d = 8 ∨ d = 9 := by omega
  rcases this with h | h | h | h | h | h | h | h | h | h <;> subst h <;> rfl

theorem parse_toDigits : ∀ (n fuel : Nat) (acc : Bytes), n < fuel →
    ∃ k, 1 ≤ k ∧ ∀ a, parseDigits a (toDigitsAux fuel n acc) = parseDigits (a * 10 ^ k + n) acc := by
  intro n
  induction n using Nat.strongRecOn with
  | _ n ih =>
    intro fuel acc hf
    cases fuel with
    | zero => omega
    | succ fuel =>
      simp only [toDigitsAux]
      by_cases hlt : n < 10
      · rw [if_pos hlt]
        refine ⟨1, Nat.le_refl _, fun a => ?_⟩
        simp [parseDigits, digitVal_digitChar n hlt]
      · rw [if_neg hlt]
        obtain ⟨k, hk, hpar⟩ := ih (n / 10) (by omega) fuel (digitChar (n % 10) :: acc) (by omega)
        refine ⟨k + 1, by omega, fun a => ?_⟩
        rw [hpar a]
        simp only [parseDigits, digitVal_digitChar (n % 10) (by omega)]
        congr 1
        rw [Nat.pow_succ]
        have := Nat.div_add_mod n 10
        calc (a * 10 ^ k + n / 10) * 10 + n % 10 = a * 10 ^ k * 10 + (10 * (n / 10) + n % 10) := by
              rw [Nat.add_mul]; omega
          _ = a * (10 ^ k * 10) + n := by rw [this, Nat.mul_assoc]

theorem toDigitsAux_ne_nil (fuel n : Nat) (acc : Bytes) (hf : 0 < fuel) (hfn : n < fuel) : toDigitsAux fuel n acc ≠ [] := by
  induction fuel generalizing n acc with
  | zero => omega
  | succ fuel ih =>
    simp only [toDigitsAux]
    split
    · simp
    · exact ih (n / 10) _ (by omega) (by omega)

theorem print_ne_nil (n : Nat) : print n ≠ [] := toDigitsAux_ne_nil (n + 1) n [] (by omega) (by omega)

/-- every old size below 2^64 written with `%d` parses back to itself -/
theorem parse_print (n : Nat) (h : n < 2 ^ 64) : parseUint64 (print n) = some n := by
  obtain ⟨k, _, hp⟩ := parse_toDigits n (n + 1) [] (by omega)
  unfold parseUint64
  have hne := print_ne_nil n
  cases hpr : print n with
  | nil => exact absurd hpr hne
  | cons c r =>
    simp only
    have := hp 0
    unfold print at hpr
    rw [hpr] at this
    rw [this]
    simp [parseDigits, h]

theorem digitChar_ne (d : Nat) (h : d < 10) (c : UInt8) (hc : c = 10 ∨ c = 13 ∨ c = 32) : digitChar d ≠ c := by
  have : d = 0 ∨ d = 1 ∨ d = 2 ∨ d = 3 ∨ d = 4 ∨ d = 5 ∨ d = 6 ∨ d = 7 ∨ d = 8 ∨ d = 9 := by omega
  rcases this with h | h | h | h | h | h | h | h | h | h <;> subst h <;> rcases hc with hc | hc | hc <;> subst hc <;> decide

/-- a printed number consists of digits only -/
theorem print_digits (n : Nat) : ∀ c ∈ print n, ∃ d, d < 10 ∧ c = digitChar d := by
  have gen : ∀ (fuel n : Nat) (acc : Bytes), (∀ c ∈ acc, ∃ d, d < 10 ∧ c = digitChar d) →
      ∀ c ∈ toDigitsAux fuel n acc, ∃ d, d < 10 ∧ c = digitChar d := by
    intro fuel
    induction fuel with
    | zero => intro n acc ha; simpa [toDigitsAux] using ha
    | succ fuel ih =>
      intro n acc ha
      simp only [toDigitsAux]
      split
      · rename_i hlt
        intro c hc
        rcases List.mem_cons.1 hc with h | h
        · exact ⟨n, hlt, h⟩
        · exact ha c h
      · apply ih
        intro c hc
        rcases List.mem_cons.1 hc with h | h
        · exact ⟨n % 10, by omega, h⟩
        · exact ha c h
  exact gen (n + 1) n [] (by simp)

theorem print_length_le (n : Nat) (h : n < 2 ^ 64) : (print n).length ≤ 20 := by
  have gen : ∀ (fuel n : Nat) (acc : Bytes) (k : Nat), n < 10 ^ k → 1 ≤ k → n < fuel → (toDigitsAux fuel n acc).length ≤ acc.length + k := by
    intro fuel
    induction fuel with
    | zero => intro n acc k _ _ hf; omega
    | succ fuel ih =>
      intro n acc k hk hk1 hf
      simp only [toDigitsAux]
      split
      · simp; omega
      · rename_i hge
        have hk2 : 2 ≤ k := by
          apply Nat.lt_of_not_le; intro hle
          have : k = 1 := by omega
          subst this; simp at hk; omega
        have := ih (n / 10) (digitChar (n % 10) :: acc) (k - 1) (by
          have : 10 ^ k = 10 ^ (k - 1) * 10 := by rw [← Nat.pow_succ]; congr 1; omega
          rw [this] at hk; omega) (by omega) (by omega)
        simp only [List.length_cons] at this
        omega
  have := gen (n + 1) n [] 20 (by have : (2:Nat)^64 < 10^20 := by decide
                                  omega) (by omega) (by omega)
  simpa [print] using this

end Dec
