import WitnessVerif.Model.Bastion
import WitnessVerif.Proofs.BytesRun
/-
The endpoint in front of the witness adds no way to change the witness state: a session of HTTP requests
moves the store exactly as the sequential witness run on the requests that reached it.
-/
namespace Bastion
open Wit

/-- `serve` invokes `Update` exactly on the requests `asked` names, with exactly those arguments -/
theorem serve_out (w : Wit.Cfg) (h : HCfg) (store : Wit.Store) (p : Bool × Bytes) :
    (serve w h store p.1 p.2).2 = (asked h p).map (fun r => (Wit.step w store r).2) := by
  unfold serve asked reqOf
  cases hp : p.1 with
  | false => simp
  | true =>
    simp only [Bool.not_true, Bool.false_eq_true, if_false, if_true]
    cases hb : parseBody p.2 with
    | none => simp
    | some t =>
      obtain ⟨old, proof, cp⟩ := t
      simp only
      cases hc : B.cut B.nl cp with
      | none => simp
      | some fr =>
        obtain ⟨first, rest⟩ := fr
        simp only
        cases hf : h.logs.find? (fun l => l.1 == Cp.logID first) with
        | none => simp
        | some lo =>
          obtain ⟨lid, origin⟩ := lo
          simp only [Option.map_some, Option.some.injEq]
          rw [step_out]

/-- the store after a session is the store after the sequential witness ran the requests that reached it -/
theorem session_store (w : Wit.Cfg) (h : HCfg) (ps : List (Bool × Bytes)) (s : Wit.Store) :
    (session w h s ps).1 = (Wit.run w s (ps.filterMap (asked h))).1 := by
  induction ps generalizing s with
  | nil => simp [session, Wit.run]
  | cons p ps ih =>
    unfold session post
    simp only
    cases ha : asked h p with
    | none =>
      simp only [List.filterMap_cons, ha]
      exact ih s
    | some r =>
      simp only [List.filterMap_cons, ha, Wit.run]
      exact ih _

end Bastion
