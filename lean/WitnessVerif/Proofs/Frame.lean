import WitnessVerif.Model.Witness
/-
Frame lemmas for the sequential witness: what one `Update` can change.
-/
namespace Wit

theorem Store.get_set_same (s : Store) (id v : Bytes) : (s.set id v).get id = some v := by
  simp [Store.get, Store.set]

theorem Store.get_set_other (s : Store) (id id' v : Bytes) (h : id' ≠ id) : (s.set id v).get id' = s.get id' := by
  unfold Store.get Store.set
  have hne : ((id, v).1 == id') = false := by simp; exact fun h' => h h'.symm
  rw [List.find?_cons_of_neg (by simpa using hne)]
  congr 1
  induction s with
  | nil => rfl
  | cons kv rest ih =>
    by_cases hk : kv.1 = id
    · have : (kv.1 != id) = false := by simp [hk]
      rw [List.filter_cons_of_neg (by simp [hk])]
      rw [List.find?_cons_of_neg (by simp [hk]; exact fun h' => h h'.symm)]
      exact ih
    · rw [List.filter_cons_of_pos (by simp [hk])]
      by_cases hk' : kv.1 = id'
      · simp [List.find?_cons, hk']
      · have hb : (kv.1 == id') = false := by simp [hk']
        simp only [List.find?_cons, hb]
        exact ih

/-- sign-and-set either fails or returns and sets the same bytes -/
theorem signAndSet_cases (cfg : Cfg) (env : Env) (l : LogInfo) (n : Note.Note) (c : Ctr) :
    let o := signAndSet cfg env l n c
    (o.err = .none ∧ ∃ v, o.ret = some v ∧ o.set = some v ∧ env.setErr = false) ∨
    (o.err ≠ .none ∧ o.ret = none) := by
  unfold signAndSet
  repeat' split
  all_goals simp_all

/-- every outcome of `update`: accepted (returned bytes = bytes set), or refused with nothing or with
    the stored bytes, and then `Set` was not called or failed -/
theorem update_cases (cfg : Cfg) (env : Env) (id : Bytes) (old : Nat) (next : Bytes) (proof : List Bytes) :
    let o := update cfg env id old next proof
    (o.err = .none ∧ ∃ v, o.ret = some v ∧ o.set = some v ∧ env.setErr = false) ∨
    (o.err ≠ .none ∧ (o.ret = none ∨ ∃ raw, env.prev = .found raw ∧ o.ret = some raw)) := by
  unfold update
  cases hf : cfg.find id with
  | none => simp
  | some l =>
    simp only
    cases hp : parse l next with
    | none => simp
    | some pn =>
      obtain ⟨nx, nn⟩ := pn
      simp only
      by_cases hw : env.writeOpsErr = true
      · simp [hw]
      · simp only [hw, Bool.false_eq_true, if_false]
        have hs := signAndSet_cases cfg env l nn { attempt := 1 }
        cases hprev : env.prev with
        | readErr => simp
        | notFound =>
          simp only
          rcases hs with h | h
          · exact Or.inl h
          · exact Or.inr ⟨h.1, Or.inl h.2⟩
        | found raw =>
          simp only
          cases hpp : parse l raw with
          | none => simp
          | some pp =>
            obtain ⟨pv, pn'⟩ := pp
            simp only
            cases hd : Core.decide cfg.H (toCore pv) old (toCore nx) proof <;> simp
            rcases hs with h | h
            · exact Or.inl (by simpa using h)
            · exact Or.inr ⟨h.1, Or.inl h.2⟩

/-- a refused update leaves the store exactly as it was -/
theorem stepF_refused_store (cfg : Cfg) (s : Store) (r : Req) (f : Faults)
    (h : (stepF cfg s r f).2.err ≠ .none) : (stepF cfg s r f).1 = s := by
  unfold stepF at h ⊢
  simp only at h ⊢
  split
  · rename_i v hset herr
    simp only [hset, herr] at h
    exact absurd rfl h
  · rfl

/-- an update touches only the slot of the log it names -/
theorem stepF_other_log (cfg : Cfg) (s : Store) (r : Req) (f : Faults) (id' : Bytes) (h : id' ≠ r.logID) :
    (stepF cfg s r f).1.get id' = s.get id' := by
  unfold stepF
  simp only
  split
  · exact Store.get_set_other s r.logID id' _ h
  · rfl

/-- an accepted update stores exactly the bytes it returns -/
theorem stepF_accepted (cfg : Cfg) (s : Store) (r : Req) (f : Faults)
    (h : (stepF cfg s r f).2.err = .none) :
    ∃ v, (stepF cfg s r f).2.ret = some v ∧ (stepF cfg s r f).1.get r.logID = some v := by
  have hc := update_cases cfg (envOf s r.logID f) r.logID r.old r.next r.proof
  unfold stepF at h ⊢
  simp only at h ⊢ hc
  rcases hc with ⟨he, v, hret, hset, _⟩ | ⟨he, _⟩
  · refine ⟨v, ?_, ?_⟩
    · split <;> exact hret
    · rw [hset, he]
      exact Store.get_set_same s r.logID v
  · split at h
    · rename_i v hset herr; exact absurd herr he
    · exact absurd h he

end Wit
