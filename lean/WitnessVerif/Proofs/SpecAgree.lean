import WitnessVerif.Proofs.Core
import WitnessVerif.Spec.Rules
/-
The independent rule list `Spec.verdict` and the Go-shaped decision `Core.decide` agree.
-/
namespace Spec
open M G
variable {α : Type} [DecidableEq α]

theorem consistent_eq_verify (H : α → α → α) (m n : Nat) (p : List α) (r1 r2 : α)
    (h : m = n ∨ (0 < m ∧ m < n)) :
    consistent H m n p r1 r2 = verifyConsistency H m n p r1 r2 := by
  unfold consistent verifyConsistency
  rcases h with heq | ⟨hm, hmn⟩
  · subst heq
    simp only [if_true, rootFromConsistencyProof, Nat.lt_irrefl, if_false]
    cases p with
    | nil => simp
    | cons x r => simp
  · have hne : m ≠ n := by omega
    rw [if_neg hne, if_pos ⟨hm, hmn⟩, rootFrom_eq_goFull H r1 hm hmn p,
      ← goFull_eq_recRoots H r1 n true m p hm (by omega)]
    cases hgo : goFull H r1 true m n p with
    | none => rfl
    | some ot =>
      obtain ⟨o, t⟩ := ot
      simp only
      by_cases ho : o = r1
      · simp [ho]
      · simp [ho]

end Spec
