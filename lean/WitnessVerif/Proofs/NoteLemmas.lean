import WitnessVerif.Proofs.Split
import WitnessVerif.Proofs.Utf8
import WitnessVerif.Proofs.Base64
/-
Facts about `note.Open` and `note.Sign` (model): what a successfully opened note guarantees, and that
opening what `Sign` wrote recovers the same text (reparse stability, R3).
-/
namespace B

theorem cut_spec (c : UInt8) : ∀ (s p q : Bytes), cut c s = some (p, q) → s = p ++ c :: q ∧ c ∉ p := by
  intro s
  induction s with
  | nil => intro p q h; simp [cut] at h
  | cons x r ih =>
    intro p q h
    rw [cut] at h
    by_cases hx : x = c
    · simp only [hx, if_true, Option.some.injEq, Prod.mk.injEq] at h
      obtain ⟨h1, h2⟩ := h; subst h1 h2; simp [hx]
    · simp only [hx, if_false] at h
      cases hc : cut c r with
      | none => simp [hc] at h
      | some pq =>
        obtain ⟨p', q'⟩ := pq
        simp only [hc, Option.some.injEq, Prod.mk.injEq] at h
        obtain ⟨h1, h2⟩ := h; subst h1 h2
        obtain ⟨e, hn⟩ := ih p' q' hc
        refine ⟨by rw [e]; simp, ?_⟩
        intro hm
        rcases List.mem_cons.1 hm with h | h
        · exact hx h.symm
        · exact hn h

theorem splitOn_no_sep (c : UInt8) : ∀ (s : Bytes), ∀ l ∈ splitOn c s, c ∉ l := by
  intro s
  induction s with
  | nil => intro l hl; simp [splitOn] at hl; subst hl; simp
  | cons x r ih =>
    intro l hl
    rw [splitOn] at hl
    by_cases hx : x = c
    · simp only [hx, if_true, List.mem_cons] at hl
      rcases hl with h | h
      · subst h; simp
      · exact ih l h
    · simp only [hx, if_false] at hl
      cases hs : splitOn c r with
      | nil => simp only [hs, List.mem_cons, List.not_mem_nil, or_false] at hl; subst hl; simpa using fun h => hx h.symm
      | cons l0 ls =>
        simp only [hs, List.mem_cons] at hl
        rcases hl with h | h
        · subst h
          have := ih l0 (by rw [hs]; simp)
          intro hm
          rcases List.mem_cons.1 hm with h' | h'
          · exact hx h'.symm
          · exact this h'
        · exact ih l (by rw [hs]; simp [h])

end B

namespace Note
open B

/-- what `Sign` writes for one signature, without the trailing newline -/
def lineOf (name b64 : Bytes) : Bytes := sigPrefix ++ name ++ [sp] ++ b64

theorem sigLine_eq (name b64 : Bytes) : sigLine name b64 = lineOf name b64 ++ [nl] := by
  simp [sigLine, lineOf]

theorem lineOf_good (name b64 : Bytes) (hn : nl ∉ name) (hb : nl ∉ b64) : GoodLine (lineOf name b64) := by
  constructor
  · simp [lineOf, sigPrefix]
  · intro hm
    simp only [lineOf, sigPrefix, List.mem_append, List.mem_cons, List.not_mem_nil, or_false] at hm
    rcases hm with ((h | h) | h) | h
    · rcases h with h | h | h | h <;> simp [nl] at h
    · exact hn h
    · simp [nl, sp] at h
    · exact hb h

/-- what `Sign` relies on and `Open` establishes -/
structure NoteOK (n : Note) : Prop where
  sigs_ne : n.sigs ≠ []
  text_nl : ∃ t', n.text = t' ++ [nl]
  b64_ok : ∀ s ∈ n.sigs ++ n.unverified, nl ∉ s.b64

theorem keepLines_spec (have_ : List (Bytes × Nat)) :
    ∀ (l : List Sig) (r : Bytes), keepLines have_ l = some r → (∀ s ∈ l, nl ∉ s.b64) →
      ∃ ls : List Bytes, r = flattenLines ls ∧ (∀ x ∈ ls, GoodLine x) ∧
        ((∀ s ∈ l, have_.contains (s.name, s.hash) = false) → ls.length = l.length) := by
  intro l
  induction l with
  | nil => intro r h _; simp [keepLines] at h; subst h; exact ⟨[], rfl, by simp, by simp⟩
  | cons s rest ih =>
    intro r h hb
    rw [keepLines] at h
    by_cases hv : isValidName s.name = true
    · simp only [hv, Bool.not_true, Bool.false_eq_true, if_false] at h
      by_cases hh : have_.contains (s.name, s.hash) = true
      · simp only [hh, if_true] at h
        obtain ⟨ls, e, hg, hlen⟩ := ih r h (fun s' hs' => hb s' (List.mem_cons_of_mem _ hs'))
        refine ⟨ls, e, hg, ?_⟩
        intro hall
        have := hall s (List.mem_cons_self ..)
        rw [hh] at this; cases this
      · simp only [hh, Bool.false_eq_true, if_false] at h
        cases hd : B64.decode s.b64 with
        | none => simp [hd] at h
        | some raw =>
          simp only [hd] at h
          split at h
          · cases h
          · cases hk : keepLines have_ rest with
            | none => simp [hk] at h
            | some r' =>
              simp only [hk, Option.some.injEq] at h
              obtain ⟨ls, e, hg, hlen⟩ := ih r' hk (fun s' hs' => hb s' (List.mem_cons_of_mem _ hs'))
              refine ⟨lineOf s.name s.b64 :: ls, ?_, ?_, ?_⟩
              · rw [← h, e, sigLine_eq]; simp [flattenLines]
              · intro x hx
                rcases List.mem_cons.1 hx with h1 | h1
                · subst h1
                  exact lineOf_good _ _ (validName_no_nl _ hv) (hb s (List.mem_cons_self ..))
                · exact hg x h1
              · intro hall
                simp only [List.length_cons]
                rw [hlen (fun s' hs' => hall s' (List.mem_cons_of_mem _ hs'))]
    · simp [hv] at h

theorem newLines_spec (signers : List SignerOut) (hv : signers.all (fun s => isValidName s.name) = true) :
    ∃ ls : List Bytes, signers.flatMap (fun s => sigLine s.name (B64.encode (B.be 4 s.hash ++ s.sig))) = flattenLines ls ∧
      (∀ x ∈ ls, GoodLine x) ∧ ls.length = signers.length := by
  induction signers with
  | nil => exact ⟨[], rfl, by simp, rfl⟩
  | cons s rest ih =>
    simp only [List.all_cons, Bool.and_eq_true] at hv
    obtain ⟨ls, e, hg, hl⟩ := ih hv.2
    refine ⟨lineOf s.name (B64.encode (B.be 4 s.hash ++ s.sig)) :: ls, ?_, ?_, by simp [hl]⟩
    · rw [List.flatMap_cons, e, sigLine_eq]; simp [flattenLines]
    · intro x hx
      rcases List.mem_cons.1 hx with h1 | h1
      · subst h1; exact lineOf_good _ _ (validName_no_nl _ hv.1) (B64.nl_not_mem_encode _)
      · exact hg x h1

/-- `Sign` writes `text ++ "\n" ++` a non-empty block of good lines, so the last blank line of the
    result is the boundary between the text and the signatures -/
theorem sign_split (n : Note) (signers : List SignerOut) (b : Bytes) (hok : NoteOK n)
    (h : sign n signers = some b) : ∃ sigs, b = n.text ++ nl :: sigs ∧ splitLast b = some (n.text, sigs) := by
  unfold sign at h
  split at h
  · cases h
  split at h
  · cases h
  rename_i _ hvalid
  simp only at h
  cases hk : keepLines (signers.map (fun s => (s.name, s.hash))) (n.sigs ++ n.unverified) with
  | none => simp [hk] at h
  | some old =>
    simp only [hk, Option.some.injEq] at h
    obtain ⟨lsOld, eOld, gOld, lenOld⟩ := keepLines_spec _ _ _ hk hok.b64_ok
    have hv : signers.all (fun s => isValidName s.name) = true := by simpa using hvalid
    obtain ⟨lsNew, eNew, gNew, lenNew⟩ := newLines_spec signers hv
    obtain ⟨t', ht'⟩ := hok.text_nl
    have hne : lsOld ++ lsNew ≠ [] := by
      cases signers with
      | cons s rest =>
        intro hnil
        have : lsNew = [] := (List.append_eq_nil_iff.1 hnil).2
        rw [this] at lenNew; simp at lenNew
      | nil =>
        have hl := lenOld (by intro s _; simp)
        intro hnil
        have : lsOld = [] := (List.append_eq_nil_iff.1 hnil).1
        rw [this] at hl
        have : n.sigs = [] := by
          have : (n.sigs ++ n.unverified).length = 0 := by simpa using hl.symm
          exact (List.append_eq_nil_iff.1 (List.length_eq_zero_iff.1 this)).1
        exact hok.sigs_ne this
    have hb : b = n.text ++ nl :: flattenLines (lsOld ++ lsNew) := by
      rw [← h, eOld, eNew, flattenLines_append]; simp
    refine ⟨flattenLines (lsOld ++ lsNew), hb, ?_⟩
    rw [hb]
    exact splitLast_sign n.text (lsOld ++ lsNew) hne
      (fun l hl => by rcases List.mem_append.1 hl with h1 | h1; exact gOld l h1; exact gNew l h1) t' ht'

/-- `Open` returns the text that precedes the last blank line -/
theorem open_text (msg : Bytes) (vs : List Verifier) (n : Note) (h : «open» msg vs = .ok n) :
    ∃ sigs, splitLast msg = some (n.text, sigs) := by
  unfold «open» at h
  split at h
  · cases h
  cases hs : splitLast msg with
  | none => simp [hs] at h
  | some ts =>
    obtain ⟨text, sigs⟩ := ts
    simp only [hs] at h
    split at h
    · cases h
    cases hl : openLoop vs text (sigLines sigs) {} with
    | error e => simp [hl] at h
    | ok st =>
      simp only [hl] at h
      split at h
      · cases h
      · simp only [Except.ok.injEq] at h
        subst h
        exact ⟨sigs, rfl⟩

/-- Reparse stability (R3): whatever opens from the bytes `Sign` produced has the text that was
    signed — for any verifier list, any set of signers, any kept signature lines. -/
theorem open_sign_text (n : Note) (signers : List SignerOut) (b : Bytes) (hok : NoteOK n)
    (hs : sign n signers = some b) (vs : List Verifier) (n' : Note) (ho : «open» b vs = .ok n') :
    n'.text = n.text := by
  obtain ⟨sigs, _, hsplit⟩ := sign_split n signers b hok hs
  obtain ⟨sigs', hsplit'⟩ := open_text b vs n' ho
  rw [hsplit] at hsplit'
  simp only [Option.some.injEq, Prod.mk.injEq] at hsplit'
  exact hsplit'.1.symm

end Note

namespace Note
open B

/-- a verified signature: the verifier list names exactly one verifier for (name, hash), and it accepts
    the decoded signature over the text -/
def Verified (vs : List Verifier) (text : Bytes) (s : Sig) : Prop :=
  ∃ v raw, lookup vs s.name s.hash = .found v ∧ B64.decode s.b64 = some raw ∧ v.verify text (raw.drop 4) = true

theorem parseLine_facts (line : Bytes) (l : Line) (h : parseLine line = some l) :
    (nl ∉ line → nl ∉ l.b64) ∧ isValidName l.name = true ∧
    ∃ raw, B64.decode l.b64 = some raw ∧ l.sig = raw.drop 4 ∧ l.hash = beDecode (raw.take 4) := by
  unfold parseLine at h
  split at h
  · cases h
  simp only at h
  cases hd : B64.decode (chopSpace (List.drop sigPrefix.length line)).2 with
  | none => simp [hd] at h
  | some sig =>
    simp only [hd] at h
    split at h
    · cases h
    · rename_i hcond
      simp only [Option.some.injEq] at h
      subst h
      simp only [Bool.or_eq_true, Bool.not_eq_true', not_or] at hcond
      refine ⟨?_, ?_, sig, hd, rfl, rfl⟩
      · intro hn hm
        apply hn
        have hsub : ∀ x ∈ (chopSpace (List.drop sigPrefix.length line)).2, x ∈ List.drop sigPrefix.length line := by
          intro x hx
          unfold chopSpace at hx
          cases hc : cut sp (List.drop sigPrefix.length line) with
          | none => simp [hc] at hx
          | some pq =>
            obtain ⟨p, q⟩ := pq
            simp only [hc] at hx
            rw [(cut_spec sp _ p q hc).1]; simp [hx]
        exact List.mem_of_mem_drop (hsub nl hm)
      · have := hcond.1.1
        simpa using this

theorem openLoop_inv (vs : List Verifier) (text : Bytes) :
    ∀ (lines : List Bytes) (st st' : LoopSt), (∀ line ∈ lines, nl ∉ line) →
      openLoop vs text lines st = .ok st' →
      (∀ s ∈ st.sigs, Verified vs text s ∧ nl ∉ s.b64) → (∀ s ∈ st.unverified, nl ∉ s.b64) →
      (∀ s ∈ st'.sigs, Verified vs text s ∧ nl ∉ s.b64) ∧ (∀ s ∈ st'.unverified, nl ∉ s.b64) := by
  intro lines
  induction lines with
  | nil => intro st st' _ h h1 h2; simp [openLoop] at h; subst h; exact ⟨h1, h2⟩
  | cons line rest ih =>
    intro st st' hl h h1 h2
    have hrest : ∀ l ∈ rest, nl ∉ l := fun l hm => hl l (List.mem_cons_of_mem _ hm)
    rw [openLoop] at h
    cases hp : parseLine line with
    | none => simp [hp] at h
    | some l =>
      simp only [hp] at h
      obtain ⟨hb, _, raw, hdec, hsig, _⟩ := parseLine_facts line l hp
      have hb' := hb (hl line (List.mem_cons_self ..))
      split at h
      · cases h
      cases hlk : lookup vs l.name l.hash with
      | unknown =>
        simp only [hlk] at h
        split at h
        · exact ih _ _ hrest h h1 h2
        · refine ih _ _ hrest h h1 ?_
          intro s hs
          simp only [List.mem_append, List.mem_cons, List.not_mem_nil, or_false] at hs
          rcases hs with hs | hs
          · exact h2 s hs
          · subst hs; exact hb'
      | ambiguous => simp [hlk] at h
      | found v =>
        simp only [hlk] at h
        split at h
        · exact ih _ _ hrest h h1 h2
        · split at h
          · cases h
          · rename_i hver
            refine ih _ _ hrest h ?_ h2
            intro s hs
            simp only [List.mem_append, List.mem_cons, List.not_mem_nil, or_false] at hs
            rcases hs with hs | hs
            · exact h1 s hs
            · subst hs
              refine ⟨⟨v, raw, hlk, hdec, ?_⟩, hb'⟩
              rw [← hsig]
              simpa using hver

/-- what a successfully opened note guarantees -/
theorem open_spec (msg : Bytes) (vs : List Verifier) (n : Note) (h : «open» msg vs = .ok n) :
    NoteOK n ∧ (∀ s ∈ n.sigs, Verified vs n.text s) ∧ ∃ sigs, msg = n.text ++ nl :: sigs := by
  obtain ⟨sigs0, hsp⟩ := open_text msg vs n h
  obtain ⟨hmsg, t', ht'⟩ := splitLast_spec msg n.text sigs0 hsp
  unfold «open» at h
  split at h
  · cases h
  simp only [hsp] at h
  split at h
  · cases h
  cases hl : openLoop vs n.text (sigLines sigs0) {} with
  | error e => simp [hl] at h
  | ok st =>
    simp only [hl] at h
    split at h
    · cases h
    · rename_i hne
      simp only [Except.ok.injEq] at h
      have hlines : ∀ line ∈ sigLines sigs0, nl ∉ line := by
        intro line hm
        unfold sigLines at hm
        exact splitOn_no_sep nl sigs0 line (List.dropLast_subset _ hm)
      obtain ⟨i1, i2⟩ := openLoop_inv vs n.text _ _ _ hlines hl (by simp) (by simp)
      have hs1 : n.sigs = st.sigs := by rw [← h]
      have hs2 : n.unverified = st.unverified := by rw [← h]
      refine ⟨⟨?_, ⟨t', ht'⟩, ?_⟩, fun s hs => (i1 s (hs1 ▸ hs)).1, sigs0, hmsg⟩
      · rw [hs1]; simpa using hne
      · intro s hs
        rw [hs1, hs2] at hs
        rcases List.mem_append.1 hs with h1 | h1
        · exact (i1 s h1).2
        · exact i2 s h1

end Note
