import WitnessVerif.Proofs.GoLiteral
import WitnessVerif.Model.Witness
/-
Soundness and completeness of `G.verifyConsistency` (the Go verifier) against the RFC 6962 tree
hash, and the append-only theorem for the decision core.
-/
namespace G
open M
variable {α : Type} [DecidableEq α]

theorem verifyConsistency_sound (H : α → α → α) (e : α) (hinj : Inj H) (m n : Nat) (p : List α) (r1 r2 : α)
    (hv : verifyConsistency H m n p r1 r2 = true) :
    m ≤ n ∧ (m = n → r1 = r2) ∧
    (∀ D : List α, D.length = n → r2 = mth H e D → 0 < m → r1 = mth H e (D.take m)) := by
  unfold verifyConsistency at hv
  by_cases hlt : n < m
  · simp [rootFromConsistencyProof, hlt] at hv
  by_cases heq : m = n
  · subst heq
    have : r1 = r2 := by
      simp only [rootFromConsistencyProof, Nat.lt_irrefl, if_false, if_true] at hv
      split at hv
      · rename_i h2 hh
        split at hh
        · cases hh
        · simp only [Option.some.injEq] at hh; subst hh; simpa using hv
      · cases hv
    refine ⟨Nat.le_refl _, fun _ => this, ?_⟩
    intro D hD hr _
    rw [← hD, List.take_length, this]; exact hr
  · have hmn : m < n := by omega
    refine ⟨by omega, fun h => absurd h heq, ?_⟩
    intro D hD hr hm
    rw [rootFrom_eq_goFull H r1 hm hmn p] at hv
    split at hv
    · rename_i h2 hh
      split at hh
      · rename_i h1 h2' hgo
        split at hh
        · rename_i h1eq
          simp only [Option.some.injEq] at hh
          subst hh
          have h2eq : h2' = r2 := by simpa using hv
          subst h1eq h2eq
          exact go_sound H e hinj _ _ m n p D hm (by omega) hD hgo hr
        · cases hh
      · cases hh
    · cases hv

theorem verifyConsistency_complete (H : α → α → α) (e : α) (m : Nat) (D : List α) (hm : 0 < m) (hmn : m ≤ D.length) :
    verifyConsistency H m D.length (rfcProof H e m D) (mth H e (D.take m)) (mth H e D) = true := by
  unfold verifyConsistency
  by_cases heq : m = D.length
  · subst heq
    have hp : rfcProof H e D.length D = [] := by
      unfold rfcProof; rw [subproofRev.eq_def]; simp
    have ht : D.take D.length = D := List.take_length
    simp [rootFromConsistencyProof, hp, ht]
  · have hlt : m < D.length := by omega
    rw [rootFrom_eq_goFull H _ hm hlt, go_complete H e m D hm hmn]
    simp

end G

namespace Core
open M G
variable {α : Type} [DecidableEq α]

/-- `a` is extended by `b`: the append-only relation between two cosigned checkpoints -/
def Ext (H : α → α → α) (e : α) (a b : CP α) : Prop :=
  a.size ≤ b.size ∧ (a.size = b.size → a.root = b.root) ∧
  (∀ D : List α, D.length = b.size → b.root = mth H e D → 0 < a.size → a.root = mth H e (D.take a.size))

theorem Ext.refl (H : α → α → α) (e : α) (a : CP α) : Ext H e a a :=
  ⟨Nat.le_refl _, fun _ => rfl, fun D hD h _ => by rw [← hD, List.take_length]; exact h⟩

theorem Ext.trans (H : α → α → α) (e : α) {a b c : CP α} (h1 : Ext H e a b) (h2 : Ext H e b c) : Ext H e a c := by
  obtain ⟨h1a, h1b, h1c⟩ := h1
  obtain ⟨h2a, h2b, h2c⟩ := h2
  refine ⟨Nat.le_trans h1a h2a, ?_, ?_⟩
  · intro h
    have e1 : a.size = b.size := by omega
    have e2 : b.size = c.size := by omega
    rw [h1b e1, h2b e2]
  · intro D hD hc ha
    have hb : 0 < b.size := by omega
    have := h2c D hD hc hb
    have := h1c (D.take b.size) (by rw [List.length_take]; omega) this ha
    rw [this, List.take_take, Nat.min_eq_left h1a]

/-- one accepted step from a stored checkpoint extends it -/
theorem decide_accepted_ext (H : α → α → α) (e : α) (hinj : Inj H) (prev next : CP α) (old : Nat) (proof : List α)
    (h : decide H prev old next proof = .accepted) : Ext H e prev next := by
  unfold decide at h
  split at h; · cases h
  split at h; · cases h
  split at h; · cases h
  split at h; · cases h
  rename_i h1 h2 h3 h4
  have hle : prev.size ≤ next.size := by omega
  split at h
  · rename_i h0
    have hp : prev.size = 0 := by omega
    refine ⟨hle, ?_, ?_⟩
    · intro heq
      apply Classical.byContradiction
      intro hne
      exact h4 ⟨heq.symm, fun h' => hne h'.symm⟩
    · intro D _ _ hpos; omega
  · split at h
    · rename_i hv
      obtain ⟨_, hb, hc⟩ := verifyConsistency_sound H e hinj _ _ _ _ _ hv
      exact ⟨hle, hb, hc⟩
    · cases h

theorem decide_accepted_old (H : α → α → α) (prev next : CP α) (old : Nat) (proof : List α)
    (h : decide H prev old next proof = .accepted) : old = prev.size ∧ prev.size ≤ next.size := by
  unfold decide at h
  split at h; · cases h
  split at h; · cases h
  split at h; · cases h
  rename_i h1 h2 h3
  constructor <;> omega

end Core
