import WitnessVerif.Model.Bastion
import WitnessVerif.Proofs.Decimal
import WitnessVerif.Proofs.Base64
import WitnessVerif.Proofs.NoteLemmas
/-
`parseBody (writeBody old proof cp) = (old, proof, cp)`.
-/
namespace B

theorem cut_append (c : UInt8) (p q : Bytes) (h : c ∉ p) : cut c (p ++ c :: q) = some (p, q) := by
  induction p with
  | nil => simp [cut]
  | cons x r ih =>
    have hx : x ≠ c := fun e => h (by simp [e])
    have hr : c ∉ r := fun e => h (List.mem_cons_of_mem _ e)
    simp [cut, hx, ih hr]

end B

namespace B64

theorem encode_length_le (h : Bytes) : (encode h).length ≤ 4 * ((h.length + 2) / 3) := by
  induction h using encode.induct with
  | case1 => simp [encode]
  | case2 a => simp [encode]
  | case3 a b => simp [encode]
  | case4 a b c r ih => simp only [encode, List.length_cons]; omega

theorem encode_ne_nil (h : Bytes) (hne : h ≠ []) : encode h ≠ [] := by
  cases h with
  | nil => exact absurd rfl hne
  | cons a r => cases r with
    | nil => simp [encode]
    | cons b r' => cases r' <;> simp [encode]

theorem cr_not_mem_encode (bs : Bytes) : B.cr ∉ encode bs := by
  intro h
  have := filter_encode bs
  have hm : B.cr ∈ (encode bs).filter (fun c => c != B.cr && c != B.nl) := by rw [this]; exact h
  simp at hm

end B64

namespace Bastion
open B

/-- a line that is short, newline-free and does not end in CR, followed by a newline, is read back as
    that line, and reading continues right after the newline -/
theorem readLine_line (line rest : Bytes) (hnl : nl ∉ line) (hlen : line.length < 4096)
    (hcr : line.getLast? ≠ some cr) : readLine (line ++ nl :: rest) = some (line, rest) := by
  unfold readLine
  have hne : line ++ nl :: rest ≠ [] := by simp
  split
  · rename_i heq; exact absurd heq hne
  · simp only
    have htake : (line ++ nl :: rest).take 4096 = line ++ nl :: rest.take (4095 - line.length) := by
      rw [List.take_append]
      have : 4096 - line.length = (4095 - line.length) + 1 := by omega
      rw [List.take_of_length_le (by omega), this, List.take_succ_cons]
    rw [htake, cut_append nl line _ hnl]
    simp only [hcr, if_false]
    simp

theorem print_no_nl (n : Nat) : nl ∉ Dec.print n := by
  intro h
  obtain ⟨d, hd, e⟩ := Dec.print_digits n nl h
  exact Dec.digitChar_ne d hd nl (Or.inl rfl) e.symm

theorem print_last_not_cr (n : Nat) : (Dec.print n).getLast? ≠ some cr := by
  intro h
  have hm : cr ∈ Dec.print n := List.mem_of_getLast? h
  obtain ⟨d, hd, e⟩ := Dec.print_digits n cr hm
  exact Dec.digitChar_ne d hd cr (Or.inr (Or.inl rfl)) e.symm

theorem proofLines_written (cp : Bytes) :
    ∀ (proof : List Bytes) (fuel : Nat), proof.length < fuel →
      (∀ h ∈ proof, h ≠ [] ∧ h.length ≤ 3000) →
      proofLines fuel (proof.flatMap (fun h => B64.encode h ++ [nl]) ++ nl :: cp) = some (proof, cp) := by
  intro proof
  induction proof with
  | nil =>
    intro fuel hf _
    cases fuel with
    | zero => omega
    | succ fuel =>
      have : readLine (nl :: cp) = some ([], cp) := by
        have := readLine_line [] cp (by simp) (by simp) (by simp)
        simpa using this
      simp [proofLines, this]
  | cons h hs ih =>
    intro fuel hf hall
    cases fuel with
    | zero => omega
    | succ fuel =>
      obtain ⟨hne, hlen⟩ := hall h (List.mem_cons_self ..)
      have hrest := ih fuel (by simp only [List.length_cons] at hf; omega) (fun x hx => hall x (List.mem_cons_of_mem _ hx))
      have hencl : (B64.encode h).length < 4096 := by
        have := B64.encode_length_le h; omega
      have hcr : (B64.encode h).getLast? ≠ some cr := by
        intro hh; exact B64.cr_not_mem_encode h (List.mem_of_getLast? hh)
      have hrl := readLine_line (B64.encode h) (hs.flatMap (fun h => B64.encode h ++ [nl]) ++ nl :: cp)
        (B64.nl_not_mem_encode h) hencl hcr
      have hshape : ((h :: hs).flatMap (fun h => B64.encode h ++ [nl]) ++ nl :: cp) =
          B64.encode h ++ nl :: (hs.flatMap (fun h => B64.encode h ++ [nl]) ++ nl :: cp) := by
        simp [List.flatMap_cons]
      rw [hshape]
      simp only [proofLines, hrl]
      have hemp : (B64.encode h).isEmpty = false := by
        cases he : B64.encode h with
        | nil => exact absurd he (B64.encode_ne_nil h hne)
        | cons _ _ => rfl
      simp [hemp, B64.roundtrip, hrest]

/-- C11: for every old size below 2^64, every list of non-empty hashes (up to 3000 bytes each, so that
    a line fits the 4096-byte line buffer) and every checkpoint byte string (blank lines, non-UTF-8,
    anything), the written body parses to exactly that old size, those hashes in order, and those
    checkpoint bytes -/
theorem parseBody_writeBody (old : Nat) (proof : List Bytes) (cp : Bytes) (hold : old < 2 ^ 64)
    (hproof : ∀ h ∈ proof, h ≠ [] ∧ h.length ≤ 3000) :
    parseBody (writeBody old proof cp) = some (old, proof, cp) := by
  unfold parseBody writeBody
  have hfirst : nl ∉ ([111, 108, 100, 32] ++ Dec.print old : Bytes) := by
    intro h
    rcases List.mem_append.1 h with h1 | h1
    · simp [nl] at h1
    · exact print_no_nl old h1
  have hlen : ([111, 108, 100, 32] ++ Dec.print old : Bytes).length < 4096 := by
    have := Dec.print_length_le old hold; simp; omega
  have hcr : ([111, 108, 100, 32] ++ Dec.print old : Bytes).getLast? ≠ some cr := by
    rw [List.getLast?_append]
    cases hl : (Dec.print old).getLast? with
    | none =>
      have := Dec.print_ne_nil old
      rw [List.getLast?_eq_none_iff] at hl
      exact absurd hl this
    | some c =>
      simp only [Option.some_or]
      intro hc
      have := print_last_not_cr old
      rw [hl] at this
      exact this hc
  have hrl := readLine_line ([111, 108, 100, 32] ++ Dec.print old)
    (proof.flatMap (fun h => B64.encode h ++ [nl]) ++ nl :: cp) hfirst hlen hcr
  have hshape : [111, 108, 100, 32] ++ Dec.print old ++ [nl] ++ proof.flatMap (fun h => B64.encode h ++ [nl]) ++ [nl] ++ cp =
      ([111, 108, 100, 32] ++ Dec.print old) ++ nl :: (proof.flatMap (fun h => B64.encode h ++ [nl]) ++ nl :: cp) := by
    simp
  rw [hshape, hrl]
  have hscan : scanOld ([111, 108, 100, 32] ++ Dec.print old) = some old := by
    simp [scanOld, Dec.parse_print old hold]
  simp only [hscan]
  have hfuel : proof.length < (proof.flatMap (fun h => B64.encode h ++ [nl]) ++ nl :: cp).length + 1 := by
    have : ∀ l : List Bytes, l.length ≤ (l.flatMap (fun h => B64.encode h ++ [nl])).length := by
      intro l
      induction l with
      | nil => simp
      | cons h hs ih =>
        simp only [List.flatMap_cons, List.length_append, List.length_cons, List.length_nil]
        omega
    have := this proof
    simp only [List.length_append, List.length_cons]; omega
  rw [proofLines_written cp proof _ hfuel hproof]

end Bastion
