import WitnessVerif.Proofs.Utf8
/-
`for range` decoding of a concatenation: when the first part is valid UTF-8 its runes are not
affected by what follows, so `runes (a ++ b) = runes a ++ runes b`, and the character check of
`note.Open` distributes over the concatenation.
-/
namespace Utf8

def IsErr (d : Nat × Nat) : Prop := d.1 = runeError ∧ d.2 = 1

theorem decodeRune_append (x : UInt8) (r t : Bytes) (h : ¬ IsErr (decodeRune (x :: r))) :
    decodeRune (x :: (r ++ t)) = decodeRune (x :: r) ∧ (decodeRune (x :: r)).2 ≤ (x :: r).length := by
  unfold IsErr at h
  by_cases h1 : x.toNat < 0x80
  · simp [decodeRune, h1]
  by_cases h2 : x.toNat < 0xC2
  · simp [decodeRune, h1, h2] at h
  by_cases h3 : x.toNat ≤ 0xDF
  · cases r with
    | nil => simp [decodeRune, h1, h2, h3] at h
    | cons b1 r1 =>
      by_cases hk : isCont b1 = true
      · simp [decodeRune, h1, h2, h3, hk]
      · simp [decodeRune, h1, h2, h3, hk] at h
  by_cases h4 : x.toNat ≤ 0xEF
  · cases r with
    | nil => simp [decodeRune, h1, h2, h3, h4] at h
    | cons b1 r1 =>
      cases r1 with
      | nil => simp [decodeRune, h1, h2, h3, h4] at h
      | cons b2 r2 =>
        by_cases hk : (inRange b1 (if x.toNat = 0xE0 then 0xA0 else 0x80) (if x.toNat = 0xED then 0x9F else 0xBF) && isCont b2) = true
        · simp only [Bool.and_eq_true] at hk
          simp [decodeRune, h1, h2, h3, h4, hk.1, hk.2]
        · have hk' : ¬ (inRange b1 (if x.toNat = 0xE0 then 0xA0 else 0x80) (if x.toNat = 0xED then 0x9F else 0xBF) = true ∧ isCont b2 = true) := by
            simpa [Bool.and_eq_true] using hk
          simp [decodeRune, h1, h2, h3, h4, hk'] at h
  by_cases h5 : x.toNat ≤ 0xF4
  · cases r with
    | nil => simp [decodeRune, h1, h2, h3, h4, h5] at h
    | cons b1 r1 =>
      cases r1 with
      | nil => simp [decodeRune, h1, h2, h3, h4, h5] at h
      | cons b2 r2 =>
        cases r2 with
        | nil => simp [decodeRune, h1, h2, h3, h4, h5] at h
        | cons b3 r3 =>
          by_cases hk : (inRange b1 (if x.toNat = 0xF0 then 0x90 else 0x80) (if x.toNat = 0xF4 then 0x8F else 0xBF) = true ∧ isCont b2 = true) ∧ isCont b3 = true
          · simp [decodeRune, h1, h2, h3, h4, h5, hk.1.1, hk.1.2, hk.2]
          · simp [decodeRune, h1, h2, h3, h4, h5, hk] at h
  · simp [decodeRune, h1, h2, h3, h4, h5] at h

theorem valid_cons (b : UInt8) (r : Bytes) (h : valid (b :: r) = true) :
    ¬ IsErr (decodeRune (b :: r)) ∧ valid ((b :: r).drop (decodeRune (b :: r)).2) = true := by
  unfold valid at h
  rw [runes] at h
  simp only [List.all_cons, Bool.and_eq_true, Bool.not_eq_true', Bool.and_eq_false_iff] at h
  refine ⟨?_, ?_⟩
  · intro he
    unfold IsErr at he
    rcases h.1 with h1 | h1
    · simp [he.1] at h1
    · simp [he.2] at h1
  · unfold valid; exact h.2

theorem runes_append : ∀ (n : Nat) (a b : Bytes), a.length ≤ n → valid a = true → runes (a ++ b) = runes a ++ runes b := by
  intro n
  induction n with
  | zero =>
    intro a b hl _
    have : a = [] := List.length_eq_zero_iff.1 (by omega)
    subst this; simp [runes]
  | succ n ih =>
    intro a b hl hv
    cases a with
    | nil => simp [runes]
    | cons x r =>
      obtain ⟨hne, hvr⟩ := valid_cons x r hv
      obtain ⟨hd, hle⟩ := decodeRune_append x r b hne
      have hpos := decodeRune_size_pos x r
      rw [List.cons_append, runes, hd]
      conv => rhs; rw [runes]
      simp only [List.cons_append, List.cons.injEq, true_and]
      have hdrop : List.drop (decodeRune (x :: r)).2 (x :: (r ++ b)) = List.drop (decodeRune (x :: r)).2 (x :: r) ++ b := by
        rw [← List.cons_append, List.drop_append_of_le_length hle]
      rw [hdrop]
      apply ih
      · simp only [List.length_drop, List.length_cons] at hl ⊢; omega
      · exact hvr

theorem noteCharsOK_valid (s : Bytes) (h : noteCharsOK s = true) : valid s = true := by
  unfold noteCharsOK at h
  unfold valid
  rw [List.all_eq_true] at h ⊢
  intro d hd
  have := h d hd
  simp only [Bool.not_eq_true', Bool.or_eq_false_iff] at this
  simp [this.2]

theorem noteCharsOK_append (a b : Bytes) (ha : noteCharsOK a = true) (hb : noteCharsOK b = true) :
    noteCharsOK (a ++ b) = true := by
  have hv := noteCharsOK_valid a ha
  unfold noteCharsOK at ha hb ⊢
  rw [runes_append a.length a b (Nat.le_refl _) hv, List.all_append, ha, hb]; rfl

/-- printable ASCII (and newline) passes byte by byte -/
theorem runes_ascii : ∀ (s : Bytes), (∀ c ∈ s, c.toNat < 0x80) → runes s = s.map (fun c => (c.toNat, 1)) := by
  intro s
  induction s with
  | nil => intro _; simp [runes]
  | cons c r ih =>
    intro h
    have hc := h c (List.mem_cons_self ..)
    rw [runes]
    have : decodeRune (c :: r) = (c.toNat, 1) := by simp [decodeRune, hc]
    rw [this]
    simp only [List.drop_succ_cons, List.drop_zero, List.map_cons]
    rw [ih (fun x hx => h x (List.mem_cons_of_mem _ hx))]

theorem noteCharsOK_ascii (s : Bytes) (h : ∀ c ∈ s, c.toNat < 0x80 ∧ (0x20 ≤ c.toNat ∨ c.toNat = 10)) :
    noteCharsOK s = true := by
  unfold noteCharsOK
  rw [runes_ascii s (fun c hc => (h c hc).1), List.all_eq_true]
  intro d hd
  obtain ⟨c, hc, rfl⟩ := List.mem_map.1 hd
  obtain ⟨h1, h2⟩ := h c hc
  simp only [Bool.not_eq_true', Bool.or_eq_false_iff, Bool.and_eq_false_iff, decide_eq_false_iff_not, bne_eq_false_iff_eq]
  refine ⟨?_, Or.inl ?_⟩
  · rcases h2 with h2 | h2
    · left; omega
    · right; simpa using h2
  · simp [runeError]; omega

end Utf8
