import WitnessVerif.Model.Base64
/-
base64: decoding what was encoded gives the bytes back (Go `StdEncoding`).
-/
namespace B64

theorem decChar_encChar : ∀ i : Fin 64, decChar (encChar i.val) = some i.val := by decide

theorem dec_enc (i : Nat) (h : i < 64) : decChar (encChar i) = some i := decChar_encChar ⟨i, h⟩

theorem encChar_ne_pad : ∀ i : Fin 64, encChar i.val ≠ pad := by decide

theorem u8 (a : UInt8) : a.toNat < 256 := a.toNat_lt

theorem ofNat_toNat_eq (a : UInt8) (n : Nat) (h : n = a.toNat) : UInt8.ofNat n = a := by
  subst h; simp

theorem roundtripQ : ∀ bs : List UInt8, decodeQ (encode bs) = some bs := by
  intro bs
  induction bs using encode.induct with
  | case1 => simp [encode, decodeQ]
  | case2 a =>
    have ha := u8 a
    simp only [encode, decodeQ, and_self, if_true]
    rw [dec_enc _ (by omega), dec_enc _ (by omega)]
    simp only [Option.some.injEq, List.cons.injEq, and_true]
    apply ofNat_toNat_eq; omega
  | case3 a b =>
    have ha := u8 a; have hb := u8 b
    have hne := encChar_ne_pad ⟨b.toNat % 16 * 4, by omega⟩
    simp only [encode, decodeQ]
    rw [if_neg (by intro h; exact hne h.1)]
    simp only [if_true]
    rw [dec_enc _ (by omega), dec_enc _ (by omega), dec_enc _ (by omega)]
    simp only [Option.some.injEq, List.cons.injEq, and_true]
    constructor <;> (apply ofNat_toNat_eq; omega)
  | case4 a b c r ih =>
    have ha := u8 a; have hb := u8 b; have hc := u8 c
    simp only [encode]
    cases hr : encode r with
    | nil =>
      have hne := encChar_ne_pad ⟨c.toNat % 64, by omega⟩
      have hne2 := encChar_ne_pad ⟨b.toNat % 16 * 4 + c.toNat / 64, by omega⟩
      rw [hr] at ih
      simp only [decodeQ]
      rw [if_neg (by intro h; exact hne h.2), if_neg (by intro h; exact hne h)]
      rw [dec_enc _ (by omega), dec_enc _ (by omega), dec_enc _ (by omega), dec_enc _ (by omega)]
      have : r = [] := by
        cases r with
        | nil => rfl
        | cons x r' => cases r' with
          | nil => simp [encode] at hr
          | cons y r'' => cases r'' <;> simp [encode] at hr
      subst this
      simp only [Option.some.injEq, List.cons.injEq, and_true]
      refine ⟨?_, ?_, ?_⟩ <;> (apply ofNat_toNat_eq; omega)
    | cons e es =>
      rw [hr] at ih
      simp only [decodeQ]
      rw [dec_enc _ (by omega), dec_enc _ (by omega), dec_enc _ (by omega), dec_enc _ (by omega), ih]
      simp only [Option.some.injEq, List.cons.injEq, and_true]
      refine ⟨?_, ?_, ?_⟩ <;> (apply ofNat_toNat_eq; omega)


theorem encChar_not_crlf : ∀ i : Fin 64, encChar i.val ≠ B.cr ∧ encChar i.val ≠ B.nl := by decide

theorem encChar_ok (i : Nat) (h : i < 64) : (encChar i != B.cr && encChar i != B.nl) = true := by
  have := encChar_not_crlf ⟨i, h⟩
  simp [this.1, this.2]

theorem pad_ok : (pad != B.cr && pad != B.nl) = true := by decide

/-- the encoder never emits CR or LF, so the decoder's filter leaves its output alone -/
theorem filter_encode (bs : Bytes) : (encode bs).filter (fun c => c != B.cr && c != B.nl) = encode bs := by
  induction bs using encode.induct with
  | case1 => simp [encode]
  | case2 a =>
    have ha := u8 a
    simp only [encode]
    simp [List.filter_cons, encChar_ok _ (show a.toNat / 4 < 64 by omega), encChar_ok _ (show a.toNat % 4 * 16 < 64 by omega), pad_ok]
  | case3 a b =>
    have ha := u8 a; have hb := u8 b
    simp only [encode]
    simp [List.filter_cons, encChar_ok _ (show a.toNat / 4 < 64 by omega),
      encChar_ok _ (show a.toNat % 4 * 16 + b.toNat / 16 < 64 by omega), encChar_ok _ (show b.toNat % 16 * 4 < 64 by omega), pad_ok]
  | case4 a b c r ih =>
    have ha := u8 a; have hb := u8 b; have hc := u8 c
    simp only [encode]
    simp [List.filter_cons, encChar_ok _ (show a.toNat / 4 < 64 by omega),
      encChar_ok _ (show a.toNat % 4 * 16 + b.toNat / 16 < 64 by omega),
      encChar_ok _ (show b.toNat % 16 * 4 + c.toNat / 64 < 64 by omega), encChar_ok _ (show c.toNat % 64 < 64 by omega), ih]

/-- `DecodeString(EncodeToString(b)) = b` -/
theorem roundtrip (bs : Bytes) : decode (encode bs) = some bs := by
  unfold decode; rw [filter_encode, roundtripQ]

theorem nl_not_mem_encode (bs : Bytes) : B.nl ∉ encode bs := by
  intro h
  have := filter_encode bs
  have hm : B.nl ∈ (encode bs).filter (fun c => c != B.cr && c != B.nl) := by rw [this]; exact h
  simp at hm

end B64
