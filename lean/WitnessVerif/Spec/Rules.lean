import WitnessVerif.Model.Merkle
import WitnessVerif.Model.Checkpoint
/-
Independent specification of the witness protocol's answer (written from the text of property C09
and c2sp.org/tlog-witness, not from the Go code): an ordered rule list whose proof rule uses the
*recursive* RFC 6962 verifier `M.recRoots`.
-/
namespace Spec

inductive Rule
  | unknownLog | noValidSig | firstUse | oldTooLarge | stale | rootMismatch | invalidProof | accepted
deriving DecidableEq, Repr

def Rule.name : Rule → String
  | .unknownLog => "unknownLog" | .noValidSig => "noValidSig" | .firstUse => "none"
  | .oldTooLarge => "oldSizeInvalid" | .stale => "stale" | .rootMismatch => "rootMismatch"
  | .invalidProof => "invalidProof" | .accepted => "none"

/-- the four refusals after a checkpoint is stored return the stored cosigned checkpoint -/
def Rule.returnsStored : Rule → Bool
  | .oldTooLarge | .stale | .rootMismatch | .invalidProof => true
  | _ => false

/-- RFC 6962 consistency between (size1, root1) and (size2, root2), by the recursive verifier;
    for equal sizes: equal roots and an empty proof -/
def consistent [DecidableEq α] (H : α → α → α) (size1 size2 : Nat) (proof : List α) (root1 root2 : α) : Bool :=
  if size1 = size2 then proof.isEmpty && decide (root1 = root2)
  else if 0 < size1 ∧ size1 < size2 then
    match M.recRoots H root1 true size1 size2 proof.reverse with
    | some (o, t) => decide (o = root1) && decide (t = root2)
    | none => false
  else false

/-- first matching rule, for a known log; `none` = outside the claim of C09 (first use with a
    non-zero old size or a non-empty proof; stored size 0 below the submitted size) -/
def verdict (H : Bytes → Bytes → Bytes) (stored : Option Cp.Checkpoint) (old : Nat) (sub : Option Cp.Checkpoint)
    (proof : List Bytes) : Option Rule :=
  match sub with
  | none => some .noValidSig
  | some next =>
    match stored with
    | none => if old = 0 ∧ proof.isEmpty then some .firstUse else none
    | some prev =>
      if old > next.size then some .oldTooLarge
      else if old ≠ prev.size then some .stale
      else if prev.size = 0 ∧ 0 < next.size then none
      else if next.size = prev.size ∧ next.hash ≠ prev.hash then some .rootMismatch
      else if consistent H prev.size next.size proof prev.hash next.hash then some .accepted
      else some .invalidProof

end Spec
