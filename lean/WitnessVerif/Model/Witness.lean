import WitnessVerif.Model.Merkle
import WitnessVerif.Model.Checkpoint
/-
internal/witness/witness.go: `Update`, `GetCheckpoint`, `GetLogs`, at two altitudes.
`Core`: the decision on parsed values, generic in the hash type.
`Wit`:  the byte-level function (parse, storage interaction, decision, sign, set, counters).
-/
namespace Core
variable {α : Type} [DecidableEq α]

structure CP (α : Type) where
  size : Nat
  root : α
deriving DecidableEq

inductive Verdict
  | accepted | oldSizeInvalid | stale | smallerNil | rootMismatch | invalidProof
deriving DecidableEq, Repr

/-- the checks of `Update` after both checkpoints have been parsed, in source order -/
def decide (H : α → α → α) (prev : CP α) (old : Nat) (next : CP α) (proof : List α) : Verdict :=
  if old > next.size then .oldSizeInvalid
  else if old ≠ prev.size then .stale
  else if next.size < prev.size then .smallerNil
  else if next.size = prev.size ∧ next.root ≠ prev.root then .rootMismatch
  else if next.size = 0 then (if proof.length > 0 then .invalidProof else .accepted)
  else if G.verifyConsistency H prev.size next.size proof prev.root next.root then .accepted
  else .invalidProof

/-- trust on first use when nothing is stored -/
def updateCore (H : α → α → α) (stored : Option (CP α)) (old : Nat) (next : CP α) (proof : List α) : Verdict :=
  match stored with
  | none => .accepted
  | some prev => decide H prev old next proof

end Core

namespace Wit

structure LogInfo where
  id : Bytes
  origin : Bytes
  verifier : Note.Verifier

structure Cfg where
  logs : List LogInfo
  /-- `LogHasher.HashChildren` -/
  H : Bytes → Bytes → Bytes
  /-- what the configured `note.Signer`s return for a text; `none` = a signer failed -/
  signers : Bytes → Option (List Note.SignerOut)

def Cfg.find (cfg : Cfg) (id : Bytes) : Option LogInfo := cfg.logs.find? (fun l => l.id == id)

inductive Err
  | none | unknownLog | noValidSig | oldSizeInvalid | stale | rootMismatch | invalidProof
  | storage | storedUnparseable | signFailed
deriving DecidableEq, Repr

/-- what the storage layer answered for `WriteOps(id).GetLatest()` -/
inductive Prev
  | notFound | found (raw : Bytes) | readErr
deriving DecidableEq, Repr

/-- storage behaviour seen by one `Update` -/
structure Env where
  writeOpsErr : Bool := false
  prev : Prev
  setErr : Bool := false

structure Ctr where
  attempt : Nat := 0
  success : Nat := 0
  invalidConsistency : Nat := 0
  inconsistent : Nat := 0
deriving DecidableEq, Repr

structure Out where
  ret : Option Bytes
  err : Err
  /-- argument of `write.Set`, when it was called -/
  set : Option Bytes := none
  /-- `WriteOps` succeeded (so `Close` is owed) -/
  opened : Bool := false
  ctr : Ctr := {}
deriving DecidableEq, Repr

/-- `w.parse`: `log.ParseCheckpoint(raw, logInfo.Origin, logInfo.SigV)` -/
def parse (l : LogInfo) (raw : Bytes) : Option (Cp.Checkpoint × Note.Note) :=
  Cp.parseCheckpoint raw l.origin l.verifier []

def toCore (c : Cp.Checkpoint) : Core.CP Bytes := ⟨c.size, c.hash⟩

/-- sign (`signChkpt`: `note.Sign`, then the cosigned note must parse again under the log's key),
    `Set`, count: the common tail of the three accepting branches -/
def signAndSet (cfg : Cfg) (env : Env) (l : LogInfo) (n : Note.Note) (ctr : Ctr) : Out :=
  match cfg.signers n.text with
  | none => { ret := none, err := .signFailed, opened := true, ctr := ctr }
  | some outs =>
    match Note.sign n outs with
    | none => { ret := none, err := .signFailed, opened := true, ctr := ctr }
    | some signed =>
      if (parse l signed).isNone then { ret := none, err := .signFailed, opened := true, ctr := ctr }
      else if env.setErr then { ret := none, err := .storage, set := some signed, opened := true, ctr := ctr }
      else { ret := some signed, err := .none, set := some signed, opened := true,
             ctr := { ctr with success := ctr.success + 1 } }

/-- `Witness.Update(ctx, logID, oldSize, nextRaw, cProof)` -/
def update (cfg : Cfg) (env : Env) (logID : Bytes) (old : Nat) (nextRaw : Bytes) (proof : List Bytes) : Out :=
  match cfg.find logID with
  | none => { ret := none, err := .unknownLog }
  | some l =>
    let ctr : Ctr := { attempt := 1 }
    match parse l nextRaw with
    | none => { ret := none, err := .noValidSig, ctr := ctr }
    | some (next, nextNote) =>
      if env.writeOpsErr then { ret := none, err := .storage, ctr := ctr }
      else match env.prev with
        | .readErr => { ret := none, err := .storage, opened := true, ctr := ctr }
        | .notFound => signAndSet cfg env l nextNote ctr
        | .found prevRaw =>
          match parse l prevRaw with
          | none => { ret := none, err := .storedUnparseable, opened := true, ctr := ctr }
          | some (prev, _) =>
            match Core.decide cfg.H (toCore prev) old (toCore next) proof with
            | .oldSizeInvalid => { ret := some prevRaw, err := .oldSizeInvalid, opened := true, ctr := ctr }
            | .stale => { ret := some prevRaw, err := .stale, opened := true, ctr := ctr }
            | .smallerNil => { ret := none, err := .oldSizeInvalid, opened := true, ctr := ctr }
            | .rootMismatch => { ret := some prevRaw, err := .rootMismatch, opened := true,
                                 ctr := { ctr with inconsistent := 1 } }
            | .invalidProof => { ret := some prevRaw, err := .invalidProof, opened := true,
                                 ctr := { ctr with invalidConsistency := 1 } }
            | .accepted => signAndSet cfg env l nextNote ctr

/-- storage calls one `Update` makes, in order: W = WriteOps, G = GetLatest, S = Set, C = Close -/
inductive Call | W | G | S | C
deriving DecidableEq, Repr

def callScript (o : Out) : List Call :=
  if o.err = .unknownLog ∨ o.err = .noValidSig then []
  else if !o.opened then [.W]
  else [.W, .G] ++ (if o.set.isSome then [.S] else []) ++ [.C]

/-! ### sequential witness over an abstract store (association list, latest binding first) -/

abbrev Store := List (Bytes × Bytes)

def Store.get (s : Store) (id : Bytes) : Option Bytes := (s.find? (fun kv => kv.1 == id)).map (·.2)

def Store.set (s : Store) (id v : Bytes) : Store := (id, v) :: s.filter (fun kv => kv.1 != id)

def Store.ids (s : Store) : List Bytes := s.map (·.1)

def prevOf (s : Store) (id : Bytes) : Prev :=
  match s.get id with
  | some raw => .found raw
  | none => .notFound

structure Req where
  logID : Bytes
  old : Nat
  next : Bytes
  proof : List Bytes

/-- which storage calls of one `Update` fail -/
structure Faults where
  writeOps : Bool := false
  read : Bool := false
  set : Bool := false
deriving DecidableEq, Repr

def envOf (s : Store) (id : Bytes) (f : Faults) : Env :=
  { writeOpsErr := f.writeOps, prev := if f.read then .readErr else prevOf s id, setErr := f.set }

/-- one `Update` against the store under a fault pattern; a failed `Set` leaves the store as it was -/
def stepF (cfg : Cfg) (s : Store) (r : Req) (f : Faults) : Store × Out :=
  let out := update cfg (envOf s r.logID f) r.logID r.old r.next r.proof
  match out.set, out.err with
  | some v, .none => (s.set r.logID v, out)
  | _, _ => (s, out)

/-- one fault-free `Update` against the store -/
def step (cfg : Cfg) (s : Store) (r : Req) : Store × Out := stepF cfg s r {}

/-- `GetCheckpoint` -/
def getCheckpoint (s : Store) (id : Bytes) : Option Bytes := s.get id

def run (cfg : Cfg) : Store → List Req → Store × List Out
  | s, [] => (s, [])
  | s, r :: rs =>
    let (s', o) := step cfg s r
    let (s'', os) := run cfg s' rs
    (s'', o :: os)

end Wit
