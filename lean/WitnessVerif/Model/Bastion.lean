import WitnessVerif.Model.Witness
/-
internal/feeder/bastion/bastion_feeder.go: `parseBody` (with the behaviour of `bufio.Reader.ReadLine`,
`fmt.Sscanf("old %d")` and `base64.StdEncoding.DecodeString` it is built on), `ServeHTTP` and
`handleUpdate`.
-/
namespace Bastion

/-- `bufio.Reader.ReadLine` with the default 4096-byte buffer, `isPrefix` ignored (as `parseBody`
    does): the next line without its end-of-line ("\n" or "\r\n"), or — when no newline occurs in the
    next 4096 bytes — a 4096-byte chunk (4095 when it would end in '\r'); `none` = EOF error. -/
def readLine (s : Bytes) : Option (Bytes × Bytes) :=
  match s with
  | [] => none
  | _ =>
    let w := s.take 4096
    match B.cut B.nl w with
    | some (p, _) =>
      let line := if p.getLast? = some B.cr then p.dropLast else p
      some (line, s.drop (p.length + 1))
    | none =>
      if s.length ≥ 4096 then
        if w.getLast? = some B.cr then some (w.dropLast, s.drop 4095) else some (w, s.drop 4096)
      else some (s, [])

theorem readLine_shorter (s line rest : Bytes) (h : readLine s = some (line, rest)) : rest.length < s.length := by
  unfold readLine at h
  split at h
  · cases h
  · rename_i hne
    have hpos : 0 < s.length := by
      cases s with
      | nil => exact absurd rfl hne
      | cons _ _ => simp
    simp only at h
    split at h
    · simp only [Option.some.injEq, Prod.mk.injEq] at h
      rw [← h.2, List.length_drop]; omega
    · split at h
      · split at h <;>
          (simp only [Option.some.injEq, Prod.mk.injEq] at h; rw [← h.2, List.length_drop]; omega)
      · simp only [Option.some.injEq, Prod.mk.injEq] at h
        rw [← h.2]; simpa using hpos

def isDigit (c : UInt8) : Bool := 48 ≤ c.toNat && c.toNat ≤ 57

/-- the old-size line: `strings.CutPrefix(line, "old ")` then `strconv.ParseUint(rest, 10, 64)` -/
def scanOld (line : Bytes) : Option Nat :=
  match line with
  | 111 :: 108 :: 100 :: 32 :: rest => Dec.parseUint64 rest     -- "old "
  | _ => none

/-- the proof-line loop of `parseBody` -/
def proofLines : Nat → Bytes → Option (List Bytes × Bytes)
  | 0, _ => none
  | fuel + 1, s =>
    match readLine s with
    | none => none
    | some (l, rest) =>
      if l.isEmpty then some ([], rest)
      else match B64.decode l with
        | none => none
        | some h =>
          match proofLines fuel rest with
          | none => none
          | some (hs, cp) => some (h :: hs, cp)

/-- `parseBody` : (old size, proof, checkpoint) or an error -/
def parseBody (body : Bytes) : Option (Nat × List Bytes × Bytes) :=
  match readLine body with
  | none => none
  | some (sizeLine, rest) =>
    match scanOld sizeLine with
    | none => none
    | some old =>
      match proofLines (rest.length + 1) rest with
      | none => none
      | some (proof, cp) => some (old, proof, cp)

/-- the body as `cmd/feedbastion` (`bastionClient.Update`) and the tlog-witness protocol write it: an
    old-size line, one base64 line per proof hash, a blank line, the checkpoint -/
def writeBody (old : Nat) (proof : List Bytes) (cp : Bytes) : Bytes :=
  [111, 108, 100, 32] ++ Dec.print old ++ [B.nl] ++ proof.flatMap (fun h => B64.encode h ++ [B.nl]) ++ [B.nl] ++ cp

structure Resp where
  status : Nat
  ctype : Bytes := []
  body : Bytes := []
deriving DecidableEq, Repr

/-- `handleUpdate`, given what `Witness.Update` answered; `origin` and `witV` as configured -/
def handleUpdate (origin : Bytes) (witV : Note.Verifier) (out : Wit.Out) : Resp :=
  -- the two verdicts that carry no checkpoint are mapped first
  if out.err = .unknownLog then { status := 404 }
  else if out.err = .noValidSig then { status := 403 }
  else match out.ret with
  | none => { status := 500 }
  | some trusted =>
    match Cp.parseCheckpoint trusted origin witV [] with
    | none => { status := 500 }
    | some (tcp, n) =>
      match out.err with
      | .stale => { status := 409, ctype := B.ofString "text/x.tlog.size", body := Dec.print tcp.size ++ [B.nl] }
      | .unknownLog => { status := 404 }
      | .noValidSig => { status := 403 }
      | .oldSizeInvalid => { status := 400 }
      | .invalidProof => { status := 422 }
      | .rootMismatch => { status := 409 }
      | .none =>
        match n.sigs with
        | s :: _ => { status := 200, body := Note.sigPrefix ++ s.name ++ [B.sp] ++ s.b64 ++ [B.nl] }
        | [] => { status := 500 }       -- unreachable: `Open` never returns an empty `Sigs`
      | _ => { status := 500 }

/-- configuration of the endpoint: the logs it knows (ID ↦ origin) and the witness verifier -/
structure HCfg where
  logs : List (Bytes × Bytes)
  witV : Note.Verifier

/-- `ServeHTTP`: `allow` is the rate limiter's answer, `store` the witness state the request meets;
    returns the response and the `Update` outcome when `Update` was invoked -/
def serve (w : Wit.Cfg) (h : HCfg) (store : Wit.Store) (allow : Bool) (body : Bytes) : Resp × Option Wit.Out :=
  if !allow then ({ status := 429 }, none)
  else match parseBody body with
    | none => ({ status := 400 }, none)
    | some (old, proof, cp) =>
      match B.cut B.nl cp with
      | none => ({ status := 400 }, none)
      | some (first, _) =>
        let id := Cp.logID first
        match h.logs.find? (fun l => l.1 == id) with
        | none => ({ status := 404 }, none)
        | some (_, origin) =>
          let out := Wit.update w (Wit.envOf store id {}) id old cp proof
          (handleUpdate origin h.witV out, some out)

/-- the same endpoint behind the connection wiring of `connectAndServe`: `http.MaxBytesHandler(handler, cap)`
    makes every read past `cap` bytes fail, so a longer body is a malformed body (400) whatever it contains;
    the rate limiter is consulted before the body is read; `cap = 0`: no cap -/
def serveConn (cap : Nat) (w : Wit.Cfg) (h : HCfg) (store : Wit.Store) (allow : Bool) (body : Bytes) : Resp × Option Wit.Out :=
  if !allow then ({ status := 429 }, none)
  else if cap ≠ 0 ∧ body.length > cap then ({ status := 400 }, none)
  else serve w h store allow body

/-! ### a session: successive requests against the endpoint and the witness state behind it -/

/-- the `Update` an add-checkpoint body amounts to, when it gets as far as the witness -/
def reqOf (h : HCfg) (body : Bytes) : Option Wit.Req :=
  match parseBody body with
  | none => none
  | some (old, proof, cp) =>
    match B.cut B.nl cp with
    | none => none
    | some (first, _) =>
      match h.logs.find? (fun l => l.1 == Cp.logID first) with
      | none => none
      | some _ => some { logID := Cp.logID first, old := old, next := cp, proof := proof }

/-- what one request (the limiter's answer and the body) asks of the witness -/
def asked (h : HCfg) (p : Bool × Bytes) : Option Wit.Req := if p.1 then reqOf h p.2 else none

/-- one request: the response, and the witness state after it -/
def post (w : Wit.Cfg) (h : HCfg) (store : Wit.Store) (p : Bool × Bytes) : Wit.Store × Resp :=
  let resp := (serve w h store p.1 p.2).1
  match asked h p with
  | none => (store, resp)
  | some r => ((Wit.step w store r).1, resp)

def session (w : Wit.Cfg) (h : HCfg) : Wit.Store → List (Bool × Bytes) → Wit.Store × List Resp
  | s, [] => (s, [])
  | s, p :: ps =>
    let (s', r) := post w h s p
    let (s'', rs) := session w h s' ps
    (s'', r :: rs)

end Bastion
