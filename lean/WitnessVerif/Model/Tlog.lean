import WitnessVerif.Model.Merkle
/-
golang.org/x/mod/sumdb/tlog: `ProveTree` / `treeProof`, at the level of subtree hashes.
`subTreeHash(lo, hi)` is MTH(D[lo:hi]) (the stored-hash and tile layer that computes it is authenticated by
tlog itself against the signed tree head; it is exercised by the correspondence check, not modelled here).
`maxpow2(n)` is the largest power of two smaller than `n` (`M.splitK`); Go's `int64` version loops for
n > 2^62, which the feeders exclude (fix b006a00).
-/
namespace Tlog
variable {α : Type}

/-- D[lo:hi] -/
def slice (D : List α) (lo hi : Nat) : List α := (D.drop lo).take (hi - lo)

/-- `treeProof(lo, hi, n, hashes)`: the proof, in the order tlog appends it (deepest hash first) -/
def treeProof (H : α → α → α) (e : α) (D : List α) (lo hi n : Nat) : List α :=
  if n = hi then (if lo = 0 then [] else [M.mth H e (slice D lo hi)])
  else if h : lo < n ∧ n < hi then
    let k := M.splitK (hi - lo)
    if n ≤ lo + k then treeProof H e D lo (lo + k) n ++ [M.mth H e (slice D (lo + k) hi)]
    else treeProof H e D (lo + k) hi n ++ [M.mth H e (slice D lo (lo + k))]
  else []       -- "bad math in treeProof": panics in Go; unreachable from `ProveTree`
termination_by hi - lo
decreasing_by
  · have := M.splitK_lt (n := hi - lo) (by omega); omega
  · have := M.splitK_pos (hi - lo); omega

/-- `ProveTree(t, n, h)`: `none` = "invalid inputs" -/
def proveTree (H : α → α → α) (e : α) (D : List α) (t n : Nat) : Option (List α) :=
  if t < 1 ∨ n < 1 ∨ n > t then none else some (treeProof H e D 0 t n)

end Tlog
