import WitnessVerif.Model.Witness
/-
internal/http/server.go (`getCheckpoint`, `getLogs`, the route pattern) and
client/http/witness_client.go (`GetLatestCheckpoint`).
-/
namespace Api

/-- the route variable `{logid:[a-zA-Z0-9-]+}`: one non-empty path segment of these characters -/
def routeChar (c : UInt8) : Bool :=
  let n := c.toNat
  (97 ≤ n && n ≤ 122) || (65 ≤ n && n ≤ 90) || (48 ≤ n && n ≤ 57) || n == 45

def routeMatch (id : Bytes) : Bool := !id.isEmpty && id.all routeChar

structure Resp where
  status : Nat
  body : Bytes
deriving DecidableEq, Repr

/-- GET /witness/v0/logs/<id>/checkpoint, final answer (after the router's clean-path redirect, which
    leads to a path that matches no route) -/
def getCheckpoint (s : Wit.Store) (id : Bytes) : Resp :=
  if !routeMatch id then { status := 404, body := [] }
  else match s.get id with
    | some b => { status := 200, body := b }
    | none => { status := 404, body := [] }

/-- what the bundled client makes of it -/
inductive ClientRes
  | bytes (b : Bytes) | notExist | err
deriving DecidableEq, Repr

def client (r : Resp) : ClientRes :=
  if r.status = 404 then .notExist else if r.status ≠ 200 then .err else .bytes r.body

/-- GET /witness/v0/logs: the IDs that have a checkpoint -/
def getLogs (s : Wit.Store) : List Bytes := s.ids

end Api
