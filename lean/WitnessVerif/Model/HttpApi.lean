import WitnessVerif.Model.Witness
/-
internal/http/server.go (`getCheckpoint`, `getLogs`, the route pattern) and
client/http/witness_client.go (`GetLatestCheckpoint`).
-/
namespace Api

/-- the route variable `{logid:[a-zA-Z0-9-]+}`: one non-empty path segment of these characters -/
def routeChar (c : UInt8) : Bool :=
  let n := c.toNat
  (97 ≤ n && n ≤ 122) || (65 ≤ n && n ≤ 90) || (48 ≤ n && n ≤ 57) || n == 45

def routeMatch (id : Bytes) : Bool := !id.isEmpty && id.all routeChar

structure Resp where
  status : Nat
  body : Bytes
deriving DecidableEq, Repr

/-- GET /witness/v0/logs/<id>/checkpoint, final answer (after the router's clean-path redirect, which
    leads to a path that matches no route) -/
def getCheckpoint (s : Wit.Store) (id : Bytes) : Resp :=
  if !routeMatch id then { status := 404, body := [] }
  else match s.get id with
    | some b => { status := 200, body := b }
    | none => { status := 404, body := [] }

/-- gRPC status codes as far as `httpForCode` tells them apart (`other`: every code the switch does not name,
    among them Unknown — what `status.Code` gives for a plain error — Internal, Unavailable, PermissionDenied) -/
inductive Code
  | notFound | alreadyExists | failedPrecondition | invalidArgument | unauthenticated | other
deriving DecidableEq, Repr

/-- `httpForCode` -/
def httpForCode : Code → Nat
  | .alreadyExists => 409
  | .notFound => 404
  | .failedPrecondition => 400
  | .invalidArgument => 400
  | .unauthenticated => 400
  | .other => 500

/-- the same request when the storage read fails with an error of the given code (`GetCheckpoint` hands the error
    on, the handler answers `httpForCode(status.Code(err))` and no checkpoint) -/
def getCheckpointE (readErr : Option Code) (s : Wit.Store) (id : Bytes) : Resp :=
  if !routeMatch id then { status := 404, body := [] }
  else match readErr with
    | some c => { status := httpForCode c, body := [] }
    | none => getCheckpoint s id

/-- a read that fails with a plain error (code Unknown) -/
def getCheckpointF (readFails : Bool) (s : Wit.Store) (id : Bytes) : Resp :=
  getCheckpointE (if readFails then some .other else none) s id

/-- what the bundled client makes of it -/
inductive ClientRes
  | bytes (b : Bytes) | notExist | err
deriving DecidableEq, Repr

def client (r : Resp) : ClientRes :=
  if r.status = 404 then .notExist else if r.status ≠ 200 then .err else .bytes r.body

/-- GET /witness/v0/logs: the IDs that have a checkpoint -/
def getLogs (s : Wit.Store) : List Bytes := s.ids

/-- the handler: status and, on 200, the list; a failing `Logs()` is a 500, never an (empty) list -/
def getLogsF (logsFails : Bool) (s : Wit.Store) : Nat × List Bytes :=
  if logsFails then (500, []) else (200, getLogs s)

end Api
