import WitnessVerif.Model.Witness
/-
internal/http/server.go (`getCheckpoint`, `getLogs`, the route pattern) and
client/http/witness_client.go (`GetLatestCheckpoint`).
-/
namespace Api

/-- the route variable `{logid:[a-zA-Z0-9-]+}`: one non-empty path segment of these characters -/
def routeChar (c : UInt8) : Bool :=
  let n := c.toNat
  (97 ≤ n && n ≤ 122) || (65 ≤ n && n ≤ 90) || (48 ≤ n && n ≤ 57) || n == 45

def routeMatch (id : Bytes) : Bool := !id.isEmpty && id.all routeChar

structure Resp where
  status : Nat
  body : Bytes
deriving DecidableEq, Repr

/-- GET /witness/v0/logs/<id>/checkpoint, final answer (after the router's clean-path redirect, which
    leads to a path that matches no route) -/
def getCheckpoint (s : Wit.Store) (id : Bytes) : Resp :=
  if !routeMatch id then { status := 404, body := [] }
  else match s.get id with
    | some b => { status := 200, body := b }
    | none => { status := 404, body := [] }

/-- the same request when the storage read fails with anything but NotFound (`GetCheckpoint` returns the error,
    `httpForCode` maps every code other than NotFound/AlreadyExists/the argument codes to 500): the handler must not
    present the failure as "no checkpoint" -/
def getCheckpointF (readFails : Bool) (s : Wit.Store) (id : Bytes) : Resp :=
  if !routeMatch id then { status := 404, body := [] }
  else if readFails then { status := 500, body := [] }
  else getCheckpoint s id

/-- what the bundled client makes of it -/
inductive ClientRes
  | bytes (b : Bytes) | notExist | err
deriving DecidableEq, Repr

def client (r : Resp) : ClientRes :=
  if r.status = 404 then .notExist else if r.status ≠ 200 then .err else .bytes r.body

/-- GET /witness/v0/logs: the IDs that have a checkpoint -/
def getLogs (s : Wit.Store) : List Bytes := s.ids

/-- the handler: status and, on 200, the list; a failing `Logs()` is a 500, never an (empty) list -/
def getLogsF (logsFails : Bool) (s : Wit.Store) : Nat × List Bytes :=
  if logsFails then (500, []) else (200, getLogs s)

end Api
