/-
Model of the Merkle layer: RFC 6962 tree hash, the recursive consistency verifier (shape of
x/mod tlog.runTreeProof), and the Go algorithm of transparency-dev/merkle proof.RootFromConsistencyProof.
Core-only Lean; abstract over the node hasher `H`.
-/
namespace M
variable {α : Type}

/-- largest power of two strictly smaller than `n` (for `n ≥ 2`) -/
def splitK (n : Nat) : Nat := 2 ^ Nat.log2 (n - 1)

theorem splitK_pos (n : Nat) : 0 < splitK n := Nat.pow_pos (by decide)

theorem splitK_lt {n : Nat} (h : 2 ≤ n) : splitK n < n := by
  unfold splitK
  have : n - 1 ≠ 0 := by omega
  have := Nat.log2_self_le this
  omega

theorem le_two_splitK {n : Nat} (h : 2 ≤ n) : n ≤ 2 * splitK n := by
  unfold splitK
  have := @Nat.lt_log2_self (n - 1)
  rw [Nat.pow_succ] at this
  omega

/-- if `k = splitK n < m ≤ n` then `splitK m = k` -/
theorem splitK_mid {m n : Nat} (hn : 2 ≤ n) (h1 : splitK n < m) (h2 : m ≤ n) : splitK m = splitK n := by
  unfold splitK at *
  congr 1
  have hm1 : m - 1 ≠ 0 := by
    have := Nat.pow_pos (a := 2) (n := (n-1).log2) (by decide); omega
  have hn1 : n - 1 ≠ 0 := by omega
  -- log2 (m-1) = log2 (n-1)
  apply Nat.le_antisymm
  · -- log2 (m-1) ≤ log2 (n-1)  since m-1 ≤ n-1 < 2^(log2(n-1)+1)
    have : (m-1).log2 < (n-1).log2 + 1 := by
      rw [Nat.log2_lt hm1]
      have := @Nat.lt_log2_self (n - 1)
      omega
    omega
  · -- 2^log2(n-1) ≤ m-1
    have : ¬ (m-1).log2 < (n-1).log2 := by
      rw [Nat.log2_lt hm1]; omega
    omega

def mth (H : α → α → α) (e : α) : List α → α
  | [] => e
  | [x] => x
  | x :: y :: l =>
      let k := splitK (l.length + 2)
      H (mth H e ((x :: y :: l).take k)) (mth H e ((x :: y :: l).drop k))
termination_by l => l.length
decreasing_by
  · have := splitK_lt (n := l.length + 2) (by omega)
    simp only [List.length_take, List.length_cons]; omega
  · have := splitK_pos (l.length + 2)
    simp only [List.length_drop, List.length_cons]; omega

theorem mth_split (H : α → α → α) (e : α) (D : List α) (h : 2 ≤ D.length) :
    mth H e D = H (mth H e (D.take (splitK D.length))) (mth H e (D.drop (splitK D.length))) := by
  match D, h with
  | x :: y :: l, _ =>
    rw [mth]
    simp only [List.length_cons]

def Inj (H : α → α → α) : Prop := ∀ a b c d, H a b = H c d → a = c ∧ b = d


/-- recursive verifier, `rp` = proof reversed (top sibling first). Mirrors x/mod tlog.runTreeProof. -/
def recRoots (H : α → α → α) (old : α) (b : Bool) (m n : Nat) (rp : List α) : Option (α × α) :=
  if m = n then
    if b then (match rp with | [] => some (old, old) | _ => none)
    else (match rp with | [x] => some (x, x) | _ => none)
  else if h : 2 ≤ n ∧ 0 < m ∧ m < n then
    match rp with
    | [] => none
    | x :: rest =>
      if m ≤ splitK n then
        match recRoots H old b m (splitK n) rest with
        | some (o, t) => some (o, H t x)
        | none => none
      else
        match recRoots H old false (m - splitK n) (n - splitK n) rest with
        | some (o, t) => some (H x o, H x t)
        | none => none
  else none
termination_by n
decreasing_by
  · exact splitK_lt h.1
  · have := splitK_pos n; omega


end M
namespace M
variable {α : Type}

/-- RFC 6962 §2.1.2 SUBPROOF, emitted top sibling first (i.e. reversed w.r.t. the wire order). -/
def subproofRev (H : α → α → α) (e : α) (b : Bool) (m : Nat) (D : List α) : List α :=
  if m = D.length then (if b then [] else [mth H e D])
  else if h : 2 ≤ D.length ∧ 0 < m ∧ m < D.length then
    if m ≤ splitK D.length then
      mth H e (D.drop (splitK D.length)) :: subproofRev H e b m (D.take (splitK D.length))
    else
      mth H e (D.take (splitK D.length)) :: subproofRev H e false (m - splitK D.length) (D.drop (splitK D.length))
  else []
termination_by D.length
decreasing_by
  · have := splitK_lt h.1; simp only [List.length_take]; omega
  · have := splitK_pos D.length; simp only [List.length_drop]; omega

/-- wire-order proof as produced by an honest log (RFC 6962 PROOF(m, D)). -/
def rfcProof (H : α → α → α) (e : α) (m : Nat) (D : List α) : List α := (subproofRev H e true m D).reverse

end M

namespace G
variable {α : Type}

def bitLen (n : Nat) : Nat := if n = 0 then 0 else n.log2 + 1

def popcount (n : Nat) : Nat := if h : n = 0 then 0 else n % 2 + popcount (n / 2)
decreasing_by omega

def tz (n : Nat) : Nat := if h : n = 0 then 0 else if n % 2 = 1 then 0 else tz (n / 2) + 1
decreasing_by omega

end G

namespace G
variable {α : Type}
open M

/-- one sibling step: `true` = left sibling (both trees), `false` = right sibling (new tree only) -/
def stepD (H : α → α → α) (acc : α × α) (h : α) (d : Bool) : α × α :=
  if d then (H h acc.1, H h acc.2) else (acc.1, H acc.2 h)

def chainF (H : α → α → α) : α × α → List α → (Nat → Bool) → α × α
  | acc, [], _ => acc
  | acc, h :: r, d => chainF H (stepD H acc h (d 0)) r (fun j => d (j+1))

theorem chainF_snoc (H : α → α → α) (acc : α × α) (q : List α) (x : α) (d : Nat → Bool) :
    chainF H acc (q ++ [x]) d = stepD H (chainF H acc q d) x (d q.length) := by
  induction q generalizing acc d with
  | nil => simp [chainF]
  | cons h r ih => simp [chainF, ih]

theorem chainF_congr (H : α → α → α) (acc : α × α) (q : List α) (d d' : Nat → Bool)
    (h : ∀ j, j < q.length → d j = d' j) : chainF H acc q d = chainF H acc q d' := by
  induction q generalizing acc d d' with
  | nil => simp [chainF]
  | cons x r ih =>
    simp only [chainF]
    rw [h 0 (by simp)]
    exact ih _ _ _ (fun j hj => h (j+1) (by simp; omega))

/-- direction of the j-th proof element after the seed, in the Go algorithm -/
def dirAt (mask inner : Nat) (j : Nat) : Bool := if j < inner then mask.testBit j else true

/-- Go's RootFromConsistencyProof, generalised with flag `b` (old root available) and base case m = n. -/
def goFull (H : α → α → α) (root1 : α) (b : Bool) (m n : Nat) (p : List α) : Option (α × α) :=
  if m = n then
    if b then (match p with | [] => some (root1, root1) | _ => none)
    else (match p with | [x] => some (x, x) | _ => none)
  else
    let i0 := bitLen ((m-1) ^^^ (n-1))
    let s := tz m
    let inner := i0 - s
    let border := popcount ((m-1) >>> i0)
    let sr : Option (α × List α) :=
      if b && (m == 2 ^ s) then some (root1, p) else (match p with | [] => none | x :: r => some (x, r))
    match sr with
    | none => none
    | some (seed, rest) =>
      if rest.length = inner + border then some (chainF H (seed, seed) rest (dirAt ((m-1) >>> s) inner)) else none

end G

/-! ### The Go code, statement by statement (transparency-dev/merkle proof/verify.go) -/
namespace G
variable {α : Type}

/-- `chainInner`: `(index>>i)&1 == 0 ? H(seed,h) : H(h,seed)` for the i-th proof element -/
def chainInner (H : α → α → α) : α → List α → Nat → α
  | seed, [], _ => seed
  | seed, h :: r, idx => chainInner H (if idx.testBit 0 then H h seed else H seed h) r (idx / 2)

/-- `chainInnerRight`: only the left siblings (`(index>>i)&1 == 1`) are hashed in -/
def chainInnerRight (H : α → α → α) : α → List α → Nat → α
  | seed, [], _ => seed
  | seed, h :: r, idx => chainInnerRight H (if idx.testBit 0 then H h seed else seed) r (idx / 2)

/-- `chainBorderRight` -/
def chainBorderRight (H : α → α → α) : α → List α → α
  | seed, [] => seed
  | seed, h :: r => chainBorderRight H (H h seed) r

/-- `RootFromConsistencyProof(hasher, size1, size2, proof, root1)`; `none` = error.
    `bits.Len64`, `bits.OnesCount64`, `bits.TrailingZeros64` are `bitLen`, `popcount`, `tz` on
    naturals (all operands are below 2^64 and no operation wraps: `size1-1`, `size2-1` are taken
    only when `0 < size1 < size2`). -/
def rootFromConsistencyProof [DecidableEq α] (H : α → α → α) (size1 size2 : Nat) (proof : List α) (root1 : α) :
    Option α :=
  if size2 < size1 then none
  else if size1 = size2 then (if proof.length > 0 then none else some root1)
  else if size1 = 0 then none
  else if proof.length = 0 then none
  else
    let inner0 := bitLen ((size1 - 1) ^^^ (size2 - 1))
    let border := popcount ((size1 - 1) >>> inner0)
    let shift := tz size1
    let inner := inner0 - shift
    let seedStart : Option (α × Nat) :=
      if size1 = 2 ^ shift then some (root1, 0)
      else match proof with
        | x :: _ => some (x, 1)
        | [] => none
    match seedStart with
    | none => none
    | some (seed, start) =>
      if proof.length ≠ start + inner + border then none
      else
        let p := proof.drop start
        let mask := (size1 - 1) >>> shift
        let hash1 := chainBorderRight H (chainInnerRight H seed (p.take inner) mask) (p.drop inner)
        if hash1 ≠ root1 then none
        else some (chainBorderRight H (chainInner H seed (p.take inner) mask) (p.drop inner))

/-- `VerifyConsistency` -/
def verifyConsistency [DecidableEq α] (H : α → α → α) (size1 size2 : Nat) (proof : List α) (root1 root2 : α) : Bool :=
  match rootFromConsistencyProof H size1 size2 proof root1 with
  | some h2 => decide (h2 = root2)
  | none => false

end G
