import WitnessVerif.Model.Bytes
/-
SHA-256 (FIPS 180-4) over `UInt32`; stands in for Go `crypto/sha256`. Executable; never unfolded in proofs.
-/
namespace Sha
def K : Array UInt32 := #[
 0x428a2f98,0x71374491,0xb5c0fbcf,0xe9b5dba5,0x3956c25b,0x59f111f1,0x923f82a4,0xab1c5ed5,
 0xd807aa98,0x12835b01,0x243185be,0x550c7dc3,0x72be5d74,0x80deb1fe,0x9bdc06a7,0xc19bf174,
 0xe49b69c1,0xefbe4786,0x0fc19dc6,0x240ca1cc,0x2de92c6f,0x4a7484aa,0x5cb0a9dc,0x76f988da,
 0x983e5152,0xa831c66d,0xb00327c8,0xbf597fc7,0xc6e00bf3,0xd5a79147,0x06ca6351,0x14292967,
 0x27b70a85,0x2e1b2138,0x4d2c6dfc,0x53380d13,0x650a7354,0x766a0abb,0x81c2c92e,0x92722c85,
 0xa2bfe8a1,0xa81a664b,0xc24b8b70,0xc76c51a3,0xd192e819,0xd6990624,0xf40e3585,0x106aa070,
 0x19a4c116,0x1e376c08,0x2748774c,0x34b0bcb5,0x391c0cb3,0x4ed8aa4a,0x5b9cca4f,0x682e6ff3,
 0x748f82ee,0x78a5636f,0x84c87814,0x8cc70208,0x90befffa,0xa4506ceb,0xbef9a3f7,0xc67178f2]

@[inline] def rotr (x : UInt32) (n : UInt32) : UInt32 := (x >>> n) ||| (x <<< (32 - n))

def pad (msg : Bytes) : Bytes :=
  let l := msg.length
  let zeros := (64 + 55 - l % 64) % 64   -- so that (l + 1 + zeros) % 64 = 56
  let bitlen : Nat := l * 8
  msg ++ [(0x80 : UInt8)] ++ List.replicate zeros (0 : UInt8) ++
    (List.range 8).map (fun i => UInt8.ofNat ((bitlen >>> (8 * (7 - i))) % 256))

def word (b0 b1 b2 b3 : UInt8) : UInt32 :=
  (b0.toUInt32 <<< 24) ||| (b1.toUInt32 <<< 16) ||| (b2.toUInt32 <<< 8) ||| b3.toUInt32

def words : Bytes → List UInt32
  | b0 :: b1 :: b2 :: b3 :: r => word b0 b1 b2 b3 :: words r
  | _ => []

def schedule (w : Array UInt32) : Array UInt32 := Id.run do
  let mut w := w
  for i in [16:64] do
    let w15 := w[i-15]!
    let w2 := w[i-2]!
    let s0 := rotr w15 7 ^^^ rotr w15 18 ^^^ (w15 >>> 3)
    let s1 := rotr w2 17 ^^^ rotr w2 19 ^^^ (w2 >>> 10)
    w := w.push (w[i-16]! + s0 + w[i-7]! + s1)
  return w

structure St where
  a : UInt32
  b : UInt32
  c : UInt32
  d : UInt32
  e : UInt32
  f : UInt32
  g : UInt32
  h : UInt32

def compress (s : St) (blk : List UInt32) : St := Id.run do
  let w := schedule blk.toArray
  let mut t := s
  for i in [0:64] do
    let S1 := rotr t.e 6 ^^^ rotr t.e 11 ^^^ rotr t.e 25
    let ch := (t.e &&& t.f) ^^^ ((~~~ t.e) &&& t.g)
    let t1 := t.h + S1 + ch + K[i]! + w[i]!
    let S0 := rotr t.a 2 ^^^ rotr t.a 13 ^^^ rotr t.a 22
    let mj := (t.a &&& t.b) ^^^ (t.a &&& t.c) ^^^ (t.b &&& t.c)
    let t2 := S0 + mj
    t := { a := t1 + t2, b := t.a, c := t.b, d := t.c, e := t.d + t1, f := t.e, g := t.f, h := t.g }
  return { a := s.a + t.a, b := s.b + t.b, c := s.c + t.c, d := s.d + t.d, e := s.e + t.e, f := s.f + t.f, g := s.g + t.g, h := s.h + t.h }

def init : St := ⟨0x6a09e667,0xbb67ae85,0x3c6ef372,0xa54ff53a,0x510e527f,0x9b05688c,0x1f83d9ab,0x5be0cd19⟩

def blocks (fuel : Nat) (s : St) (ws : List UInt32) : St :=
  match fuel with
  | 0 => s
  | fuel+1 => if ws.length < 16 then s else blocks fuel (compress s (ws.take 16)) (ws.drop 16)

def be (x : UInt32) : Bytes := [(x >>> 24).toUInt8, (x >>> 16).toUInt8, (x >>> 8).toUInt8, x.toUInt8]

def sha256 (msg : Bytes) : Bytes :=
  let ws := words (pad msg)
  let s := blocks (ws.length / 16 + 1) init ws
  be s.a ++ be s.b ++ be s.c ++ be s.d ++ be s.e ++ be s.f ++ be s.g ++ be s.h

end Sha
