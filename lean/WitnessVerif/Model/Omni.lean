import WitnessVerif.Model.Witness
import WitnessVerif.Model.Feeder
import WitnessVerif.Model.Tlog
/-
The assembled feed cycle of the omniwitness: `feeder.FeedOnce` (internal/feeder/feeder.go) talking to the
real witness through `witnessAdapter` (omniwitness/omniwitness.go) over a store, with a proof source
(`FetchProof` of the log's feeder).  One attempt, no injected failures: the closed loop of the models of
the feeder and of `Witness.Update`.
-/
namespace Omni
open Wit

/-- what the witness (through the adapter) answers during one feeder attempt, and the store afterwards.
    `GetLatestCheckpoint`: NotFound becomes `os.ErrNotExist`; `Update`: any error is an error. -/
def answers (cfg : Cfg) (l : LogInfo) (s : Store) (cpRaw : Bytes) (submit : Cp.Checkpoint)
    (prove : Nat → Nat → Option (List Bytes)) : Feeder.Attempt × Store :=
  let upd (old : Nat) (proof : List Bytes) : Option (Option Bytes) × Store :=
    let r := step cfg s { logID := l.id, old := old, next := cpRaw, proof := proof }
    (if r.2.err = .none then some r.2.ret else none, r.1)
  match s.get l.id with
  | none =>
    match prove 0 submit.size with
    | none => ({ get := .notExist, proof := none, update := none }, s)
    | some p => let u := upd 0 p; ({ get := .notExist, proof := some p, update := u.1 }, u.2)
  | some raw =>
    match parse l raw with
    | none => ({ get := .ok raw, proof := none, update := none }, s)
    | some (latest, _) =>
      if latest.size = submit.size ∧ latest.hash = submit.hash then
        let u := upd latest.size []; ({ get := .ok raw, proof := none, update := u.1 }, u.2)
      else
        match prove latest.size submit.size with
        | none => ({ get := .ok raw, proof := none, update := none }, s)
        | some p => let u := upd latest.size p; ({ get := .ok raw, proof := some p, update := u.1 }, u.2)

/-- one feed cycle (a single attempt) for log `l` publishing `cpRaw` -/
def feedCycle (cfg : Cfg) (l : LogInfo) (s : Store) (cpRaw : Bytes) (prove : Nat → Nat → Option (List Bytes)) :
    (List Feeder.Call × Option Feeder.Outcome) × Store :=
  match parse l cpRaw with
  | none => (([], some .permanent), s)
  | some (submit, _) =>
    let a := answers cfg l s cpRaw submit prove
    (Feeder.feedOnce { origin := l.origin, verifier := l.verifier } (some cpRaw) [a.1], a.2)

/-- `FetchProof` of the SumDB and Pixel feeders over the log's leaf hashes `D`: nothing for size 0, otherwise
    `tlog.ProveTree(to, from)` -/
def tlogProve (H : Bytes → Bytes → Bytes) (e : Bytes) (D : List Bytes) (from_ to : Nat) : Option (List Bytes) :=
  if from_ = 0 then some [] else Tlog.proveTree H e D to from_

end Omni
