import WitnessVerif.Model.Bytes
/-
Go `encoding/base64.StdEncoding`: `EncodeToString` and `DecodeString`.
`DecodeString` ignores '\r' and '\n' anywhere in the input, requires canonical '=' padding, does
not check that the unused trailing bits are zero (StdEncoding is not Strict), and rejects anything
after the padding.
-/
namespace B64

def encChar (i : Nat) : UInt8 :=
  if i < 26 then UInt8.ofNat (65 + i)
  else if i < 52 then UInt8.ofNat (97 + (i - 26))
  else if i < 62 then UInt8.ofNat (48 + (i - 52))
  else if i = 62 then 43 else 47

def decChar (c : UInt8) : Option Nat :=
  let n := c.toNat
  if 65 ≤ n ∧ n ≤ 90 then some (n - 65)
  else if 97 ≤ n ∧ n ≤ 122 then some (n - 97 + 26)
  else if 48 ≤ n ∧ n ≤ 57 then some (n - 48 + 52)
  else if n = 43 then some 62
  else if n = 47 then some 63
  else none

def pad : UInt8 := 61

def encode : Bytes → Bytes
  | [] => []
  | [a] => [encChar (a.toNat / 4), encChar (a.toNat % 4 * 16), pad, pad]
  | [a, b] => [encChar (a.toNat / 4), encChar (a.toNat % 4 * 16 + b.toNat / 16), encChar (b.toNat % 16 * 4), pad]
  | a :: b :: c :: r =>
      encChar (a.toNat / 4) :: encChar (a.toNat % 4 * 16 + b.toNat / 16) ::
      encChar (b.toNat % 16 * 4 + c.toNat / 64) :: encChar (c.toNat % 64) :: encode r

/-- decoder for input that contains no CR/LF (quantum by quantum, padding only in the last) -/
def decodeQ : Bytes → Option Bytes
  | [] => some []
  | [w, x, y, z] =>
    if y = pad ∧ z = pad then
      match decChar w, decChar x with
      | some a, some b => some [UInt8.ofNat (a * 4 + b / 16)]
      | _, _ => none
    else if z = pad then
      match decChar w, decChar x, decChar y with
      | some a, some b, some c => some [UInt8.ofNat (a * 4 + b / 16), UInt8.ofNat (b % 16 * 16 + c / 4)]
      | _, _, _ => none
    else
      match decChar w, decChar x, decChar y, decChar z with
      | some a, some b, some c, some d =>
        some [UInt8.ofNat (a * 4 + b / 16), UInt8.ofNat (b % 16 * 16 + c / 4), UInt8.ofNat (c % 4 * 64 + d)]
      | _, _, _, _ => none
  | w :: x :: y :: z :: r =>
    match decChar w, decChar x, decChar y, decChar z, decodeQ r with
    | some a, some b, some c, some d, some rest =>
      some (UInt8.ofNat (a * 4 + b / 16) :: UInt8.ofNat (b % 16 * 16 + c / 4) :: UInt8.ofNat (c % 4 * 64 + d) :: rest)
    | _, _, _, _, _ => none
  | _ => none

/-- Go `base64.StdEncoding.DecodeString` -/
def decode (s : Bytes) : Option Bytes :=
  decodeQ (s.filter (fun c => c != B.cr && c != B.nl))

end B64
