import WitnessVerif.Model.Checkpoint
/-
omniwitness/configs.go (`LogConfig.AsLogMap`), internal/config/log.go (`NewLog`),
transparency-dev/formats/note `NewVerifier` (dispatch on the key type byte, key-hash checks), the
feeder table and the URL checks at the top of each feeder's `FeedLog`.
-/
namespace Cfg

structure Entry where
  origin : Bytes
  publicKey : Bytes
  url : Bytes
  feeder : Bytes
deriving DecidableEq, Repr

/-- `strconv.ParseUint(s, 16, 32)` -/
def parseHex32 (s : Bytes) : Option Nat :=
  if s.isEmpty then none
  else match s.mapM B.hexVal with
    | some ds =>
      let v := ds.foldl (fun a d => a * 16 + d) 0
      if v < 2 ^ 32 then some v else none
    | none => none

/-- identity of a verifier: what `note.Open` matches signature lines against -/
structure VerifierId where
  name : Bytes
  hash : Nat
  kind : Nat          -- key type byte: 1 Ed25519, 2 ECDSA, 5 RFC 6962 STH
  key : Bytes         -- key bytes after the type byte
deriving DecidableEq, Repr

def keyHashEd25519 (name key : Bytes) : Nat := B.beDecode ((Sha.sha256 (name ++ [B.nl] ++ key)).take 4)

/-- `f_note.NewVerifier(key)`; parsing of the DER public key (ECDSA, RFC 6962) is not modelled: the
    result assumes `x509.ParsePKIXPublicKey` accepts it -/
def newVerifier (vkey : Bytes) : Option VerifierId :=
  match B.splitN B.plus 3 vkey with
  | [name, hash16, key64] =>
    match B64.decode key64 with
    | none => none
    | some kb =>
      if kb.length < 2 then none
      else
        let alg := (kb.headD 0).toNat
        let key := kb.drop 1
        if alg = 2 then
          -- NewECDSAVerifier: declared hash = first 4 bytes of sha256(der)
          match parseHex32 hash16 with
          | none => none
          | some h => if h = B.beDecode ((Sha.sha256 key).take 4) then some { name := name, hash := h, kind := 2, key := key } else none
        else if alg = 4 then none        -- NewVerifierForCosignatureV1 demands type byte 1 in the same position
        else if alg = 5 then
          if hash16.length ≠ 8 || !Note.isValidName name then none
          else some { name := name, hash := B.beDecode ((Sha.sha256 (name ++ [B.nl, 5] ++ Sha.sha256 key)).take 4), kind := 5, key := key }
        else
          -- golang.org/x/mod/sumdb/note.NewVerifier
          match parseHex32 hash16 with
          | none => none
          | some h =>
            if hash16.length ≠ 8 || !Note.isValidName name then none
            else if h ≠ keyHashEd25519 name kb then none
            else if alg ≠ 1 then none
            else if key.length ≠ 32 then none
            else some { name := name, hash := h, kind := 1, key := key }
  | _ => none

/-- `config.NewLog(origin, pk, url)`: the ID and the verifier identity -/
def newLog (e : Entry) : Option (Bytes × VerifierId) :=
  (newVerifier e.publicKey).map (fun v => (Cp.logID e.origin, v))

/-- `LogConfig.AsLogMap`: entries in order; an invalid key or two entries with one ID are errors -/
def asLogMap : List Entry → Option (List (Bytes × Entry × VerifierId))
  | [] => some []
  | e :: rest =>
    match asLogMap rest, newVerifier e.publicKey with
    | some m, some v =>
      let id := Cp.logID e.origin
      if m.any (fun x => x.1 == id) then none else some ((id, e, v) :: m)
    | _, _ => none

/-- the query part of a URL and the value of parameter `k` (first occurrence) -/
def queryParam (url k : Bytes) : Option Bytes :=
  match B.cut 63 url with          -- '?'
  | none => none
  | some (_, q) =>
    let q := match B.cut 35 q with | some (a, _) => a | none => q     -- '#'
    ((B.splitOn 38 q).filterMap (fun kv =>       -- '&'
      match B.cut 61 kv with                      -- '='
      | some (a, b) => if a == k then some b else none
      | none => none)).head?

def hasScheme (url : Bytes) : Bool :=
  B.isPrefix (B.ofString "https://") url || B.isPrefix (B.ofString "http://") url

/-- what a feeder needs from its URL before its first request -/
def urlOK (feeder url : Bytes) : Bool :=
  hasScheme url &&
  (if feeder == B.ofString "rekor" then
     match queryParam url (B.ofString "treeID") with
     | some v => !v.isEmpty
     | none => false
   else true)

/-- coherence of a configuration: every key yields a verifier, IDs are pairwise distinct, feeder names
    are known, URLs are usable by their feeder -/
def coherent (feederNames : List Bytes) (es : List Entry) : Bool :=
  es.all (fun e => (newVerifier e.publicKey).isSome && feederNames.contains e.feeder &&
    (e.feeder == B.ofString "none" || urlOK e.feeder e.url)) &&
  (asLogMap es).isSome

end Cfg
