import WitnessVerif.Model.Checkpoint
/-
internal/distribute/rest/distribute.go: `DistributeOnce` / `distributeForLog`.
-/
namespace Dist

structure LogCfg where
  id : Bytes
  origin : Bytes
  verifier : Note.Verifier

/-- what the distributor service (or the transport) answered to a PUT -/
inductive DistAns
  | status (code : Nat)          -- final response status, method still PUT
  | transportErr
  | methodChanged                -- a redirect turned the PUT into another method
deriving DecidableEq, Repr

structure Put where
  path : Bytes
  body : Bytes
deriving DecidableEq, Repr

def hexUpper (n : Nat) : UInt8 := if n < 10 then UInt8.ofNat (48 + n) else UInt8.ofNat (55 + n)

/-- `url.PathEscape`: everything but unreserved characters and `$ & + : = @` is %-escaped -/
def pathEscape : Bytes → Bytes
  | [] => []
  | c :: r =>
    let n := c.toNat
    let keep := (48 ≤ n && n ≤ 57) || (65 ≤ n && n ≤ 90) || (97 ≤ n && n ≤ 122) ||
      n == 45 || n == 95 || n == 46 || n == 126 ||
      n == 36 || n == 38 || n == 43 || n == 58 || n == 61 || n == 64
    if keep then c :: pathEscape r
    else 37 :: hexUpper (n / 16) :: hexUpper (n % 16) :: pathEscape r

/-- `fmt.Sprintf(HTTPCheckpointByWitness, logID, url.PathEscape(witnessName))` -/
def putPath (logID witName : Bytes) : Bytes :=
  B.ofString "/distributor/v0/logs/" ++ logID ++ B.ofString "/byWitness/" ++ pathEscape witName ++ B.ofString "/checkpoint"

/-- `distributeForLog`: the PUT issued (if any) and whether the log counts as distributed -/
def distributeForLog (l : LogCfg) (witV : Note.Verifier) (wit : Option Bytes) (ans : DistAns) : Option Put × Bool :=
  match wit with
  | none => (none, false)
  | some raw =>
    match Cp.parseCheckpoint raw l.origin l.verifier [witV] with
    | none => (none, false)
    | some (_, n) =>
      if n.sigs.length - 1 ≠ 1 then (none, false)
      else
        let put : Put := { path := putPath l.id witV.name, body := raw }
        match ans with
        | .status 200 => (some put, true)
        | _ => (some put, false)

/-- `DistributeOnce`: every log is attempted, in order; the number of failures is reported -/
def distributeOnce (logs : List LogCfg) (witV : Note.Verifier) (wit : LogCfg → Option Bytes) (ans : LogCfg → DistAns) :
    List (Option Put) × Nat :=
  let rs := logs.map (fun l => distributeForLog l witV (wit l) (ans l))
  (rs.map (·.1), (rs.filter (fun r => !r.2)).length)

end Dist
