import WitnessVerif.Model.Decimal
/-
internal/client/sumdb.go (`tilePath`, `TileData`), internal/feeder/sumdb/sumdb_feeder.go
(`tileReader.ReadTiles`: width 256 means a full tile) and the reference `tlog.Tile.Path`.
-/
namespace Tile

/-- `fmt.Sprintf("%03d", n)` -/
def pad3 (n : Nat) : Bytes :=
  let d := Dec.print n
  List.replicate (3 - d.length) 48 ++ d

/-- the loop of `SumDBClient.tilePath` / `tlog.Tile.Path`: `fuel` bounds the iterations (it is called
    with a bound that is never reached) -/
def pathLoop (base : Nat) : Nat → Nat → Bytes → Bytes
  | 0, _, acc => acc
  | fuel + 1, offset, acc =>
    if offset ≥ base then
      let o := offset / base
      pathLoop base fuel o ([120] ++ pad3 (o % base) ++ [47] ++ acc)     -- "x%03d/%s"
    else acc

/-- `SumDBClient.tilePath(offset)` -/
def tilePath (base : Nat) (offset : Nat) : Bytes := pathLoop base (offset + 1) offset (pad3 (offset % base))

/-- the index encoding of the reference implementation, as a recursive definition: the last group
    plain, every group before it prefixed with "x", groups separated by "/" -/
def refGroups (base : Nat) (n : Nat) : List Nat :=
  if h : n < base ∨ base < 2 then [n % base] else refGroups base (n / base) ++ [n % base]
termination_by n
decreasing_by
  have : ¬ (n < base ∨ base < 2) := h
  exact Nat.div_lt_self (by omega) (by omega)

def refPath (base : Nat) (n : Nat) : Bytes :=
  let gs := refGroups base n
  let pre := gs.dropLast.flatMap (fun g => [120] ++ pad3 g ++ [47])
  pre ++ pad3 (gs.getLastD 0)

/-- "tile/" -/
def tilePrefix : Bytes := [116, 105, 108, 101, 47]
/-- ".p/" -/
def partialSep : Bytes := [46, 112, 47]

structure T where
  H : Nat
  L : Nat
  N : Nat
  W : Nat
deriving DecidableEq, Repr

/-- `tlog.Tile.Path()` for a hash tile (L ≥ 0) -/
def refURL (base : Nat) (t : T) : Bytes :=
  tilePrefix ++ Dec.print t.H ++ [47] ++ Dec.print t.L ++ [47] ++ refPath base t.N ++
    (if t.W ≠ 2 ^ t.H then partialSep ++ Dec.print t.W else [])

/-- what the feeder requests for a tile: `ReadTiles` maps width 2^8 to "full" (-1) and `TileData`
    appends ".p/<w>" only for a positive partial width -/
def requestURL (base height : Nat) (t : T) : Bytes :=
  let full := t.W = 2 ^ height
  [47] ++ tilePrefix ++ Dec.print height ++ [47] ++ Dec.print t.L ++ [47] ++ tilePath base t.N ++
    (if !full ∧ t.W > 0 then partialSep ++ Dec.print t.W else [])

end Tile
