import WitnessVerif.Model.Base64
import WitnessVerif.Model.Utf8
/-
golang.org/x/mod/sumdb/note: `Open`, `Sign`, `isValidName`, `VerifierList` lookup.
Signature verification and signing are parameters (`Verifier.verify`, the `sig` bytes of a
`SignerOut`): the model does not contain Ed25519/ECDSA.
-/
namespace Note

structure Sig where
  name : Bytes
  hash : Nat            -- uint32
  b64  : Bytes
deriving DecidableEq, Repr

structure Note where
  text : Bytes
  sigs : List Sig
  unverified : List Sig
deriving DecidableEq, Repr

structure Verifier where
  name : Bytes
  hash : Nat
  verify : Bytes → Bytes → Bool

inductive OpenErr
  | malformed | ambiguous | invalidSig | unverified
deriving DecidableEq, Repr

/-- "— " : U+2014 EM DASH, space -/
def sigPrefix : Bytes := [0xE2, 0x80, 0x94, 0x20]

/-- `isValidName`: non-empty, valid UTF-8, no Unicode space, no '+' -/
def isValidName (name : Bytes) : Bool :=
  name != [] && Utf8.valid name && !(Utf8.runes name).any (fun d => Utf8.isSpace d.1) && !name.contains B.plus

/-- `chop(s, " ")` -/
def chopSpace (s : Bytes) : Bytes × Bytes :=
  match B.cut B.sp s with
  | some (p, q) => (p, q)
  | none => (s, [])

inductive Lookup | unknown | ambiguous | found (v : Verifier)

/-- `verifierMap.Verifier(name, hash)` for a map built by `note.VerifierList(vs...)` -/
def lookup (vs : List Verifier) (name : Bytes) (hash : Nat) : Lookup :=
  match vs.filter (fun v => v.name == name && v.hash == hash) with
  | [] => .unknown
  | [v] => .found v
  | _ => .ambiguous

/-- one parsed signature line (after the "— " prefix has been removed) -/
structure Line where
  raw  : Bytes       -- the line without prefix: the key of `seenUnverified`
  name : Bytes
  b64  : Bytes
  hash : Nat
  sig  : Bytes       -- decoded signature without the 4 key-hash bytes

def parseLine (line : Bytes) : Option Line :=
  if !B.isPrefix sigPrefix line then none
  else
    let rest := line.drop sigPrefix.length
    let (name, b64) := chopSpace rest
    match B64.decode b64 with
    | none => none
    | some sig =>
      if !isValidName name || b64 == [] || sig.length < 5 then none
      else some { raw := rest, name := name, b64 := b64, hash := B.beDecode (sig.take 4), sig := sig.drop 4 }

structure LoopSt where
  sigs : List Sig := []
  unverified : List Sig := []
  seen : List (Bytes × Nat) := []
  seenUnverified : List Bytes := []
  numSig : Nat := 0

/-- the signature-line loop of `note.Open` -/
def openLoop (vs : List Verifier) (text : Bytes) : List Bytes → LoopSt → Except OpenErr LoopSt
  | [], st => .ok st
  | line :: rest, st =>
    match parseLine line with
    | none => .error .malformed
    | some l =>
      let num := st.numSig + 1
      if num > 100 then .error .malformed
      else
        let st := { st with numSig := num }
        match lookup vs l.name l.hash with
        | .unknown =>
          if st.seenUnverified.contains l.raw then openLoop vs text rest st
          else openLoop vs text rest { st with
            seenUnverified := l.raw :: st.seenUnverified,
            unverified := st.unverified ++ [{ name := l.name, hash := l.hash, b64 := l.b64 }] }
        | .ambiguous => .error .ambiguous
        | .found v =>
          if st.seen.contains (l.name, l.hash) then openLoop vs text rest st
          else if !v.verify text l.sig then .error .invalidSig
          else openLoop vs text rest { st with
            seen := (l.name, l.hash) :: st.seen,
            sigs := st.sigs ++ [{ name := l.name, hash := l.hash, b64 := l.b64 }] }

/-- the lines of a signature block that ends in a newline -/
def sigLines (sigs : Bytes) : List Bytes := (B.splitOn B.nl sigs).dropLast

/-- `note.Open(msg, note.VerifierList(vs...))` -/
def «open» (msg : Bytes) (vs : List Verifier) : Except OpenErr Note :=
  if !Utf8.noteCharsOK msg then .error .malformed
  else match B.splitLast msg with
    | none => .error .malformed
    | some (text, sigs) =>
      if sigs == [] || sigs.getLast? != some B.nl then .error .malformed
      else match openLoop vs text (sigLines sigs) {} with
        | .error e => .error e
        | .ok st =>
          if st.sigs == [] then .error .unverified
          else .ok { text := text, sigs := st.sigs, unverified := st.unverified }

/-- what one `note.Signer` contributed: its name, key hash and the bytes `Sign(text)` returned -/
structure SignerOut where
  name : Bytes
  hash : Nat
  sig  : Bytes

def sigLine (name b64 : Bytes) : Bytes := sigPrefix ++ name ++ [B.sp] ++ b64 ++ [B.nl]

/-- the existing-signature part of `note.Sign` -/
def keepLines (have_ : List (Bytes × Nat)) : List Sig → Option Bytes
  | [] => some []
  | s :: rest =>
    if !isValidName s.name then none
    else if have_.contains (s.name, s.hash) then keepLines have_ rest
    else match B64.decode s.b64 with
      | none => none
      | some raw =>
        if raw.length < 4 || B.beDecode (raw.take 4) != s.hash then none
        else match keepLines have_ rest with
          | none => none
          | some r => some (sigLine s.name s.b64 ++ r)

/-- `note.Sign(n, signers...)`, given what each signer's `Sign` returned; `none` = error -/
def sign (n : Note) (signers : List SignerOut) : Option Bytes :=
  if !B.hasSuffix n.text [B.nl] then none
  else if !signers.all (fun s => isValidName s.name) then none
  else
    let have_ := signers.map (fun s => (s.name, s.hash))
    let newLines := signers.flatMap (fun s => sigLine s.name (B64.encode (B.be 4 s.hash ++ s.sig)))
    match keepLines have_ (n.sigs ++ n.unverified) with
    | none => none
    | some old => some (n.text ++ [B.nl] ++ old ++ newLines)

end Note
