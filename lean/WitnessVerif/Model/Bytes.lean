/-
Byte strings as `List UInt8` plus the handful of `bytes`/`strings` helpers of the Go standard
library that the modelled code uses (IndexByte, SplitN, LastIndex of "\n\n", HasPrefix, HasSuffix).
-/
abbrev Bytes := List UInt8

namespace B

def nl : UInt8 := 10
def cr : UInt8 := 13
def sp : UInt8 := 32
def plus : UInt8 := 43

def ofString (s : String) : Bytes := s.toUTF8.toList

/-- `bytes.IndexByte`-style cut: the part before the first `c` and the part after it. -/
def cut (c : UInt8) : Bytes → Option (Bytes × Bytes)
  | [] => none
  | x :: r =>
    if x = c then some ([], r)
    else match cut c r with
      | some (p, q) => some (x :: p, q)
      | none => none

/-- `strings.Split(s, c)` for a one-byte separator. -/
def splitOn (c : UInt8) : Bytes → List Bytes
  | [] => [[]]
  | x :: r =>
    if x = c then [] :: splitOn c r
    else match splitOn c r with
      | [] => [[x]]          -- unreachable: splitOn never returns []
      | l :: ls => (x :: l) :: ls

/-- `bytes.SplitN(s, c, n)` for a one-byte separator and `n ≥ 1`: at most `n` pieces, the last one
    holding the unsplit remainder. -/
def splitN (c : UInt8) : Nat → Bytes → List Bytes
  | 0, _ => []
  | 1, s => [s]
  | n + 2, s =>
    match cut c s with
    | none => [s]
    | some (p, q) => p :: splitN c (n + 1) q

def isPrefix : Bytes → Bytes → Bool
  | [], _ => true
  | _ :: _, [] => false
  | a :: p, b :: s => a == b && isPrefix p s

def hasSuffix (s suf : Bytes) : Bool := isPrefix suf.reverse s.reverse

/-- first occurrence of "\n\n": `l = pre ++ [10,10] ++ post` -/
def findNN : Bytes → Option (Bytes × Bytes)
  | [] => none
  | [_] => none
  | a :: b :: r =>
    if a = nl ∧ b = nl then some ([], r)
    else match findNN (b :: r) with
      | some (p, q) => some (a :: p, q)
      | none => none

/-- Go: `split := bytes.LastIndex(msg, "\n\n"); text, sigs := msg[:split+1], msg[split+2:]` -/
def splitLast (msg : Bytes) : Option (Bytes × Bytes) :=
  match findNN msg.reverse with
  | some (p, q) => some (q.reverse ++ [nl], p.reverse)
  | none => none

/-- big-endian encoding of the low `8*k` bits of `n` -/
def be (k : Nat) (n : Nat) : Bytes :=
  (List.range k).map (fun i => UInt8.ofNat ((n >>> (8 * (k - 1 - i))) % 256))

def beDecode (bs : Bytes) : Nat := bs.foldl (fun acc b => acc * 256 + b.toNat) 0

/-! hex, for the driver's line protocol and for `log.ID` (`%x`) -/

def hexDigit (n : Nat) : UInt8 := if n < 10 then UInt8.ofNat (48 + n) else UInt8.ofNat (87 + n)

def toHex : Bytes → Bytes
  | [] => []
  | b :: r => hexDigit (b.toNat / 16) :: hexDigit (b.toNat % 16) :: toHex r

def hexVal (c : UInt8) : Option Nat :=
  let n := c.toNat
  if 48 ≤ n ∧ n ≤ 57 then some (n - 48)
  else if 97 ≤ n ∧ n ≤ 102 then some (n - 87)
  else if 65 ≤ n ∧ n ≤ 70 then some (n - 55)
  else none

def ofHex : Bytes → Option Bytes
  | [] => some []
  | [_] => none
  | a :: b :: r =>
    match hexVal a, hexVal b, ofHex r with
    | some x, some y, some rest => some (UInt8.ofNat (x * 16 + y) :: rest)
    | _, _, _ => none

end B
