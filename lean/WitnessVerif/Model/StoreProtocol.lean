/-
The storage protocol of the in-memory store as a small-step system (internal/persistence/inmemory):
`WriteOps` copies the current value (snapshot), the decision is a function of the snapshot, `Set`
succeeds iff the stored value still equals the snapshot (`expectAndWrite`), otherwise the request
fails with a storage error and no effect. Threads interleave at storage-call granularity.
-/
namespace Lin
variable {V Q R : Type} [DecidableEq V]

inductive Dec (V R : Type) | refuse (r : R) | write (v : V) (r : R)
inductive Out (R : Type) | ok (r : R) | storageErr
inductive PC (V R : Type) | idle | began (snap : Option V) | done (o : Out R)

structure Sys (V R : Type) where
  store : Option V
  pcs : List (PC V R)
  lin : List (Nat × R)        -- ghost: linearised (thread, result) in linearisation order

/-- atomic specification step -/
def specStep (dec : Option V → Q → Dec V R) (s : Option V) (q : Q) : Option V × R :=
  match dec s q with
  | .refuse r => (s, r)
  | .write v r => (some v, r)

/-- `Replays s0 lin s` : executing the requests named in `lin` atomically, in order, from `s0`
    yields exactly the recorded results and ends in store `s`. -/
inductive Replays (dec : Option V → Q → Dec V R) (reqs : List Q) : Option V → List (Nat × R) → Option V → Prop
  | nil (s) : Replays dec reqs s [] s
  | cons (s i q r rest s') : reqs[i]? = some q → (specStep dec s q).2 = r →
      Replays dec reqs (specStep dec s q).1 rest s' → Replays dec reqs s ((i, r) :: rest) s'

theorem Replays.snoc {dec : Option V → Q → Dec V R} {reqs : List Q} {s0 s : Option V} {lin : List (Nat × R)}
    (h : Replays dec reqs s0 lin s) (i : Nat) (q : Q) (hq : reqs[i]? = some q) :
    Replays dec reqs s0 (lin ++ [(i, (specStep dec s q).2)]) (specStep dec s q).1 := by
  induction h with
  | nil s => exact .cons s i q _ [] _ hq rfl (.nil _)
  | cons s j q' r rest s' hj hr _ ih => exact .cons s j q' r _ _ hj hr ih

/-- one micro-step of thread `i` (one storage call) -/
def stepThread (dec : Option V → Q → Dec V R) (reqs : List Q) (s : Sys V R) (i : Nat) : Sys V R :=
  match s.pcs[i]?, reqs[i]? with
  | some .idle, some q =>
    -- WriteOps: take the snapshot. A request that will be refused is linearised here.
    match dec s.store q with
    | .refuse r => { s with pcs := s.pcs.set i (.began s.store), lin := s.lin ++ [(i, r)] }
    | .write _ _ => { s with pcs := s.pcs.set i (.began s.store) }
  | some (.began snap), some q =>
    match dec snap q with
    | .refuse r => { s with pcs := s.pcs.set i (.done (.ok r)) }
    | .write v r =>
      -- Set: compare-and-set against the snapshot
      if s.store = snap then { store := some v, pcs := s.pcs.set i (.done (.ok r)), lin := s.lin ++ [(i, r)] }
      else { s with pcs := s.pcs.set i (.done .storageErr) }
  | _, _ => s

def runSched (dec : Option V → Q → Dec V R) (reqs : List Q) (s : Sys V R) : List Nat → Sys V R
  | [] => s
  | i :: sched => runSched dec reqs (stepThread dec reqs s i) sched
end Lin
