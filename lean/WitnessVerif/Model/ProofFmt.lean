import WitnessVerif.Model.Base64
/-
internal/witness/proof.go: the common text format of a proof.
-/
namespace ProofFmt

/-- `Proof.Marshal` -/
def marshal (p : List Bytes) : Bytes := p.flatMap (fun h => B64.encode h ++ [B.nl])

/-- `Proof.Unmarshal`; `none` = error -/
def unmarshal (data : Bytes) : Option (List Bytes) :=
  if data.isEmpty then some []                       -- the empty proof is written as the empty string
  else if !B.hasSuffix data [B.nl] then none
  else ((B.splitOn B.nl data).dropLast).mapM B64.decode

end ProofFmt
