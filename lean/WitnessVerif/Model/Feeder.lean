import WitnessVerif.Model.Checkpoint
/-
internal/feeder/feeder.go: `FeedOnce` / `submitToWitness` as a function of what the witness and the
log answer. One attempt (`submitOp`) makes at most three calls; the retry loop
(`backoff.Retry`) repeats attempts while they fail transiently.
-/
namespace Feeder

/-- answer of `Witness.GetLatestCheckpoint` -/
inductive GetRes
  | ok (raw : Bytes) | notExist | err
deriving DecidableEq, Repr

/-- a call the feeder makes -/
inductive Call
  | get
  | fetchProof (fromSize toSize : Nat)
  | update (old : Nat) (cp : Bytes) (proof : List Bytes)
deriving DecidableEq, Repr

inductive Outcome
  | done (ret : Option Bytes)      -- success: what the witness returned
  | transient                      -- retried
  | permanent                      -- `backoff.Permanent`: not retried
deriving DecidableEq, Repr

/-- what the environment answers during one attempt -/
structure Attempt where
  get : GetRes
  proof : Option (List Bytes)            -- `FetchProof` result, `none` = error
  update : Option (Option Bytes)         -- `Update` result: `none` = error, `some ret` = success

structure Opts where
  origin : Bytes
  verifier : Note.Verifier

/-- `submitOp` -/
def submitOp (o : Opts) (cpRaw : Bytes) (submit : Cp.Checkpoint) (a : Attempt) : List Call × Outcome :=
  match a.get with
  | .err => ([.get], .transient)
  | g =>
    let latestRaw : Bytes := match g with | .ok raw => raw | _ => []
    let afterLatest (latest : Cp.Checkpoint) (pre : List Call) : List Call × Outcome :=
      match a.proof with
      | none => (pre ++ [.fetchProof latest.size submit.size], .transient)
      | some p =>
        let calls := pre ++ [.fetchProof latest.size submit.size, .update latest.size cpRaw p]
        match a.update with
        | none => (calls, .transient)
        | some ret => (calls, .done ret)
    if latestRaw.isEmpty then afterLatest { origin := [], size := 0, hash := [] } [.get]
    else match Cp.parseCheckpoint latestRaw o.origin o.verifier [] with
      | none => ([.get], .transient)
      | some (latest, _) =>
        if latest.size > submit.size then ([.get], .permanent)
        else if latest.size = submit.size ∧ latest.hash = submit.hash then
          match a.update with
          | none => ([.get, .update latest.size cpRaw []], .transient)
          | some ret => ([.get, .update latest.size cpRaw []], .done ret)
        else afterLatest latest [.get]

/-- the retry loop over a finite script of attempts (the context ends when the script does) -/
def submitLoop (o : Opts) (cpRaw : Bytes) (submit : Cp.Checkpoint) : List Attempt → List Call × Option Outcome
  | [] => ([], none)                                    -- context done before any success
  | a :: rest =>
    match submitOp o cpRaw submit a with
    | (calls, .transient) =>
      let (cs, r) := submitLoop o cpRaw submit rest
      (calls ++ cs, r)
    | (calls, out) => (calls, some out)

/-- `FeedOnce`: the fetched checkpoint must verify under the log's key and origin before anything is
    asked of the witness -/
def feedOnce (o : Opts) (fetched : Option Bytes) (script : List Attempt) : List Call × Option Outcome :=
  match fetched with
  | none => ([], some .permanent)
  | some cpRaw =>
    match Cp.parseCheckpoint cpRaw o.origin o.verifier [] with
    | none => ([], some .permanent)
    | some (submit, _) => submitLoop o cpRaw submit script

end Feeder
