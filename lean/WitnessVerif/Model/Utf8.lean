import WitnessVerif.Model.Bytes
/-
Go `unicode/utf8.DecodeRune` (validity and size), `unicode.IsSpace`, and the two predicates the
note package builds on them.
-/
namespace Utf8

def runeError : Nat := 0xFFFD

def isCont (b : UInt8) : Bool := 0x80 ≤ b.toNat && b.toNat ≤ 0xBF
def inRange (b : UInt8) (lo hi : Nat) : Bool := lo ≤ b.toNat && b.toNat ≤ hi

/-- `utf8.DecodeRune`: (rune, size); invalid or short input gives `(RuneError, 1)`; empty gives
    `(RuneError, 0)` -/
def decodeRune : Bytes → Nat × Nat
  | [] => (runeError, 0)
  | b0 :: r =>
    let n0 := b0.toNat
    if n0 < 0x80 then (n0, 1)
    else if n0 < 0xC2 then (runeError, 1)
    else if n0 ≤ 0xDF then
      match r with
      | b1 :: _ => if isCont b1 then ((n0 % 32) * 64 + b1.toNat % 64, 2) else (runeError, 1)
      | _ => (runeError, 1)
    else if n0 ≤ 0xEF then
      let lo := if n0 = 0xE0 then 0xA0 else 0x80
      let hi := if n0 = 0xED then 0x9F else 0xBF
      match r with
      | b1 :: b2 :: _ =>
        if inRange b1 lo hi && isCont b2 then ((n0 % 16) * 4096 + (b1.toNat % 64) * 64 + b2.toNat % 64, 3)
        else (runeError, 1)
      | _ => (runeError, 1)
    else if n0 ≤ 0xF4 then
      let lo := if n0 = 0xF0 then 0x90 else 0x80
      let hi := if n0 = 0xF4 then 0x8F else 0xBF
      match r with
      | b1 :: b2 :: b3 :: _ =>
        if inRange b1 lo hi && isCont b2 && isCont b3 then
          ((n0 % 8) * 262144 + (b1.toNat % 64) * 4096 + (b2.toNat % 64) * 64 + b3.toNat % 64, 4)
        else (runeError, 1)
      | _ => (runeError, 1)
    else (runeError, 1)

theorem decodeRune_size_pos (b : UInt8) (r : Bytes) : 0 < (decodeRune (b :: r)).2 := by
  unfold decodeRune
  simp only
  repeat' split
  all_goals simp

/-- the runes of a byte string as `(rune, size)` pairs, Go `for range` semantics -/
def runes (s : Bytes) : List (Nat × Nat) :=
  match s with
  | [] => []
  | b :: r =>
    let d := decodeRune (b :: r)
    d :: runes ((b :: r).drop d.2)
termination_by s.length
decreasing_by
  have := decodeRune_size_pos b r
  simp only [List.length_drop, List.length_cons]
  omega

/-- `unicode.IsSpace` -/
def isSpace (r : Nat) : Bool :=
  (0x09 ≤ r && r ≤ 0x0D) || r == 0x20 || r == 0x85 || r == 0xA0 || r == 0x1680 ||
  (0x2000 ≤ r && r ≤ 0x200A) || r == 0x2028 || r == 0x2029 || r == 0x202F || r == 0x205F || r == 0x3000

/-- `utf8.Valid` -/
def valid (s : Bytes) : Bool := (runes s).all (fun d => !(d.1 == runeError && d.2 == 1))

/-- the character check at the top of `note.Open`: no control character other than newline, no
    invalid UTF-8 -/
def noteCharsOK (s : Bytes) : Bool :=
  (runes s).all (fun d => !((d.1 < 0x20 && d.1 != 10) || (d.1 == runeError && d.2 == 1)))

end Utf8
