import WitnessVerif.Model.Bytes
/-
Go `strconv.ParseUint(s, 10, 64)` and `%d` of a `uint64`.
-/
namespace Dec

def digitVal (c : UInt8) : Option Nat :=
  if 48 ≤ c.toNat ∧ c.toNat ≤ 57 then some (c.toNat - 48) else none

def parseDigits : Nat → Bytes → Option Nat
  | acc, [] => some acc
  | acc, c :: r =>
    match digitVal c with
    | some d => parseDigits (acc * 10 + d) r
    | none => none

/-- `strconv.ParseUint(s, 10, 64)`: non-empty, ASCII digits only (no sign, no underscore: the base
    is given explicitly), value below 2^64 -/
def parseUint64 (s : Bytes) : Option Nat :=
  match s with
  | [] => none
  | _ =>
    match parseDigits 0 s with
    | some n => if n < 2 ^ 64 then some n else none
    | none => none

def digitChar (d : Nat) : UInt8 := UInt8.ofNat (48 + d)

def toDigitsAux : Nat → Nat → Bytes → Bytes
  | 0, _, acc => acc
  | fuel + 1, n, acc =>
    if n < 10 then digitChar n :: acc
    else toDigitsAux fuel (n / 10) (digitChar (n % 10) :: acc)

/-- `%d` -/
def print (n : Nat) : Bytes := toDigitsAux (n + 1) n []

end Dec
