import WitnessVerif.Model.Note
import WitnessVerif.Model.Decimal
import WitnessVerif.Model.Sha256
/-
transparency-dev/formats/log: `Checkpoint.Unmarshal`, `ParseCheckpoint`, `ID`.
-/
namespace Cp

structure Checkpoint where
  origin : Bytes
  size : Nat
  hash : Bytes
deriving DecidableEq, Repr

/-- `Checkpoint.Unmarshal` (the returned rest is not used by any caller in the repository) -/
def unmarshal (data : Bytes) : Option Checkpoint :=
  match B.splitN B.nl 4 data with
  | [origin, size, hash, _rest] =>
    if origin == [] then none
    else match Dec.parseUint64 size, B64.decode hash with
      | some n, some h => some { origin := origin, size := n, hash := h }
      | _, _ => none
  | _ => none

def marshal (c : Checkpoint) : Bytes :=
  c.origin ++ [B.nl] ++ Dec.print c.size ++ [B.nl] ++ B64.encode c.hash ++ [B.nl]

/-- `log.ParseCheckpoint(chkpt, origin, logV, others...)`; `none` = any error -/
def parseCheckpoint (chkpt origin : Bytes) (logV : Note.Verifier) (others : List Note.Verifier) :
    Option (Checkpoint × Note.Note) :=
  match Note.open chkpt (logV :: others) with
  | .error _ => none
  | .ok n =>
    -- the first signature by the log verifier decides; `Open` lists each (name, hash) at most once
    if n.sigs.any (fun s => s.hash == logV.hash && s.name == logV.name) then
      match unmarshal n.text with
      | none => none
      | some cp => if cp.origin != origin then none else some (cp, n)
    else none

/-- `log.ID(origin)` = hex(sha256("o:" ‖ origin)) -/
def logID (origin : Bytes) : Bytes := B.toHex (Sha.sha256 (B.ofString "o:" ++ origin))

end Cp
