import WitnessVerif.Model.Witness
/-
internal/persistence/sql/sql.go over `database/sql` + SQLite with one connection, at driver-operation
granularity: `WriteOps` = BEGIN, `GetLatest` = SELECT inside the transaction, `Set` = INSERT OR REPLACE
then COMMIT, `Close` = ROLLBACK (a no-op once the transaction is finished). A process kill at any
boundary loses the open transaction; what is committed stays (assumption: a driver COMMIT is atomic
and durable).
-/
namespace Sql
open Wit

/-- driver-level events of one `Update`: entry and completion of each operation -/
inductive Ev
  | begin | beginDone | query | queryDone | next | exec | execDone | commit | commitDone | rollback | rollbackDone
deriving DecidableEq, Repr

structure Db where
  committed : Store
  tx : Option Store          -- the open transaction's view (uncommitted writes included)

/-- the effect of an operation. A boundary is either the entry of an operation (`begin`, `exec`, …:
    control is about to pass to the driver) or its completion (`beginDone`, …). An operation is
    performed between the two, so for a kill that strikes *at* boundary `k` exactly the operations
    whose entry boundary lies before `k` were performed: effects are attached to entry events. -/
def apply (id : Bytes) (v : Bytes) (db : Db) : Ev → Db
  | .begin => { db with tx := some db.committed }
  | .exec => { db with tx := db.tx.map (fun t => t.set id v) }
  | .commit => match db.tx with
    | some t => { committed := t, tx := none }
    | none => db
  | .rollback => { db with tx := none }
  | _ => db

def applyAll (id v : Bytes) (db : Db) (evs : List Ev) : Db := evs.foldl (apply id v) db

/-- what a fresh process finds after the old one was killed -/
def recover (db : Db) : Store := db.committed

/-- the events of an `Update` that reaches `Set` (first use, growth, refresh) -/
def acceptScript : List Ev := [.begin, .beginDone, .query, .queryDone, .next, .exec, .execDone, .commit, .commitDone]

/-- the events of an `Update` that is refused after the read -/
def refuseScript : List Ev := [.begin, .beginDone, .query, .queryDone, .next, .rollback, .rollbackDone]

/-- the store a fresh process finds when the process is killed at boundary `k` (events `1..k-1`
    completed their part) of an update writing `v` for `id` -/
def crashAt (s : Store) (id v : Bytes) (script : List Ev) (k : Nat) : Store :=
  recover (applyAll id v { committed := s, tx := none } (script.take (k - 1)))

end Sql
