import WitnessVerif.Props.C08
import WitnessVerif.Proofs.CoreRun
import WitnessVerif.Model.Feeder
/-
C14 — the assembled omniwitness follows honest logs and stops at a fork.
Composition, at the level of parsed checkpoints, of what the feeder asks (C13), what the witness
answers (C08/C09, C01) and what the store keeps across restarts (C06).
-/
namespace C14
open Core M G

variable {α : Type} [DecidableEq α]

/-- one fault-free feed cycle against an honest log: the feeder passes the witness's size as old size
    and the RFC 6962 proof between the witnessed and the published size (C13, C18), so the witness
    accepts and now holds the log's latest checkpoint -/
theorem C14_cycle_reaches_latest (H : α → α → α) (e : α) (D : List α) (stored : Option Nat) (n : Nat)
    (hs : ∀ m, stored = some m → 0 < m ∧ m ≤ n) (hn : n ≤ D.length) :
    step H (stored.map (fun m => ⟨m, mth H e (D.take m)⟩))
      { old := stored.getD 0, next := ⟨n, mth H e (D.take n)⟩,
        proof := match stored with | some m => rfcProof H e m (D.take n) | none => [] } =
      (some ⟨n, mth H e (D.take n)⟩, .accepted) := by
  cases stored with
  | none => rfl
  | some m =>
    have h := C08.C08_honest_progress_partial H e D (some m) n hs hn
    simp only [Option.map_some, Option.getD_some] at h
    unfold step
    simp only [Option.map_some, Option.getD_some, h, if_true]

/-- if a log starts serving a history that is not an extension of what was witnessed — its new
    checkpoint commits to a leaf list whose first `m` entries do not hash to the witnessed root — no
    request, whatever old size and proof accompany it, is accepted: the served checkpoint stays -/
theorem C14_fork_stays (H : α → α → α) (e : α) (hinj : Inj H) (prev next : CP α) (D' : List α)
    (hlen : D'.length = next.size) (hroot : next.root = mth H e D') (hpos : 0 < prev.size)
    (hfork : prev.root ≠ mth H e (D'.take prev.size)) (old : Nat) (proof : List α) :
    step H (some prev) { old := old, next := next, proof := proof } =
      (some prev, updateCore H (some prev) old next proof) ∧
    updateCore H (some prev) old next proof ≠ .accepted := by
  have hne : updateCore H (some prev) old next proof ≠ .accepted := by
    intro hacc
    have hext := decide_accepted_ext H e hinj prev next old proof hacc
    exact hfork (hext.2.2 D' hlen hroot hpos)
  refine ⟨?_, hne⟩
  unfold step
  simp only [hne, if_false]

/-- across restarts on durable storage the service resumes from the committed state (C06), so a whole
    schedule of growth steps with restarts in between is a run of the sequential witness: its accepted
    checkpoints are pairwise append-only -/
theorem C14_restarts_compose (H : α → α → α) (e : α) (hinj : Inj H) (before after : List (Req α)) (s : Option (CP α)) :
    (run H s (before ++ after)).Pairwise (Ext H e) :=
  (run_pairwise_ext H e hinj (before ++ after) s).1

end C14
