import WitnessVerif.Props.C08
import WitnessVerif.Proofs.CoreRun
import WitnessVerif.Model.Feeder
import WitnessVerif.Model.Omni
import WitnessVerif.Proofs.Tlog
/-
C14 — the assembled omniwitness follows honest logs and stops at a fork.
Composition, at the level of parsed checkpoints, of what the feeder asks (C13), what the witness
answers (C08/C09, C01) and what the store keeps across restarts (C06).
-/
namespace C14
open Core M G

variable {α : Type} [DecidableEq α]

/-- one fault-free feed cycle against an honest log: the feeder passes the witness's size as old size
    and the RFC 6962 proof between the witnessed and the published size (C13, C18), so the witness
    accepts and now holds the log's latest checkpoint -/
theorem C14_cycle_reaches_latest (H : α → α → α) (e : α) (D : List α) (stored : Option Nat) (n : Nat)
    (hs : ∀ m, stored = some m → 0 < m ∧ m ≤ n) (hn : n ≤ D.length) :
    step H (stored.map (fun m => ⟨m, mth H e (D.take m)⟩))
      { old := stored.getD 0, next := ⟨n, mth H e (D.take n)⟩,
        proof := match stored with | some m => rfcProof H e m (D.take n) | none => [] } =
      (some ⟨n, mth H e (D.take n)⟩, .accepted) := by
  cases stored with
  | none => rfl
  | some m =>
    have h := C08.C08_honest_progress_partial H e D (some m) n hs hn
    simp only [Option.map_some, Option.getD_some] at h
    unfold step
    simp only [Option.map_some, Option.getD_some, h, if_true]

/-- if a log starts serving a history that is not an extension of what was witnessed — its new
    checkpoint commits to a leaf list whose first `m` entries do not hash to the witnessed root — no
    request, whatever old size and proof accompany it, is accepted: the served checkpoint stays -/
theorem C14_fork_stays (H : α → α → α) (e : α) (hinj : Inj H) (prev next : CP α) (D' : List α)
    (hlen : D'.length = next.size) (hroot : next.root = mth H e D') (hpos : 0 < prev.size)
    (hfork : prev.root ≠ mth H e (D'.take prev.size)) (old : Nat) (proof : List α) :
    step H (some prev) { old := old, next := next, proof := proof } =
      (some prev, updateCore H (some prev) old next proof) ∧
    updateCore H (some prev) old next proof ≠ .accepted := by
  have hne : updateCore H (some prev) old next proof ≠ .accepted := by
    intro hacc
    have hext := decide_accepted_ext H e hinj prev next old proof hacc
    exact hfork (hext.2.2 D' hlen hroot hpos)
  refine ⟨?_, hne⟩
  unfold step
  simp only [hne, if_false]

/-- across restarts on durable storage the service resumes from the committed state (C06), so a whole
    schedule of growth steps with restarts in between is a run of the sequential witness: its accepted
    checkpoints are pairwise append-only -/
theorem C14_restarts_compose (H : α → α → α) (e : α) (hinj : Inj H) (before after : List (Req α)) (s : Option (CP α)) :
    (run H s (before ++ after)).Pairwise (Ext H e) :=
  (run_pairwise_ext H e hinj (before ++ after) s).1

end C14

namespace C14
open Wit

theorem parse_nil (l : LogInfo) : parse l [] = none := by
  unfold parse Cp.parseCheckpoint Note.open
  simp [Utf8.noteCharsOK, Utf8.runes, B.splitLast, B.findNN]

/-- what one accepted fault-free step leaves behind -/
theorem step_accepted_bytes (cfg : Cfg) (s : Store) (r : Req) (l : LogInfo) (next : Cp.Checkpoint) (nn : Note.Note)
    (hfind : cfg.find r.logID = some l) (hparse : parse l r.next = some (next, nn))
    (hacc : (update cfg (envOf s r.logID {}) r.logID r.old r.next r.proof).err = .none) :
    ∃ signed n', (step cfg s r).2.err = .none ∧ (step cfg s r).2.ret = some signed ∧
      (step cfg s r).1.get r.logID = some signed ∧ parse l signed = some (next, n') ∧
      ∀ id', id' ≠ r.logID → (step cfg s r).1.get id' = s.get id' := by
  have herr : (step cfg s r).2.err = .none := by
    unfold step stepF; simp only; split <;> exact hacc
  obtain ⟨v, hret, hget⟩ := stepF_accepted cfg s r {} herr
  obtain ⟨l', next', nn', signed, p', n', hf', hp', hset, hps, hpe⟩ :=
    C04.C04_stored_reparses cfg (envOf s r.logID {}) r.logID r.old r.next r.proof hacc
  rw [hfind] at hf'; cases hf'
  rw [hparse] at hp'; cases hp'
  obtain ⟨_, _, _, _, signed2, _, _, _, _, _, hret2, hset2⟩ := C04.C04_result cfg (envOf s r.logID {}) r.logID r.old r.next r.proof hacc
  rw [hset] at hset2; cases hset2
  have hv : v = signed := by
    have : (step cfg s r).2.ret = some signed := by
      unfold step stepF; simp only; split <;> exact hret2
    unfold step at this; rw [hret] at this; cases this; rfl
  subst hv
  exact ⟨v, n', herr, hret, hget, by rw [hps, hpe], fun id' h => stepF_other_log cfg s r {} id' h⟩

/-- One feed cycle of the assembled service, at byte level: the log publishes an honest checkpoint (it
    authenticates, bears just the log's line, commits to the first `next.size` entries of the leaf list
    `D`), the witness holds nothing for the log or an honest earlier checkpoint of non-zero size, storage
    and signers work, and the feeder's proof source returns the RFC 6962 proof (`[]` from size 0).  Then
    the cycle ends with success, and the witness now holds a cosigned checkpoint that parses to the
    published size and root; other logs' slots are untouched. -/
theorem C14_feed_cycle_bytes (cfg : Cfg) (l : LogInfo) (s : Store) (cpRaw : Bytes)
    (next : Cp.Checkpoint) (nn : Note.Note) (sg : Note.Sig) (outs : List Note.SignerOut) (e : Bytes) (D : List Bytes)
    (prove : Nat → Nat → Option (List Bytes))
    (hfind : cfg.find l.id = some l)
    (hparse : parse l cpRaw = some (next, nn)) (hs1 : nn.sigs = [sg]) (hu : nn.unverified = [])
    (hraw : cpRaw = nn.text ++ [B.nl] ++ Note.sigLine sg.name sg.b64)
    (hsg : cfg.signers nn.text = some outs)
    (hval : ∀ o ∈ outs, Note.isValidName o.name = true) (hsig : ∀ o ∈ outs, o.sig ≠ [] ∧ o.hash < 2 ^ 32)
    (hchars : ∀ o ∈ outs, Utf8.noteCharsOK o.name = true)
    (hdiff : ∀ o ∈ outs, ¬ (l.verifier.name = o.name ∧ l.verifier.hash = o.hash))
    (hcount : outs.length + 1 ≤ 100)
    (hn : next.size ≤ D.length) (hnext : next.hash = M.mth cfg.H e (D.take next.size))
    (hstate : s.get l.id = none ∨ ∃ raw prev pn, s.get l.id = some raw ∧ parse l raw = some (prev, pn) ∧
        0 < prev.size ∧ prev.size ≤ next.size ∧ prev.hash = M.mth cfg.H e (D.take prev.size))
    (hp0 : prove 0 next.size = some [])
    (hp : ∀ m, 0 < m → m ≤ next.size → prove m next.size = some (M.rfcProof cfg.H e m (D.take next.size))) :
    ∃ signed n',
      (Omni.feedCycle cfg l s cpRaw prove).1.2 = some (.done (some signed)) ∧
      (Omni.feedCycle cfg l s cpRaw prove).2.get l.id = some signed ∧ parse l signed = some (next, n') ∧
      ∀ id', id' ≠ l.id → (Omni.feedCycle cfg l s cpRaw prove).2.get id' = s.get id' := by
  have hfo : Cp.parseCheckpoint cpRaw l.origin l.verifier [] = some (next, nn) := hparse
  rcases hstate with hnone | ⟨raw, prev, pn, hget, hpp, hpos, hle, hprev⟩
  · -- nothing stored: first use
    have henv : (envOf s l.id {}).prev = .notFound := by simp [envOf, prevOf, hnone]
    have hacc := C08.C08_honest_accepted_bytes cfg (envOf s l.id {}) l.id l cpRaw next nn sg outs 0 []
      hfind hparse hs1 hu hraw rfl rfl hsg hval hsig hchars hdiff hcount (Or.inl henv)
    obtain ⟨signed, n', herr, hret, hst, hps, hoth⟩ :=
      step_accepted_bytes cfg s { logID := l.id, old := 0, next := cpRaw, proof := [] } l next nn hfind hparse hacc
    refine ⟨signed, n', ?_, ?_, hps, ?_⟩
    · unfold Omni.feedCycle Omni.answers
      simp only [hparse, hnone, hp0, herr, hret, if_true]
      simp [Feeder.feedOnce, hfo, Feeder.submitLoop, Feeder.submitOp]
    · unfold Omni.feedCycle Omni.answers
      simp only [hparse, hnone, hp0]
      exact hst
    · intro id' hid
      unfold Omni.feedCycle Omni.answers
      simp only [hparse, hnone, hp0]
      exact hoth id' hid
  · have hrawne : raw.isEmpty = false := by
      cases raw with
      | nil => rw [parse_nil] at hpp; cases hpp
      | cons _ _ => rfl
    have hfr : Cp.parseCheckpoint raw l.origin l.verifier [] = some (prev, pn) := hpp
    have henv : (envOf s l.id {}).prev = .found raw := by simp [envOf, prevOf, hget]
    have hnotgt : ¬ prev.size > next.size := by omega
    by_cases heq : prev.size = next.size ∧ prev.hash = next.hash
    · -- refresh: the feeder sends no proof
      have hproof : M.rfcProof cfg.H e prev.size (D.take next.size) = [] := by
        have hl : (D.take next.size).length = prev.size := by rw [List.length_take]; omega
        rw [← hl]; exact C08.C08_refresh_proof_empty cfg.H e (D.take next.size)
      have hacc := C08.C08_honest_progress_bytes cfg (envOf s l.id {}) l.id l cpRaw next nn sg outs e D prev.size raw prev pn
        hfind hparse hs1 hu hraw rfl rfl hsg hval hsig hchars hdiff hcount henv hpp hpos hle hn ⟨rfl, hprev⟩ hnext
      rw [hproof] at hacc
      obtain ⟨signed, n', herr, hret, hst, hps, hoth⟩ :=
        step_accepted_bytes cfg s { logID := l.id, old := prev.size, next := cpRaw, proof := [] } l next nn hfind hparse hacc
      have hsz := heq.1
      rw [hsz] at herr hret hst hoth
      refine ⟨signed, n', ?_, ?_, hps, ?_⟩
      · unfold Omni.feedCycle Omni.answers
        simp only [hparse, hget, hpp, heq, and_self, if_true, herr, hret]
        simp [Feeder.feedOnce, hfo, Feeder.submitLoop, Feeder.submitOp, hrawne, hfr, hnotgt, heq]
      · unfold Omni.feedCycle Omni.answers
        simp only [hparse, hget, hpp, heq, and_self, if_true]
        exact hst
      · intro id' hid
        unfold Omni.feedCycle Omni.answers
        simp only [hparse, hget, hpp, heq, and_self, if_true]
        exact hoth id' hid
    · -- growth: the feeder fetches the proof between the witnessed and the published size
      have hpr := hp prev.size hpos hle
      have hacc := C08.C08_honest_progress_bytes cfg (envOf s l.id {}) l.id l cpRaw next nn sg outs e D prev.size raw prev pn
        hfind hparse hs1 hu hraw rfl rfl hsg hval hsig hchars hdiff hcount henv hpp hpos hle hn ⟨rfl, hprev⟩ hnext
      obtain ⟨signed, n', herr, hret, hst, hps, hoth⟩ :=
        step_accepted_bytes cfg s { logID := l.id, old := prev.size, next := cpRaw, proof := M.rfcProof cfg.H e prev.size (D.take next.size) } l next nn hfind hparse hacc
      refine ⟨signed, n', ?_, ?_, hps, ?_⟩
      · unfold Omni.feedCycle Omni.answers
        simp only [hparse, hget, hpp, heq, if_false, hpr, herr, hret, if_true]
        simp [Feeder.feedOnce, hfo, Feeder.submitLoop, Feeder.submitOp, hrawne, hfr, hnotgt, heq]
      · unfold Omni.feedCycle Omni.answers
        simp only [hparse, hget, hpp, heq, if_false, hpr]
        exact hst
      · intro id' hid
        unfold Omni.feedCycle Omni.answers
        simp only [hparse, hget, hpp, heq, if_false, hpr]
        exact hoth id' hid

/-- instantiated for the SumDB/Pixel feeders, whose proof source is `tlog.ProveTree` over the log's leaf
    hashes: its proofs are the RFC 6962 proofs (`C18_tlog_proof_is_rfc`), so the cycle above goes through -/
theorem C14_tlog_prove_ok (H : Bytes → Bytes → Bytes) (e : Bytes) (D : List Bytes) (n : Nat) (hn : n ≤ D.length) :
    Omni.tlogProve H e D 0 n = some [] ∧
    ∀ m, 0 < m → m ≤ n → Omni.tlogProve H e D m n = some (M.rfcProof H e m (D.take n)) := by
  refine ⟨by simp [Omni.tlogProve], ?_⟩
  intro m hm hmn
  unfold Omni.tlogProve
  rw [if_neg (by omega)]
  exact Tlog.proveTree_eq_rfc H e D n m hm hmn hn

end C14
