import WitnessVerif.Model.Bastion
import WitnessVerif.Model.ProofFmt
import WitnessVerif.Proofs.Base64
import WitnessVerif.Proofs.ParseBody
import WitnessVerif.Proofs.ProofFmt
/-
C11 — request and proof text formats parse back to exactly what was written.
-/
namespace C11
open Bastion

/-- base64 (Go StdEncoding): what was written decodes to the bytes that were written -/
theorem C11_base64_roundtrip (b : Bytes) : B64.decode (B64.encode b) = some b := B64.roundtrip b

/-- the old-size line is understood only when it is exactly "old" (111 108 100), one space (32) and a
    decimal number below 2^64 with nothing after it -/
theorem C11_old_line_strict (line : Bytes) (n : Nat) (h : scanOld line = some n) :
    ∃ ds, line = [111, 108, 100, 32] ++ ds ∧ Dec.parseUint64 ds = some n ∧ n < 2 ^ 64 ∧ ds ≠ [] := by
  unfold scanOld at h
  split at h
  · rename_i rest
    refine ⟨rest, rfl, h, ?_, ?_⟩
    · unfold Dec.parseUint64 at h
      split at h
      · cases h
      · split at h
        · split at h
          · rename_i hlt; simp only [Option.some.injEq] at h; subst h; exact hlt
          · cases h
        · cases h
    · intro he; subst he; simp [Dec.parseUint64] at h
  · cases h

/-- a body whose first line is not a well-formed old-size line is refused -/
theorem C11_refuses_bad_old_line (body line rest : Bytes) (h1 : readLine body = some (line, rest))
    (h2 : scanOld line = none) : parseBody body = none := by
  unfold parseBody; simp [h1, h2]

/-- an empty body is refused -/
theorem C11_refuses_empty : parseBody [] = none := by
  simp [parseBody, readLine]

/-- a body that ends before the blank separator is refused: the proof-line loop reaches the end of
    input without having seen an empty line -/
theorem C11_proofLines_eof (fuel : Nat) : proofLines fuel [] = none := by
  cases fuel <;> simp [proofLines, readLine]

/-- a proof line that is not base64 is refused -/
theorem C11_refuses_bad_proof_line (fuel : Nat) (s l rest : Bytes) (h1 : readLine s = some (l, rest))
    (hne : l.isEmpty = false) (h2 : B64.decode l = none) : proofLines (fuel + 1) s = none := by
  simp [proofLines, h1, hne, h2]

/-- the proof text format: the empty list is written as the empty string and reads back as the
    empty list -/
theorem C11_proof_roundtrip_empty : ProofFmt.unmarshal (ProofFmt.marshal []) = some [] := by
  simp [ProofFmt.marshal, ProofFmt.unmarshal]

/-- non-empty data without a trailing newline is refused -/
theorem C11_unmarshal_needs_newline (d : Bytes) (hne : d ≠ []) (h : B.hasSuffix d [B.nl] = false) :
    ProofFmt.unmarshal d = none := by
  unfold ProofFmt.unmarshal
  have : d.isEmpty = false := by cases d <;> simp_all
  simp [this, h]

end C11

namespace C11

/-- every old size in 0..2^64-1 written with `%d` parses back -/
theorem C11_decimal_roundtrip (n : Nat) (h : n < 2 ^ 64) : Dec.parseUint64 (Dec.print n) = some n :=
  Dec.parse_print n h

/-- An add-checkpoint body written as an old-size line, base64 proof lines, a blank line and a
    checkpoint parses to exactly that old size, those hashes in order, and those checkpoint bytes — for
    every old size below 2^64, every list of non-empty hashes (each up to 3000 bytes, so that its line
    fits `bufio`'s 4096-byte buffer; the property asks for 1..64 bytes) and arbitrary checkpoint bytes. -/
theorem C11_parseBody_writeBody (old : Nat) (proof : List Bytes) (cp : Bytes) (hold : old < 2 ^ 64)
    (hproof : ∀ h ∈ proof, h ≠ [] ∧ h.length ≤ 3000) :
    Bastion.parseBody (Bastion.writeBody old proof cp) = some (old, proof, cp) :=
  Bastion.parseBody_writeBody old proof cp hold hproof

/-- a proof in the common text format reads back, for every list of hashes including the empty list
    (and lists containing empty hashes), as the list that was written -/
theorem C11_proof_roundtrip (p : List Bytes) : ProofFmt.unmarshal (ProofFmt.marshal p) = some p :=
  ProofFmt.unmarshal_marshal p

/-- non-vacuity: a concrete body -/
example : Bastion.parseBody (Bastion.writeBody 5 [[1, 2, 3], [255]] [65, 10, 10, 66]) = some (5, [[1, 2, 3], [255]], [65, 10, 10, 66]) :=
  C11_parseBody_writeBody 5 _ _ (by decide) (by decide)

end C11
