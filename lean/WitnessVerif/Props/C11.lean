import WitnessVerif.Model.Bastion
import WitnessVerif.Model.ProofFmt
import WitnessVerif.Proofs.Base64
/-
C11 — request and proof text formats parse back to exactly what was written.
-/
namespace C11
open Bastion

/-- base64 (Go StdEncoding): what was written decodes to the bytes that were written -/
theorem C11_base64_roundtrip (b : Bytes) : B64.decode (B64.encode b) = some b := B64.roundtrip b

/-- the old-size line is understood only when it is exactly "old" (111 108 100), one space (32) and a
    decimal number below 2^64 with nothing after it -/
theorem C11_old_line_strict (line : Bytes) (n : Nat) (h : scanOld line = some n) :
    ∃ ds, line = [111, 108, 100, 32] ++ ds ∧ Dec.parseUint64 ds = some n ∧ n < 2 ^ 64 ∧ ds ≠ [] := by
  unfold scanOld at h
  split at h
  · rename_i rest
    refine ⟨rest, rfl, h, ?_, ?_⟩
    · unfold Dec.parseUint64 at h
      split at h
      · cases h
      · split at h
        · split at h
          · rename_i hlt; simp only [Option.some.injEq] at h; subst h; exact hlt
          · cases h
        · cases h
    · intro he; subst he; simp [Dec.parseUint64] at h
  · cases h

/-- a body whose first line is not a well-formed old-size line is refused -/
theorem C11_refuses_bad_old_line (body line rest : Bytes) (h1 : readLine body = some (line, rest))
    (h2 : scanOld line = none) : parseBody body = none := by
  unfold parseBody; simp [h1, h2]

/-- an empty body is refused -/
theorem C11_refuses_empty : parseBody [] = none := by
  simp [parseBody, readLine]

/-- a body that ends before the blank separator is refused: the proof-line loop reaches the end of
    input without having seen an empty line -/
theorem C11_proofLines_eof (fuel : Nat) : proofLines fuel [] = none := by
  cases fuel <;> simp [proofLines, readLine]

/-- a proof line that is not base64 is refused -/
theorem C11_refuses_bad_proof_line (fuel : Nat) (s l rest : Bytes) (h1 : readLine s = some (l, rest))
    (hne : l.isEmpty = false) (h2 : B64.decode l = none) : proofLines (fuel + 1) s = none := by
  simp [proofLines, h1, hne, h2]

/-- the proof text format: the empty list is written as the empty string and reads back as the
    empty list -/
theorem C11_proof_roundtrip_empty : ProofFmt.unmarshal (ProofFmt.marshal []) = some [] := by
  simp [ProofFmt.marshal, ProofFmt.unmarshal]

/-- non-empty data without a trailing newline is refused -/
theorem C11_unmarshal_needs_newline (d : Bytes) (hne : d ≠ []) (h : B.hasSuffix d [B.nl] = false) :
    ProofFmt.unmarshal d = none := by
  unfold ProofFmt.unmarshal
  have : d.isEmpty = false := by cases d <;> simp_all
  simp [this, h]

end C11
