import WitnessVerif.Model.Tile
import WitnessVerif.Proofs.Core
import WitnessVerif.Proofs.Tlog
/-
C18 — SumDB tile addressing and proofs match the reference tlog implementation.
-/
namespace C18
open Tile

def enc (gs : List Nat) : Bytes := gs.flatMap (fun g => [120] ++ pad3 g ++ [47])

theorem refGroups_last (base n : Nat) : refGroups base n = (refGroups base n).dropLast ++ [n % base] := by
  rw [refGroups]
  split
  · simp
  · simp [List.dropLast_append_of_ne_nil]

theorem refGroups_step (base n : Nat) (h : ¬ (n < base ∨ base < 2)) :
    (refGroups base n).dropLast = refGroups base (n / base) := by
  rw [refGroups]
  rw [dif_neg h]
  simp [List.dropLast_append_of_ne_nil]

theorem pathLoop_eq (base : Nat) (hb : 2 ≤ base) :
    ∀ (offset fuel : Nat) (acc : Bytes), offset < fuel →
      pathLoop base fuel offset acc = enc ((refGroups base offset).dropLast) ++ acc := by
  intro offset
  induction offset using Nat.strongRecOn with
  | _ offset ih =>
    intro fuel acc hf
    cases fuel with
    | zero => omega
    | succ fuel =>
      simp only [pathLoop]
      by_cases hge : offset ≥ base
      · rw [if_pos hge]
        have hnot : ¬ (offset < base ∨ base < 2) := by omega
        have hlt : offset / base < offset := Nat.div_lt_self (by omega) (by omega)
        rw [ih (offset / base) hlt fuel _ (by omega), refGroups_step base offset hnot]
        conv => rhs; rw [refGroups_last base (offset / base)]
        simp [enc, List.flatMap_append]
      · rw [if_neg hge]
        have : refGroups base offset = [offset % base] := by
          rw [refGroups]; rw [dif_pos (Or.inl (by omega))]
        simp [this, enc]

/-- for every tile index the repository's path loop produces exactly the reference encoding
    (`x%03d/` groups for the leading base-1000 digits, `%03d` for the last) -/
theorem C18_tilePath_eq_reference (base : Nat) (hb : 2 ≤ base) (n : Nat) : tilePath base n = refPath base n := by
  unfold tilePath refPath
  rw [pathLoop_eq base hb n (n + 1) _ (by omega)]
  have hl := refGroups_last base n
  have : (refGroups base n).getLastD 0 = n % base := by
    rw [hl]; simp
  simp only [this]
  rfl

/-- full tiles (width 2^8) are requested without suffix, partial tiles of width 1..255 with `.p/<w>`:
    the request is "/" followed by the reference `Tile.Path()` -/
theorem C18_partial_full (base : Nat) (hb : 2 ≤ base) (t : T) (hw : 0 < t.W) :
    requestURL base 8 t = [47] ++ refURL base { t with H := 8 } := by
  unfold requestURL refURL
  rw [C18_tilePath_eq_reference base hb]
  by_cases hfull : t.W = 2 ^ 8
  · simp [hfull]
  · have : ¬ t.W = 256 := by simpa using hfull
    simp [hfull, this, hw]

/-- the proof half: an RFC 6962 consistency proof is accepted by the verifier the witness uses, for
    every pair of sizes (instantiated for the SumDB hasher by the correspondence check) -/
theorem C18_reference_proof_accepted {α : Type} [DecidableEq α] (H : α → α → α) (e : α) (D : List α) (m : Nat)
    (hm : 0 < m) (hmn : m ≤ D.length) :
    G.verifyConsistency H m D.length (M.rfcProof H e m D) (M.mth H e (D.take m)) (M.mth H e D) = true :=
  G.verifyConsistency_complete H e m D hm hmn

/-- the proof the SumDB/Pixel feeders submit is what `tlog.ProveTree(t, n)` assembles from the subtree hashes
    of the log's leaves: it IS the RFC 6962 proof PROOF(n, D[0:t]) (so the feeders' order of hashes is the wire
    order the witness expects), for every pair of sizes `0 < n ≤ t` -/
theorem C18_tlog_proof_is_rfc {α : Type} (H : α → α → α) (e : α) (D : List α) (t n : Nat)
    (hn : 0 < n) (hnt : n ≤ t) (ht : t ≤ D.length) :
    Tlog.proveTree H e D t n = some (M.rfcProof H e n (D.take t)) :=
  Tlog.proveTree_eq_rfc H e D t n hn hnt ht

/-- and therefore the witness's verifier accepts it against the two tree heads -/
theorem C18_tlog_proof_accepted {α : Type} [DecidableEq α] (H : α → α → α) (e : α) (D : List α) (t n : Nat)
    (hn : 0 < n) (hnt : n ≤ t) (ht : t ≤ D.length) :
    ∃ p, Tlog.proveTree H e D t n = some p ∧
      G.verifyConsistency H n t p (M.mth H e (D.take n)) (M.mth H e (D.take t)) = true := by
  refine ⟨_, C18_tlog_proof_is_rfc H e D t n hn hnt ht, ?_⟩
  have hlen : (D.take t).length = t := by rw [List.length_take]; omega
  have h := G.verifyConsistency_complete H e n (D.take t) hn (by omega)
  rw [hlen, List.take_take, Nat.min_eq_left hnt] at h
  exact h

/-- non-vacuity / regression examples at the carry boundaries of the path encoding -/
example : tilePath 1000 999 = B.ofString "999" := by decide +kernel
example : tilePath 1000 1000 = B.ofString "x001/000" := by decide +kernel
example : tilePath 1000 1234067 = B.ofString "x001/x234/067" := by decide +kernel

end C18
