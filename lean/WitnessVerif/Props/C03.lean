import WitnessVerif.Proofs.Frame
/-
C03 — a refused update changes nothing and releases no cosignature.
Stated over every store (reachable or not), every request and every storage-fault pattern.
-/
namespace C03
open Wit

/-- When an update is refused for any reason (any verdict other than acceptance, including storage
    failures), the store is what it was — hence the latest checkpoint of every log and the list of
    known logs are byte-for-byte unchanged — and the bytes that accompany the refusal are nothing or
    exactly the checkpoint stored for that log before the call. -/
theorem C03_refusal_frame (cfg : Cfg) (s : Store) (r : Req) (f : Faults)
    (h : (stepF cfg s r f).2.err ≠ .none) :
    (stepF cfg s r f).1 = s ∧
    (∀ id, getCheckpoint (stepF cfg s r f).1 id = getCheckpoint s id) ∧
    (stepF cfg s r f).1.ids = s.ids ∧
    ((stepF cfg s r f).2.ret = none ∨ (stepF cfg s r f).2.ret = s.get r.logID) := by
  have hs := stepF_refused_store cfg s r f h
  refine ⟨hs, fun id => by rw [hs], by rw [hs], ?_⟩
  have hc := update_cases cfg (envOf s r.logID f) r.logID r.old r.next r.proof
  have hout : (stepF cfg s r f).2 = update cfg (envOf s r.logID f) r.logID r.old r.next r.proof := by
    unfold stepF; simp only; split <;> rfl
  rw [hout] at h ⊢
  simp only at hc
  rcases hc with ⟨he, _⟩ | ⟨_, hn | ⟨raw, hprev, hret⟩⟩
  · exact absurd he h
  · exact Or.inl hn
  · right
    rw [hret]
    unfold envOf prevOf at hprev
    simp only at hprev
    split at hprev
    · cases hprev
    · split at hprev
      · rename_i raw' hget; simp only [Prev.found.injEq] at hprev; rw [hget, hprev]
      · cases hprev

/-- no cosignature over the refused text is released: a refusal never calls the signers' output
    into the result — the result, if any, is the stored checkpoint, which was produced by an
    earlier accepted update -/
theorem C03_no_new_cosignature (cfg : Cfg) (s : Store) (r : Req) (f : Faults) (v : Bytes)
    (h : (stepF cfg s r f).2.err ≠ .none) (hv : (stepF cfg s r f).2.ret = some v) :
    s.get r.logID = some v := by
  rcases (C03_refusal_frame cfg s r f h).2.2.2 with hn | hs
  · rw [hn] at hv; cases hv
  · rw [← hs, hv]

/-- a failed `Set` (storage refuses the write) is a refusal: nothing is reported as stored -/
theorem C03_set_failure_is_refusal (cfg : Cfg) (s : Store) (r : Req) (f : Faults) (hf : f.set = true) :
    (stepF cfg s r f).2.err ≠ .none := by
  have hc := update_cases cfg (envOf s r.logID f) r.logID r.old r.next r.proof
  have hout : (stepF cfg s r f).2 = update cfg (envOf s r.logID f) r.logID r.old r.next r.proof := by
    unfold stepF; simp only; split <;> rfl
  rw [hout]
  simp only at hc
  rcases hc with ⟨_, _, _, _, hse⟩ | ⟨he, _⟩
  · simp [envOf, hf] at hse
  · exact he

/-- non-vacuity: an unknown log is a refusal the theorem applies to -/
example (cfg : Cfg) (s : Store) (r : Req) (h : cfg.find r.logID = none) :
    (stepF cfg s r {}).2.err ≠ .none := by
  have : (stepF cfg s r {}).2 = update cfg (envOf s r.logID {}) r.logID r.old r.next r.proof := by
    unfold stepF; simp only; split <;> rfl
  rw [this]; unfold update; simp [h]

end C03
