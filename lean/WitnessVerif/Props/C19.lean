import WitnessVerif.Model.Bastion
/-
C19 — no network input can crash the witness or leave a request unanswered (the part a model can
carry): every function of the model is total (Lean accepted their termination: structural recursion,
explicit measures for `Utf8.runes`, `Bastion.skipSpaces`, fuel bounded by the input length for the
proof-line loop), and the endpoint's status is always one of the documented codes.
-/
namespace C19
open Bastion

def documented : List Nat := [200, 400, 403, 404, 409, 422, 429, 500]

theorem handleUpdate_documented (origin : Bytes) (witV : Note.Verifier) (out : Wit.Out) :
    (handleUpdate origin witV out).status ∈ documented := by
  unfold handleUpdate documented
  repeat' split
  all_goals simp

/-- for every body (any bytes), every witness state and every limiter answer the endpoint answers
    with a documented status code -/
theorem C19_status_documented (w : Wit.Cfg) (h : HCfg) (store : Wit.Store) (allow : Bool) (body : Bytes) :
    (serve w h store allow body).1.status ∈ documented := by
  unfold serve
  split
  · simp [documented]
  · split
    · simp [documented]
    · split
      · simp [documented]
      · simp only
        split
        · simp [documented]
        · exact handleUpdate_documented _ _ _

/-- the request-body parser consumes its input: every line read leaves strictly less to read, so the
    proof-line loop ends (this is the termination argument of `parseBody`) -/
theorem C19_readLine_progress (s line rest : Bytes) (h : readLine s = some (line, rest)) :
    rest.length < s.length := readLine_shorter s line rest h

end C19
