import WitnessVerif.Model.Bastion
/-
C19 — no network input can crash the witness or leave a request unanswered (the part a model can
carry): every function of the model is total (Lean accepted their termination: structural recursion,
explicit measures for `Utf8.runes`, `Bastion.skipSpaces`, fuel bounded by the input length for the
proof-line loop), and the endpoint's status is always one of the documented codes.
-/
namespace C19
open Bastion

def documented : List Nat := [200, 400, 403, 404, 409, 422, 429, 500]

theorem handleUpdate_documented (origin : Bytes) (witV : Note.Verifier) (out : Wit.Out) :
    (handleUpdate origin witV out).status ∈ documented := by
  unfold handleUpdate documented
  repeat' split
  all_goals simp

/-- for every body (any bytes), every witness state and every limiter answer the endpoint answers
    with a documented status code -/
theorem C19_status_documented (w : Wit.Cfg) (h : HCfg) (store : Wit.Store) (allow : Bool) (body : Bytes) :
    (serve w h store allow body).1.status ∈ documented := by
  unfold serve
  split
  · simp [documented]
  · split
    · simp [documented]
    · split
      · simp [documented]
      · simp only
        split
        · simp [documented]
        · exact handleUpdate_documented _ _ _

/-- the request-body parser consumes its input: every line read leaves strictly less to read, so the
    proof-line loop ends (this is the termination argument of `parseBody`) -/
theorem C19_readLine_progress (s line rest : Bytes) (h : readLine s = some (line, rest)) :
    rest.length < s.length := readLine_shorter s line rest h


/-! ### `tlog.maxpow2`, the loop behind the hang of the SumDB/Pixel feeders (finding F5)

```go
func maxpow2(n int64) (k int64, l int) { l = 0; for 1<<uint(l+1) < n { l++ }; return 1 << uint(l), l }
```
`1<<uint(l+1)` is an int64: 2^(l+1) up to l+1 = 62, -2^63 for l+1 = 63, 0 from 64 on. -/

/-- `int64(1) << k` -/
def shl1 (k : Nat) : Int := if k < 63 then ((2 ^ k : Nat) : Int) else if k = 63 then -9223372036854775808 else 0

/-- the loop continues from `l` iff `1<<(l+1) < n` -/
def continues (n : Int) (l : Nat) : Bool := decide (shl1 (l + 1) < n)

/-- for a size above 2^62 (= 4611686018427387904) the loop condition holds at every `l`: the loop never
    exits (and never looks at a context): this is why such sizes have to be refused before
    `tlog.ProveTree` is called -/
theorem maxpow2_diverges (n : Int) (h : 4611686018427387904 < n) : ∀ l, continues n l = true := by
  intro l
  unfold continues shl1
  simp only [decide_eq_true_eq]
  by_cases h1 : l + 1 < 63
  · rw [if_pos h1]
    have hp : 2 ^ (l + 1) ≤ 2 ^ 62 := Nat.pow_le_pow_right (by decide) (by omega)
    have h62 : (2 : Nat) ^ 62 = 4611686018427387904 := by decide
    rw [h62] at hp
    omega
  · rw [if_neg h1]
    by_cases h2 : l + 1 = 63
    · rw [if_pos h2]; omega
    · rw [if_neg h2]; omega

/-- for sizes up to 2^62 — all that the fixed feeders pass on — the loop exits at some `l ≤ 61` -/
theorem maxpow2_terminates (n : Int) (h : n ≤ 4611686018427387904) : ∃ l, l ≤ 61 ∧ continues n l = false := by
  refine ⟨61, Nat.le_refl _, ?_⟩
  unfold continues shl1
  simp only [decide_eq_false_iff_not]
  have : (61 + 1 < 63) := by decide
  rw [if_pos this]
  have h62 : (2 : Nat) ^ (61 + 1) = 4611686018427387904 := by decide
  rw [h62]
  omega

end C19
