import WitnessVerif.Proofs.CoreRun
import WitnessVerif.Proofs.BytesRun
import WitnessVerif.Props.C05
import WitnessVerif.Proofs.BastionRun
/-
C01 — everything the witness cosigns for a log is one append-only history.
`Core.Ext H e a b` ("b extends a"): sizes do not decrease, equal sizes have equal roots, and if `b`
commits to a leaf list `D` (its root is the RFC 6962 tree hash of `D`) then `a` commits to the
first `a.size` entries of `D`.
-/
namespace C01
open Core M

variable {α : Type} [DecidableEq α]

/-- For every finite sequence of requests against one log (any old sizes, any authenticated
    checkpoints, any proofs) from any starting state, the checkpoints accepted, in order, are
    pairwise append-only; and each extends the checkpoint held at the start. Needs a collision-free
    node hasher. -/
theorem C01_append_only (H : α → α → α) (e : α) (hinj : Inj H) (reqs : List (Req α)) (s : Option (CP α)) :
    (run H s reqs).Pairwise (Ext H e) ∧ (∀ p, s = some p → ∀ c ∈ run H s reqs, Ext H e p c) :=
  run_pairwise_ext H e hinj reqs s

/-- No split view: if two accepted checkpoints (the earlier one non-empty) commit to leaf lists `Di`
    and `Dj`, the earlier list is a prefix-commitment of the later: same root as `Dj.take |Di|`. -/
theorem C01_no_split_view (H : α → α → α) (e : α) (hinj : Inj H) (reqs : List (Req α)) (s : Option (CP α))
    (i j : Nat) (hij : i < j) (hj : j < (run H s reqs).length)
    (Dj : List α) (hDj : Dj.length = ((run H s reqs)[j]'hj).size)
    (hrj : ((run H s reqs)[j]'hj).root = mth H e Dj)
    (hpos : 0 < ((run H s reqs)[i]'(by omega)).size) :
    ((run H s reqs)[i]'(by omega)).root = mth H e (Dj.take ((run H s reqs)[i]'(by omega)).size) := by
  have hp := (C01_append_only H e hinj reqs s).1
  have := List.pairwise_iff_getElem.1 hp i j (by omega) hj hij
  exact this.2.2 Dj hDj hrj hpos

/-- the sizes of accepted checkpoints never decrease and equal sizes mean equal roots -/
theorem C01_sizes_monotone (H : α → α → α) (e : α) (hinj : Inj H) (reqs : List (Req α)) (s : Option (CP α))
    (i j : Nat) (hij : i < j) (hj : j < (run H s reqs).length) :
    ((run H s reqs)[i]'(by omega)).size ≤ ((run H s reqs)[j]'hj).size ∧
    (((run H s reqs)[i]'(by omega)).size = ((run H s reqs)[j]'hj).size →
      ((run H s reqs)[i]'(by omega)).root = ((run H s reqs)[j]'hj).root) := by
  have hp := (C01_append_only H e hinj reqs s).1
  have := List.pairwise_iff_getElem.1 hp i j (by omega) hj hij
  exact ⟨this.1, this.2.1⟩

/-- soundness of the Go consistency verifier, the mechanism behind the theorem -/
theorem C01_verifier_sound (H : α → α → α) (e : α) (hinj : Inj H) (m n : Nat) (p : List α) (r1 r2 : α)
    (hv : G.verifyConsistency H m n p r1 r2 = true) (D : List α) (hD : D.length = n) (hr : r2 = mth H e D) (hm : 0 < m) :
    r1 = mth H e (D.take m) :=
  (G.verifyConsistency_sound H e hinj m n p r1 r2 hv).2.2 D hD hr hm

/-- non-vacuity: with the free hasher on binary trees (`H = node`, injective) a two-leaf growth
    step is accepted, so histories with accepted updates exist -/
inductive T | leaf (n : Nat) | node (l r : T)
deriving DecidableEq

example : Inj T.node := by intro a b c d h; cases h; exact ⟨rfl, rfl⟩

example : run T.node none [⟨0, ⟨2, T.node (T.leaf 0) (T.leaf 1)⟩, []⟩, ⟨2, ⟨2, T.node (T.leaf 0) (T.leaf 1)⟩, []⟩,
      ⟨2, ⟨2, T.leaf 7⟩, []⟩] =
    [⟨2, T.node (T.leaf 0) (T.leaf 1)⟩, ⟨2, T.node (T.leaf 0) (T.leaf 1)⟩] := by
  decide

end C01

/-! ### Byte level: the witness as it runs on submitted bytes and stored bytes -/
namespace C01
open Wit

/-- For every configuration with a collision-free node hasher, every starting store, every log `id`
    and every finite sequence of requests with arbitrary bytes (any old sizes, any proofs, requests for
    other logs interleaved): the checkpoints cosigned for `id` — parsed from the text the witness signed
    in each accepted update, in order — are pairwise append-only, and each extends the checkpoint the
    store held for `id` at the start. The stored bytes are re-parsed on every update, as in the Go
    code; that the re-parsed checkpoint is the accepted one is reparse stability of `note.Sign`/`note.Open`
    (`Note.open_sign_text`). -/
theorem C01_append_only_bytes (cfg : Cfg) (e : Bytes) (hinj : M.Inj cfg.H) (id : Bytes) (l : LogInfo)
    (hl : cfg.find id = some l) (reqs : List Req) (s : Store) :
    (acceptedFor cfg l id s reqs).Pairwise (Core.Ext cfg.H e) ∧
    (∀ raw p n, s.get id = some raw → parse l raw = some (p, n) →
      ∀ c ∈ acceptedFor cfg l id s reqs, Core.Ext cfg.H e (toCore p) c) :=
  bytes_run_ext cfg e hinj id l hl reqs s

/-- no split view at byte level: if a later cosigned checkpoint commits to the leaf hashes `D`, every
    earlier non-empty one commits to the first entries of `D` -/
theorem C01_no_split_view_bytes (cfg : Cfg) (e : Bytes) (hinj : M.Inj cfg.H) (id : Bytes) (l : LogInfo)
    (hl : cfg.find id = some l) (reqs : List Req) (s : Store)
    (i j : Nat) (hij : i < j) (hj : j < (acceptedFor cfg l id s reqs).length) (D : List Bytes)
    (hD : D.length = ((acceptedFor cfg l id s reqs)[j]'hj).size)
    (hr : ((acceptedFor cfg l id s reqs)[j]'hj).root = M.mth cfg.H e D)
    (hpos : 0 < ((acceptedFor cfg l id s reqs)[i]'(by omega)).size) :
    ((acceptedFor cfg l id s reqs)[i]'(by omega)).root =
      M.mth cfg.H e (D.take ((acceptedFor cfg l id s reqs)[i]'(by omega)).size) := by
  have hp := (C01_append_only_bytes cfg e hinj id l hl reqs s).1
  have := List.pairwise_iff_getElem.1 hp i j (by omega) hj hij
  exact this.2.2 D hD hr hpos

end C01

namespace C01
open Wit Lin

/-- C01 under concurrency (in-memory store): for any number of concurrent updates of one log and any
    interleaving of their storage calls, the requests that got an answer other than a storage conflict
    were, in the linearisation order, answered exactly as the sequential witness answers them, and the
    checkpoints cosigned along that order are pairwise append-only — no schedule makes the witness cosign
    both sides of a split view. -/
theorem C01_no_split_view_concurrent (cfg : Cfg) (e : Bytes) (hinj : M.Inj cfg.H) (id : Bytes) (l : LogInfo)
    (hl : cfg.find id = some l) (reqs : List Req) (hall : ∀ (i : Nat) (q : Req), reqs[i]? = some q → q.logID = id)
    (s0 : Option Bytes) (sched : List Nat) :
    let fin := runSched (C05.decOf cfg) reqs { store := s0, pcs := reqs.map (fun _ => .idle), lin := [] } sched
    let order := fin.lin.filterMap (fun p => reqs[p.1]?)
    let s : Store := match s0 with | some b => [(id, b)] | none => []
    (run cfg s order).2 = fin.lin.map (·.2) ∧
    (∀ i r, fin.pcs[i]? = some (.done (.ok r)) → (i, r) ∈ fin.lin) ∧
    (acceptedFor cfg l id s order).Pairwise (Core.Ext cfg.H e) := by
  intro fin order s
  have hlin := C05.C05_linearizable_inmem cfg reqs s0 sched
  have hs : s.get id = s0 := by
    cases s0 with
    | none => simp [s, Store.get]
    | some b => simp [s, Store.get]
  have hrun := C05.replays_is_run cfg id reqs hall s0 _ _ hlin.1 s hs
  exact ⟨hrun.1, hlin.2.1, (C01_append_only_bytes cfg e hinj id l hl order s).1⟩

end C01

namespace C01
open Wit Bastion

/-- C01 seen from the network: whatever sequence of add-checkpoint request bodies reaches the bastion endpoint
    (malformed, oversized, rate-limited, naming any origin, carrying any old size and proof), the witness state
    after it is the state of the sequential witness after the requests that got through, and the checkpoints
    cosigned for any one log along the way are pairwise append-only. -/
theorem C01_append_only_through_endpoint (cfg : Cfg) (h : HCfg) (e : Bytes) (hinj : M.Inj cfg.H) (id : Bytes) (l : LogInfo)
    (hl : cfg.find id = some l) (ps : List (Bool × Bytes)) (s : Store) :
    (session cfg h s ps).1 = (run cfg s (ps.filterMap (asked h))).1 ∧
    (acceptedFor cfg l id s (ps.filterMap (asked h))).Pairwise (Core.Ext cfg.H e) :=
  ⟨session_store cfg h ps s, (C01_append_only_bytes cfg e hinj id l hl _ s).1⟩

end C01
