import WitnessVerif.Model.Feeder
/-
C13 — the feeder only ever asks the witness for a justified step.
-/
namespace C13
open Feeder

/-- the size of the latest checkpoint the witness reported in an attempt: 0 when it has none -/
def latestOf (o : Opts) (a : Attempt) : Option Cp.Checkpoint :=
  match a.get with
  | .ok raw => if raw.isEmpty then some { origin := [], size := 0, hash := [] } else (Cp.parseCheckpoint raw o.origin o.verifier []).map (·.1)
  | .notExist => some { origin := [], size := 0, hash := [] }
  | .err => none

/-- Every `Update` issued in an attempt carries the fetched checkpoint bytes, passes as old size the
    size of the latest checkpoint the witness reported *in that same attempt* (0 when it has none),
    and its proof is either empty (the witness already holds exactly this size and root) or the
    proof fetched in this attempt from exactly that latest checkpoint to the submitted one. -/
theorem C13_justified (o : Opts) (cpRaw : Bytes) (submit : Cp.Checkpoint) (a : Attempt)
    (old : Nat) (cp : Bytes) (proof : List Bytes)
    (h : Call.update old cp proof ∈ (submitOp o cpRaw submit a).1) :
    cp = cpRaw ∧ ∃ latest, latestOf o a = some latest ∧ old = latest.size ∧ latest.size ≤ submit.size ∧
      ((proof = [] ∧ latest.size = submit.size ∧ latest.hash = submit.hash) ∨
       (a.proof = some proof ∧ Call.fetchProof latest.size submit.size ∈ (submitOp o cpRaw submit a).1)) := by
  unfold submitOp at h ⊢
  cases hg : a.get with
  | err => simp [hg] at h
  | notExist =>
    simp only [hg, List.isEmpty_nil, if_true] at h ⊢
    cases hp : a.proof with
    | none => simp [hp] at h
    | some p =>
      simp only [hp] at h ⊢
      have hmem : Call.update old cp proof ∈ [Call.get, Call.fetchProof 0 submit.size, Call.update 0 cpRaw p] := by
        cases hu : a.update <;> simpa [hu] using h
      simp only [List.mem_cons, List.mem_nil_iff, or_false, reduceCtorEq, false_or, Call.update.injEq] at hmem
      obtain ⟨h1, h2, h3⟩ := hmem
      subst h1 h2 h3
      refine ⟨rfl, { origin := [], size := 0, hash := [] }, by simp [latestOf, hg], rfl, Nat.zero_le _, Or.inr ⟨rfl, ?_⟩⟩
      cases hu : a.update <;> simp
  | ok raw =>
    simp only [hg] at h ⊢
    by_cases he : raw.isEmpty = true
    · simp only [he, if_true] at h ⊢
      cases hp : a.proof with
      | none => simp [hp] at h
      | some p =>
        simp only [hp] at h ⊢
        have hmem : Call.update old cp proof ∈ [Call.get, Call.fetchProof 0 submit.size, Call.update 0 cpRaw p] := by
          cases hu : a.update <;> simpa [hu] using h
        simp only [List.mem_cons, List.mem_nil_iff, or_false, reduceCtorEq, false_or, Call.update.injEq] at hmem
        obtain ⟨h1, h2, h3⟩ := hmem
        subst h1 h2 h3
        refine ⟨rfl, { origin := [], size := 0, hash := [] }, by simp [latestOf, hg, he], rfl, Nat.zero_le _, Or.inr ⟨rfl, ?_⟩⟩
        cases hu : a.update <;> simp
    · simp only [he, Bool.false_eq_true, if_false] at h ⊢
      cases hpc : Cp.parseCheckpoint raw o.origin o.verifier [] with
      | none => simp [hpc] at h
      | some ln =>
        obtain ⟨latest, ln'⟩ := ln
        simp only [hpc] at h ⊢
        have hl : latestOf o a = some latest := by simp [latestOf, hg, he, hpc]
        by_cases hgt : latest.size > submit.size
        · simp [hgt] at h
        · simp only [hgt, if_false] at h ⊢
          by_cases heq : latest.size = submit.size ∧ latest.hash = submit.hash
          · simp only [heq, and_self, if_true] at h ⊢
            have hmem : Call.update old cp proof ∈ [Call.get, Call.update submit.size cpRaw []] := by
              cases hu : a.update <;> simpa [hu, heq.1] using h
            simp only [List.mem_cons, List.mem_nil_iff, or_false, reduceCtorEq, false_or, Call.update.injEq] at hmem
            obtain ⟨h1, h2, h3⟩ := hmem
            subst h1 h2 h3
            exact ⟨rfl, latest, hl, heq.1.symm, by omega, Or.inl ⟨rfl, heq.1, heq.2⟩⟩
          · simp only [heq, if_false] at h ⊢
            cases hp : a.proof with
            | none => simp [hp] at h
            | some p =>
              simp only [hp] at h ⊢
              have hmem : Call.update old cp proof ∈ [Call.get, Call.fetchProof latest.size submit.size, Call.update latest.size cpRaw p] := by
                cases hu : a.update <;> simpa [hu] using h
              simp only [List.mem_cons, List.mem_nil_iff, or_false, reduceCtorEq, false_or, Call.update.injEq] at hmem
              obtain ⟨h1, h2, h3⟩ := hmem
              subst h1 h2 h3
              refine ⟨rfl, latest, hl, rfl, by omega, Or.inr ⟨rfl, ?_⟩⟩
              cases hu : a.update <;> simp

/-- it never submits when the witness is already ahead: one call (get-latest), permanent error -/
theorem C13_never_when_ahead (o : Opts) (cpRaw : Bytes) (submit : Cp.Checkpoint) (a : Attempt) (raw : Bytes)
    (latest : Cp.Checkpoint) (n : Note.Note) (hg : a.get = .ok raw) (hne : raw.isEmpty = false)
    (hp : Cp.parseCheckpoint raw o.origin o.verifier [] = some (latest, n)) (hgt : latest.size > submit.size) :
    submitOp o cpRaw submit a = ([.get], .permanent) := by
  unfold submitOp; simp [hg, hne, hp, hgt]

/-- a checkpoint that does not verify under the log's key and origin is never shown to the witness -/
theorem C13_unverified_no_calls (o : Opts) (cpRaw : Bytes) (script : List Attempt)
    (h : Cp.parseCheckpoint cpRaw o.origin o.verifier [] = none) :
    feedOnce o (some cpRaw) script = ([], some .permanent) := by
  unfold feedOnce; simp [h]

/-- after transient failures the loop retries, and succeeds once they clear, returning what the
    witness returned in the successful attempt -/
theorem C13_retry (o : Opts) (cpRaw : Bytes) (submit : Cp.Checkpoint) (failing : List Attempt) (good : Attempt) (rest : List Attempt)
    (ret : Option Bytes)
    (hf : ∀ a ∈ failing, (submitOp o cpRaw submit a).2 = .transient)
    (hg : (submitOp o cpRaw submit good).2 = .done ret) :
    (submitLoop o cpRaw submit (failing ++ good :: rest)).2 = some (.done ret) := by
  induction failing with
  | nil =>
    simp only [List.nil_append, submitLoop]
    cases hs : submitOp o cpRaw submit good with
    | mk calls out =>
      rw [hs] at hg; simp only at hg; subst hg; rfl
  | cons a as ih =>
    simp only [List.cons_append, submitLoop]
    have ha := hf a (List.mem_cons_self ..)
    cases hs : submitOp o cpRaw submit a with
    | mk calls out =>
      rw [hs] at ha; simp only at ha; subst ha
      simp only
      exact ih (fun a' h' => hf a' (List.mem_cons_of_mem _ h'))

/-- it stops when its context ends -/
theorem C13_ctx_end (o : Opts) (cpRaw : Bytes) (submit : Cp.Checkpoint) :
    submitLoop o cpRaw submit [] = ([], none) := rfl

end C13

namespace C13
open Feeder

/-- an attempt in which the witness answers with bytes that do not open as this log's checkpoint (or with an error)
    asks nothing further of anybody: no proof is fetched, nothing is submitted, and the attempt is retried -/
theorem C13_unusable_latest_no_submission (o : Opts) (cpRaw : Bytes) (submit : Cp.Checkpoint) (a : Attempt)
    (h : a.get = .err ∨ ∃ raw, a.get = .ok raw ∧ raw ≠ [] ∧ Cp.parseCheckpoint raw o.origin o.verifier [] = none) :
    submitOp o cpRaw submit a = ([.get], .transient) := by
  unfold submitOp
  rcases h with h | ⟨raw, hg, hne, hp⟩
  · simp [h]
  · have hemp : raw.isEmpty = false := by cases raw <;> simp_all
    simp [hg, hemp, hp]

end C13
