import WitnessVerif.Model.SqlStore
import WitnessVerif.Proofs.Frame
/-
C06 — a crash at any instant leaves each log at the old or the new checkpoint.
-/
namespace C06
open Sql Wit

theorem applyAll_append (id v : Bytes) (db : Db) (a b : List Ev) :
    applyAll id v db (a ++ b) = applyAll id v (applyAll id v db a) b := by
  simp [applyAll, List.foldl_append]

/-- every prefix of the accepting script leaves the committed store at the old value, or — only once
    COMMIT has completed — at the old store with the new checkpoint for exactly that log -/
theorem prefix_states (s : Store) (id v : Bytes) (k : Nat) :
    crashAt s id v acceptScript k = s ∨ (8 < k ∧ crashAt s id v acceptScript k = s.set id v) := by
  unfold crashAt acceptScript
  -- there are only ten distinct prefixes
  rcases Nat.lt_or_ge k 11 with h | h
  · have : k = 0 ∨ k = 1 ∨ k = 2 ∨ k = 3 ∨ k = 4 ∨ k = 5 ∨ k = 6 ∨ k = 7 ∨ k = 8 ∨ k = 9 ∨ k = 10 := by omega
    rcases this with h | h | h | h | h | h | h | h | h | h | h <;> subst h <;> simp [applyAll, apply, recover]
  · right
    refine ⟨by omega, ?_⟩
    have : List.take (k - 1) [Ev.begin, .beginDone, .query, .queryDone, .next, .exec, .execDone, .commit, .commitDone] =
        [Ev.begin, .beginDone, .query, .queryDone, .next, .exec, .execDone, .commit, .commitDone] := by
      apply List.take_of_length_le; simp; omega
    rw [this]
    simp [applyAll, apply, recover]

/-- For every kill point of an accepting update (before and after each driver operation), the store
    found by a fresh process holds, for the log being updated, the checkpoint held before or the one
    being written (a complete value passed to `Set`), and every other log's checkpoint is untouched. -/
theorem C06_crash_atomic (s : Store) (id v : Bytes) (k : Nat) :
    ((crashAt s id v acceptScript k).get id = s.get id ∨ (crashAt s id v acceptScript k).get id = some v) ∧
    ∀ id', id' ≠ id → (crashAt s id v acceptScript k).get id' = s.get id' := by
  rcases prefix_states s id v k with h | ⟨_, h⟩
  · rw [h]; exact ⟨Or.inl rfl, fun _ _ => rfl⟩
  · rw [h]
    exact ⟨Or.inr (Store.get_set_same s id v), fun id' hne => Store.get_set_other s id id' v hne⟩

/-- An update is acknowledged only after all its events: the acknowledged value is what a fresh process
    finds (until a later accepted update supersedes it). -/
theorem C06_ack_durable (s : Store) (id v : Bytes) (k : Nat) (hack : acceptScript.length < k) :
    (crashAt s id v acceptScript k).get id = some v := by
  rcases prefix_states s id v k with h | ⟨_, h⟩
  · -- the store is unchanged by the whole script only if it already held `v` for `id`
    have hfull : crashAt s id v acceptScript k = s.set id v := by
      unfold crashAt
      have ht : List.take (k - 1) acceptScript = acceptScript := by
        apply List.take_of_length_le; simp [acceptScript] at hack ⊢; omega
      rw [ht]
      simp [acceptScript, applyAll, apply, recover]
    rw [hfull]; exact Store.get_set_same s id v
  · rw [h]; exact Store.get_set_same s id v

/-- a refused update never changes what a fresh process finds, wherever the kill strikes -/
theorem C06_refused_crash (s : Store) (id v : Bytes) (k : Nat) : crashAt s id v refuseScript k = s := by
  unfold crashAt refuseScript
  rcases Nat.lt_or_ge k 9 with h | h
  · have : k = 0 ∨ k = 1 ∨ k = 2 ∨ k = 3 ∨ k = 4 ∨ k = 5 ∨ k = 6 ∨ k = 7 ∨ k = 8 := by omega
    rcases this with h | h | h | h | h | h | h | h | h <;> subst h <;> simp [applyAll, apply, recover]
  · have : List.take (k - 1) [Ev.begin, .beginDone, .query, .queryDone, .next, .rollback, .rollbackDone] =
        [Ev.begin, .beginDone, .query, .queryDone, .next, .rollback, .rollbackDone] := by
      apply List.take_of_length_le; simp; omega
    rw [this]; simp [applyAll, apply, recover]

/-- restart safety: the restarted witness runs the sequential step from the recovered store, so
    everything it accepts afterwards extends what is stored (C01) — the recovered value is the old or the
    acknowledged one, both of which were accepted by the same rules -/
theorem C06_restart_is_sequential (cfg : Cfg) (s : Store) (id v : Bytes) (k : Nat) (r : Req) :
    (step cfg (crashAt s id v acceptScript k) r) = step cfg s r ∨
    (step cfg (crashAt s id v acceptScript k) r) = step cfg (s.set id v) r := by
  rcases prefix_states s id v k with h | ⟨_, h⟩
  · left; rw [h]
  · right; rw [h]

end C06
