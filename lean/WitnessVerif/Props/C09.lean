import WitnessVerif.Proofs.SpecAgree
/-
C09 — each update is answered by the first matching rule of the witness protocol.
`Spec.verdict` is the rule list written from the property text; its proof rule is the recursive
RFC 6962 verifier. The theorems say that the model of `Witness.Update` gives that answer on the
claimed domain, and returns the stored checkpoint with the four refusals.
-/
namespace C09
open Wit

/-- the model's answer that corresponds to a rule -/
def errOf : Spec.Rule → Err
  | .unknownLog => .unknownLog | .noValidSig => .noValidSig | .firstUse => .none
  | .oldTooLarge => .oldSizeInvalid | .stale => .stale | .rootMismatch => .rootMismatch
  | .invalidProof => .invalidProof | .accepted => .none

/-- the parsed state a request meets: `none` when the stored bytes do not parse or the read failed -/
def storedOf (l : LogInfo) : Prev → Option (Option Cp.Checkpoint)
  | .notFound => some none
  | .found raw => (parse l raw).map (fun x => some x.1)
  | .readErr => none

/-- On parsed values: the Go-ordered checks give the verdict of the rule list. -/
theorem C09_core_first_match (H : Bytes → Bytes → Bytes) (prev next : Cp.Checkpoint) (old : Nat) (proof : List Bytes)
    (r : Spec.Rule) (h : Spec.verdict H (some prev) old (some next) proof = some r) :
    Core.decide H (toCore prev) old (toCore next) proof =
      (match r with
       | .oldTooLarge => .oldSizeInvalid | .stale => .stale | .rootMismatch => .rootMismatch
       | .invalidProof => .invalidProof | _ => .accepted) := by
  unfold Spec.verdict at h
  unfold Core.decide toCore
  simp only
  by_cases h1 : old > next.size
  · simp only [h1, if_true, Option.some.injEq] at h ⊢; subst h; rfl
  simp only [h1, if_false] at h ⊢
  by_cases h2 : old ≠ prev.size
  · rw [if_pos h2] at h ⊢; simp only [Option.some.injEq] at h; subst h; rfl
  rw [if_neg h2] at h ⊢
  have hle : prev.size ≤ next.size := by omega
  by_cases h3 : prev.size = 0 ∧ 0 < next.size
  · simp [h3] at h
  simp only [h3, if_false] at h
  rw [if_neg (by omega)]
  by_cases h4 : next.size = prev.size ∧ next.hash ≠ prev.hash
  · simp only [h4, and_self, if_true, Option.some.injEq, ne_eq, not_false_eq_true] at h ⊢; subst h; rfl
  rw [if_neg h4] at h ⊢
  have hdom : prev.size = next.size ∨ (0 < prev.size ∧ prev.size < next.size) := by omega
  rw [Spec.consistent_eq_verify H _ _ _ _ _ hdom] at h
  by_cases h5 : next.size = 0
  · have hp0 : prev.size = 0 := by omega
    have hroot : next.hash = prev.hash := by
      apply Classical.byContradiction; intro hne; exact h4 ⟨by omega, hne⟩
    rw [if_pos h5]
    simp only [G.verifyConsistency, G.rootFromConsistencyProof, hp0, h5, Nat.lt_irrefl, if_false, if_true] at h
    cases proof with
    | nil => simp [hroot] at h ⊢; subst h; rfl
    | cons x xs => simp at h ⊢; subst h; rfl
  · rw [if_neg h5]
    by_cases hv : G.verifyConsistency H prev.size next.size proof prev.hash next.hash = true
    · simp only [hv, if_true, Option.some.injEq] at h ⊢; subst h; rfl
    · simp only [hv, Bool.false_eq_true, if_false, Option.some.injEq] at h ⊢; subst h; rfl

/-- C09 over the byte-level model, fault-free storage: the answer is the first matching rule (an
    accepting rule can still end in `signFailed` when a configured signer errors, or `storage`
    when the write fails), and the four refusals return the stored checkpoint. -/
theorem C09_first_match (cfg : Cfg) (env : Env) (id : Bytes) (old : Nat) (nextRaw : Bytes) (proof : List Bytes)
    (l : LogInfo) (st : Option Cp.Checkpoint) (r : Spec.Rule)
    (hl : cfg.find id = some l) (hw : env.writeOpsErr = false)
    (hst : storedOf l env.prev = some st)
    (hr : Spec.verdict cfg.H st old ((parse l nextRaw).map (·.1)) proof = some r) :
    ((update cfg env id old nextRaw proof).err = errOf r ∨
      ((r = .firstUse ∨ r = .accepted) ∧
        ((update cfg env id old nextRaw proof).err = .signFailed ∨ (update cfg env id old nextRaw proof).err = .storage))) ∧
    (r.returnsStored = true → ∃ raw, env.prev = .found raw ∧ (update cfg env id old nextRaw proof).ret = some raw) := by
  unfold update
  simp only [hl, hw]
  cases hp : parse l nextRaw with
  | none =>
    simp only [hp, Option.map_none, Spec.verdict, Option.some.injEq] at hr
    subst hr
    simp [hp, errOf, Spec.Rule.returnsStored]
  | some pn =>
    obtain ⟨next, nextNote⟩ := pn
    simp only [hp, Option.map_some] at hr
    have hsas : ∀ ctr, ((signAndSet cfg env l nextNote ctr).err = .none ∨ (signAndSet cfg env l nextNote ctr).err = .signFailed ∨
        (signAndSet cfg env l nextNote ctr).err = .storage) := by
      intro ctr; unfold signAndSet
      repeat' split
      all_goals simp
    cases hprev : env.prev with
    | readErr => simp [storedOf, hprev] at hst
    | notFound =>
      simp only [storedOf, hprev, Option.some.injEq] at hst
      subst hst
      simp only [Spec.verdict] at hr
      split at hr
      · simp only [Option.some.injEq] at hr; subst hr
        simp only [hp, hprev, Bool.false_eq_true, if_false, errOf, Spec.Rule.returnsStored]
        refine ⟨?_, by simp⟩
        rcases hsas { attempt := 1 } with h | h | h
        · exact Or.inl h
        · exact Or.inr ⟨by simp, Or.inl h⟩
        · exact Or.inr ⟨by simp, Or.inr h⟩
      · cases hr
    | found prevRaw =>
      simp only [storedOf, hprev, Option.map_eq_some_iff] at hst
      obtain ⟨⟨prev, pnote⟩, hpp, hst⟩ := hst
      simp only [Option.some.injEq] at hst
      subst hst
      have hcore := C09_core_first_match cfg.H prev next old proof r hr
      simp only [hp, hprev, hpp, Bool.false_eq_true, if_false, hcore]
      cases r with
      | unknownLog | noValidSig | firstUse =>
        simp only [Spec.verdict] at hr
        repeat' split at hr
        all_goals simp at hr
      | oldTooLarge => simp [errOf, Spec.Rule.returnsStored]
      | stale => simp [errOf, Spec.Rule.returnsStored]
      | rootMismatch => simp [errOf, Spec.Rule.returnsStored]
      | invalidProof => simp [errOf, Spec.Rule.returnsStored]
      | accepted =>
        simp only [errOf, Spec.Rule.returnsStored]
        refine ⟨?_, by simp⟩
        rcases hsas { attempt := 1 } with h | h | h
        · exact Or.inl h
        · exact Or.inr ⟨by simp, Or.inl h⟩
        · exact Or.inr ⟨by simp, Or.inr h⟩

/-- an unknown log is refused before anything else is looked at -/
theorem C09_unknown_log (cfg : Cfg) (env : Env) (id : Bytes) (old : Nat) (nextRaw : Bytes) (proof : List Bytes)
    (h : cfg.find id = none) :
    update cfg env id old nextRaw proof = { ret := none, err := .unknownLog } := by
  unfold update; simp [h]

/-- rule order: an old size above the checkpoint size wins over staleness -/
theorem C09_order_old_before_stale (H : Bytes → Bytes → Bytes) (prev next : Cp.Checkpoint) (old : Nat) (proof : List Bytes)
    (h : old > next.size) : Spec.verdict H (some prev) old (some next) proof = some .oldTooLarge := by
  simp [Spec.verdict, h]

/-- rule order: same size, same root, non-empty proof is a bad proof -/
theorem C09_equal_nonempty_proof (H : Bytes → Bytes → Bytes) (prev next : Cp.Checkpoint) (x : Bytes) (xs : List Bytes)
    (hs : next.size = prev.size) (hr : next.hash = prev.hash) :
    Spec.verdict H (some prev) prev.size (some next) (x :: xs) = some .invalidProof := by
  simp [Spec.verdict, hs, hr, Spec.consistent]

/-- the proof rule of the Go code is the recursive RFC 6962 verifier -/
theorem C09_proof_rule_is_rfc6962 (H : Bytes → Bytes → Bytes) (m n : Nat) (p : List Bytes) (r1 r2 : Bytes)
    (hm : 0 < m) (hmn : m < n) :
    G.verifyConsistency H m n p r1 r2 =
      (match M.recRoots H r1 true m n p.reverse with
       | some (o, t) => decide (o = r1) && decide (t = r2)
       | none => false) := by
  rw [← Spec.consistent_eq_verify H m n p r1 r2 (Or.inr ⟨hm, hmn⟩)]
  unfold Spec.consistent
  rw [if_neg (by omega), if_pos ⟨hm, hmn⟩]
  cases M.recRoots H r1 true m n p.reverse with
  | none => rfl
  | some ot => obtain ⟨o, t⟩ := ot; simp

/-- non-vacuity: a concrete request in the claimed domain (stored size 2, submitted size 2, other
    root) is answered by the root-mismatch rule -/
example : Spec.verdict (fun a b => a ++ b) (some ⟨[1], 2, [7]⟩) 2 (some ⟨[1], 2, [8]⟩) [] = some .rootMismatch := by
  decide

end C09

namespace C09
open Core

/-- the fourth check of `Update` ("next.Size < prev.Size", the one refusal that would return no checkpoint after
    one is stored) can never fire: it is shadowed by the two checks before it.  Hence the four refusals that follow a
    stored checkpoint are exactly oldSizeInvalid, stale, rootMismatch and invalidProof, each with the stored
    checkpoint, as the property lists them. -/
theorem C09_smaller_check_unreachable {α : Type} [DecidableEq α] (H : α → α → α) (prev : CP α) (old : Nat) (next : CP α)
    (proof : List α) : Core.decide H prev old next proof ≠ .smallerNil := by
  unfold Core.decide
  by_cases h1 : old > next.size
  · simp [h1]
  · by_cases h2 : old ≠ prev.size
    · simp [h1, h2]
    · have h3 : ¬ next.size < prev.size := by omega
      simp only [h1, h2, h3, if_false]
      repeat' split
      all_goals simp

end C09
