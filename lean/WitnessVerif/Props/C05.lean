import WitnessVerif.Proofs.Linearizable
import WitnessVerif.Proofs.SqlSerial
import WitnessVerif.Generated.Facts
import WitnessVerif.Proofs.Frame
/-
C05 — concurrent updates behave like some sequential order; state never regresses.
The storage protocols are small-step systems (`Lin.stepThread`: snapshot at `WriteOps`, compare-and-set
at `Set`; `stepSql`: a transaction holds the only connection). `dec` is instantiated with the
byte-level model of `Witness.Update`.
-/
namespace C05
open Lin

/-- the decision of one `Update` against the value stored for the log it names -/
def decOf (cfg : Wit.Cfg) : Option Bytes → Wit.Req → Dec Bytes Wit.Out :=
  fun s q =>
    let out := Wit.update cfg { prev := match s with | some b => .found b | none => .notFound } q.logID q.old q.next q.proof
    match out.set, out.err with
    | some v, .none => .write v out
    | _, _ => .refuse out

/-- In-memory store: for any number of concurrent updates of one log and any interleaving of their
    storage calls, the final store and every non-error outcome are those of the same requests
    executed atomically one at a time in the ghost linearisation order; a request that got a storage
    error (it lost the compare-and-set to an overlapping write) is not in that order and had no
    effect. -/
theorem C05_linearizable_inmem (cfg : Wit.Cfg) (reqs : List Wit.Req) (s0 : Option Bytes) (sched : List Nat) :
    let init : Sys Bytes Wit.Out := { store := s0, pcs := reqs.map (fun _ => .idle), lin := [] }
    let fin := runSched (decOf cfg) reqs init sched
    Replays (decOf cfg) reqs s0 fin.lin fin.store ∧
    (∀ i r, fin.pcs[i]? = some (.done (.ok r)) → (i, r) ∈ fin.lin) ∧
    (∀ i, fin.pcs[i]? = some (.done .storageErr) → ∀ r, (i, r) ∈ fin.lin → False) := by
  have h := linearizable (decOf cfg) reqs s0 sched
  exact ⟨h.1, h.2.1, fun i hi r hr => h.2.2 i hi r hr⟩

/-- the atomic step of the linearisation is the sequential witness step on that log's slot -/
theorem C05_spec_is_sequential_step (cfg : Wit.Cfg) (store : Wit.Store) (q : Wit.Req) :
    (specStep (decOf cfg) (store.get q.logID) q).2 = (Wit.step cfg store q).2 ∧
    (specStep (decOf cfg) (store.get q.logID) q).1 = (Wit.step cfg store q).1.get q.logID := by
  have henv : ({ prev := match store.get q.logID with | some b => Wit.Prev.found b | none => .notFound } : Wit.Env) =
      Wit.envOf store q.logID {} := by
    unfold Wit.envOf Wit.prevOf
    cases store.get q.logID <;> rfl
  unfold specStep decOf Wit.step Wit.stepF
  simp only [henv]
  generalize Wit.update cfg (Wit.envOf store q.logID {}) q.logID q.old q.next q.proof = out
  cases hs : out.set with
  | none => simp
  | some v => cases he : out.err <;> simp [Wit.Store.get_set_same]

/-- no stale accept and no lost update: a request is accepted only at a point of the linearisation
    order, and its effect is the state the next request of that order meets (this is what `Replays`
    says); in particular an accepted update is never lost -/
theorem C05_accepted_in_order (cfg : Wit.Cfg) (reqs : List Wit.Req) (s0 : Option Bytes) (sched : List Nat) (i : Nat) (r : Wit.Out)
    (h : (runSched (decOf cfg) reqs { store := s0, pcs := reqs.map (fun _ => .idle), lin := [] } sched).pcs[i]? = some (.done (.ok r))) :
    (i, r) ∈ (runSched (decOf cfg) reqs { store := s0, pcs := reqs.map (fun _ => .idle), lin := [] } sched).lin :=
  (C05_linearizable_inmem cfg reqs s0 sched).2.1 i r h

end C05

namespace C05
open Lin

/-- the production binary opens SQLite with a pool of one connection (regenerated from
    cmd/omniwitness/monolith.go on every run): the premise of `C05_linearizable_sql` -/
theorem C05_pool_is_single : Facts.maxOpenConns = 1 := by decide

/-- SQLite with the single-connection pool: for any number of concurrent updates of one log and any
    interleaving of their storage calls (a `WriteOps` issued while another transaction is open waits),
    the outcomes are those of the requests executed one at a time in the linearisation order, and no
    request fails with a storage error -/
theorem C05_linearizable_sql (cfg : Wit.Cfg) (reqs : List Wit.Req) (s0 : Option Bytes) (sched : List Nat) :
    let init : SqlSys Bytes Wit.Out := { sys := { store := s0, pcs := reqs.map (fun _ => .idle), lin := [] }, owner := none }
    let fin := runSql (decOf cfg) reqs init sched
    Replays (decOf cfg) reqs s0 fin.sys.lin fin.sys.store ∧
    (∀ i r, fin.sys.pcs[i]? = some (.done (.ok r)) → (i, r) ∈ fin.sys.lin) ∧
    (∀ i : Nat, fin.sys.pcs[i]? ≠ some (PC.done (V := Bytes) (R := Wit.Out) Out.storageErr)) :=
  linearizable_sql (decOf cfg) reqs s0 sched

end C05

namespace C05
open Lin

/-- a request of the mixed workload: an update, or a read of the latest checkpoint -/
inductive RW | upd (q : Wit.Req) | read
/-- its result: the update's outcome, or what the read returned -/
inductive RWOut | upd (o : Wit.Out) | read (v : Option Bytes)

/-- reads take part in the protocol as requests that never write: a read returns the value current when it
    opens its read handle (`ReadOps` copies it), and that is its linearisation point -/
def decRW (cfg : Wit.Cfg) : Option Bytes → RW → Dec Bytes RWOut :=
  fun s q =>
    match q with
    | .read => .refuse (.read s)
    | .upd u =>
      match decOf cfg s u with
      | .write v o => .write v (.upd o)
      | .refuse o => .refuse (.upd o)

/-- updates and reads together: for any interleaving, every update outcome and every value a read returned
    are those of the same requests executed atomically in the linearisation order (so no reader sees a
    state that was not current at some point of its own execution, and none sees the size go down unless
    the sequential witness itself would go down — which C01 excludes) -/
theorem C05_linearizable_inmem_with_reads (cfg : Wit.Cfg) (reqs : List RW) (s0 : Option Bytes) (sched : List Nat) :
    let init : Sys Bytes RWOut := { store := s0, pcs := reqs.map (fun _ => .idle), lin := [] }
    let fin := runSched (decRW cfg) reqs init sched
    Replays (decRW cfg) reqs s0 fin.lin fin.store ∧
    (∀ i r, fin.pcs[i]? = some (.done (.ok r)) → (i, r) ∈ fin.lin) ∧
    (∀ i, fin.pcs[i]? = some (.done .storageErr) → ∀ r, (i, r) ∈ fin.lin → False) := by
  have h := linearizable (decRW cfg) reqs s0 sched
  exact ⟨h.1, h.2.1, fun i hi r hr => h.2.2 i hi r hr⟩

/-- a read never fails with a storage conflict and never changes the store -/
theorem C05_read_is_atomic (cfg : Wit.Cfg) (s : Option Bytes) :
    specStep (decRW cfg) s RW.read = (s, RWOut.read s) := rfl

end C05

namespace C05
open Lin Wit

/-- a linearisation of requests that all name the log `id` is a run of the sequential witness over a store
    whose slot for `id` holds the initial value: same outcomes, same final value -/
theorem replays_is_run (cfg : Cfg) (id : Bytes) (reqs : List Req) (hall : ∀ (i : Nat) (q : Req), reqs[i]? = some q → q.logID = id) :
    ∀ (slot : Option Bytes) (lin : List (Nat × Out)) (slot' : Option Bytes),
      Replays (decOf cfg) reqs slot lin slot' → ∀ (s : Store), s.get id = slot →
      (run cfg s (lin.filterMap (fun p => reqs[p.1]?))).2 = lin.map (·.2) ∧
      (run cfg s (lin.filterMap (fun p => reqs[p.1]?))).1.get id = slot' := by
  intro slot lin slot' h
  induction h with
  | nil s0 => intro s hs; simp [run, hs]
  | cons s0 i q r rest s' hq hr _ ih =>
    intro s hs
    have hid := hall i q hq
    have hspec := C05_spec_is_sequential_step cfg s q
    rw [hid, hs] at hspec
    simp only [List.filterMap_cons, hq, List.map_cons]
    have ih' := ih (step cfg s q).1 hspec.2.symm
    simp only [run]
    refine ⟨?_, ih'.2⟩
    rw [ih'.1, ← hr, hspec.1]

end C05
