import WitnessVerif.Model.Witness
/-
C20 — operational counters tell the truth about update outcomes.
`Wit.update` returns the counter increments of one call; the theorems relate them to the verdict,
for every request and every storage behaviour, and sum them over histories.
-/
namespace C20
open Wit

/-- what the counters must do for a verdict, given whether the log is known -/
def expected (known : Bool) (e : Err) : Ctr :=
  { attempt := if known then 1 else 0
    success := if e = .none then 1 else 0
    invalidConsistency := if e = .invalidProof then 1 else 0
    inconsistent := if e = .rootMismatch then 1 else 0 }

theorem signAndSet_ctr (cfg : Cfg) (env : Env) (l : LogInfo) (n : Note.Note) :
    (signAndSet cfg env l n { attempt := 1 }).ctr = expected true (signAndSet cfg env l n { attempt := 1 }).err := by
  unfold signAndSet
  cases cfg.signers n.text with
  | none => simp [expected]
  | some outs =>
    simp only
    cases Note.sign n outs with
    | none => simp [expected]
    | some signed =>
      simp only
      by_cases hp : (parse l signed).isNone = true
      · simp [hp, expected]
      · by_cases hs : env.setErr = true <;> simp [hp, hs, expected]

/-- one call: the four counters move exactly as the verdict says, whatever the request, the stored
    state and the storage faults -/
theorem C20_counters_exact_step (cfg : Cfg) (env : Env) (id : Bytes) (old : Nat) (next : Bytes) (proof : List Bytes) :
    (update cfg env id old next proof).ctr =
      expected (cfg.find id).isSome (update cfg env id old next proof).err := by
  unfold update
  cases hf : cfg.find id with
  | none => simp [expected]
  | some l =>
    simp only [Option.isSome_some]
    cases hp : parse l next with
    | none => simp [expected]
    | some pn =>
      obtain ⟨nx, nn⟩ := pn
      simp only
      by_cases hw : env.writeOpsErr = true
      · simp [hw, expected]
      · simp only [hw, Bool.false_eq_true, if_false]
        cases hprev : env.prev with
        | readErr => simp [expected]
        | notFound => exact signAndSet_ctr cfg env l nn
        | found raw =>
          simp only
          cases hpp : parse l raw with
          | none => simp [expected]
          | some pp =>
            obtain ⟨pv, pn'⟩ := pp
            simp only
            cases hd : Core.decide cfg.H (toCore pv) old (toCore nx) proof <;> simp [expected]
            exact signAndSet_ctr cfg env l nn

/-- nothing else moves: an unknown log moves no counter; bad signature, stale or too-large old size
    and storage errors move only the attempt counter -/
theorem C20_nothing_else_moves (cfg : Cfg) (env : Env) (id : Bytes) (old : Nat) (next : Bytes) (proof : List Bytes) :
    let o := update cfg env id old next proof
    (o.err = .unknownLog → o.ctr = {}) ∧
    ((o.err = .noValidSig ∨ o.err = .stale ∨ o.err = .oldSizeInvalid ∨ o.err = .storage ∨
      o.err = .storedUnparseable ∨ o.err = .signFailed) → (cfg.find id).isSome → o.ctr = { attempt := 1 }) := by
  intro o
  have h := C20_counters_exact_step cfg env id old next proof
  constructor
  · intro he
    have hk : (cfg.find id).isSome = false := by
      cases hf : cfg.find id with
      | none => rfl
      | some l =>
        exfalso
        have : o.ctr.attempt = 1 := by
          show (update cfg env id old next proof).ctr.attempt = 1
          rw [h]; simp [expected, hf]
        revert he this
        show (update cfg env id old next proof).err = .unknownLog → _
        unfold update
        simp only [hf]
        repeat' split
        all_goals first | (intro h1; cases h1) | (unfold signAndSet; repeat' split) <;> (intro h1; cases h1)
    show (update cfg env id old next proof).ctr = {}
    have he2 : (update cfg env id old next proof).err = .unknownLog := he
    rw [h, hk, he2]; simp [expected]
  · intro he hk
    show (update cfg env id old next proof).ctr = _
    rw [h, hk]
    have he' : (update cfg env id old next proof).err = o.err := rfl
    rcases he with e | e | e | e | e | e <;> (rw [he', e]; simp [expected])

/-- sum of counter increments -/
def add (a b : Ctr) : Ctr :=
  ⟨a.attempt + b.attempt, a.success + b.success, a.invalidConsistency + b.invalidConsistency, a.inconsistent + b.inconsistent⟩

def total (outs : List Out) : Ctr := outs.foldl (fun acc o => add acc o.ctr) {}

def count (p : Out → Bool) (outs : List Out) : Nat := (outs.filter p).length

theorem foldl_add_attempt (outs : List Out) (acc : Ctr) (f : Ctr → Nat) (g : Out → Nat)
    (hadd : ∀ a b, f (add a b) = f a + f b) (hg : ∀ o ∈ outs, f o.ctr = g o) :
    f (outs.foldl (fun acc o => add acc o.ctr) acc) = f acc + (outs.map g).sum := by
  induction outs generalizing acc with
  | nil => simp
  | cons o os ih =>
    simp only [List.foldl_cons, List.map_cons, List.sum_cons]
    rw [ih _ (fun o' h' => hg o' (List.mem_cons_of_mem _ h')), hadd, hg o (List.mem_cons_self ..)]
    omega

theorem sum_indicator (outs : List Out) (p : Out → Bool) :
    (outs.map (fun o => if p o then 1 else 0)).sum = count p outs := by
  induction outs with
  | nil => rfl
  | cons o os ih =>
    simp only [List.map_cons, List.sum_cons, count, List.filter_cons] at ih ⊢
    cases p o <;> simp [ih] <;> omega

/-- For every history over several logs, restricted to the requests that named log `id` (which is
    configured): attempts = number of such requests, successes = number accepted,
    invalid-consistency = number answered ErrInvalidProof, inconsistent = number answered
    ErrRootMismatch. -/
theorem C20_counters_exact (cfg : Cfg) (s : Store) (reqs : List Req) (id : Bytes) (hk : (cfg.find id).isSome) :
    let outs := (run cfg s (reqs.filter (fun r => r.logID == id))).2
    total outs =
      { attempt := outs.length
        success := count (fun o => o.err == .none) outs
        invalidConsistency := count (fun o => o.err == .invalidProof) outs
        inconsistent := count (fun o => o.err == .rootMismatch) outs } := by
  intro outs
  have hall : ∀ o ∈ outs, o.ctr = expected true o.err := by
    have : ∀ (rs : List Req) (s : Store), (∀ r ∈ rs, r.logID = id) →
        ∀ o ∈ (run cfg s rs).2, o.ctr = expected true o.err := by
      intro rs
      induction rs with
      | nil => intro s _ o ho; simp [run] at ho
      | cons r rs ih =>
        intro s hr o ho
        simp only [run] at ho
        rcases List.mem_cons.1 ho with h | h
        · subst h
          have := C20_counters_exact_step cfg (envOf s r.logID {}) r.logID r.old r.next r.proof
          rw [hr r (List.mem_cons_self ..), hk] at this
          simp only [step, stepF]
          rw [hr r (List.mem_cons_self ..)]
          split <;> exact this
        · exact ih _ (fun r' h' => hr r' (List.mem_cons_of_mem _ h')) o h
    exact this _ s (fun r hr => by simpa using (List.mem_filter.1 hr).2)
  have e1 := foldl_add_attempt outs {} (·.attempt) (fun _ => 1) (fun a b => rfl)
    (fun o ho => by rw [hall o ho]; simp [expected])
  have e2 := foldl_add_attempt outs {} (·.success) (fun o => if o.err == .none then 1 else 0) (fun a b => rfl)
    (fun o ho => by rw [hall o ho]; simp [expected])
  have e3 := foldl_add_attempt outs {} (·.invalidConsistency) (fun o => if o.err == .invalidProof then 1 else 0) (fun a b => rfl)
    (fun o ho => by rw [hall o ho]; simp [expected])
  have e4 := foldl_add_attempt outs {} (·.inconsistent) (fun o => if o.err == .rootMismatch then 1 else 0) (fun a b => rfl)
    (fun o ho => by rw [hall o ho]; simp [expected])
  rw [sum_indicator] at e2 e3 e4
  simp only [Nat.zero_add] at e1 e2 e3 e4
  have hlen : (List.map (fun _ : Out => 1) outs).sum = outs.length := by
    generalize outs = l
    induction l with
    | nil => rfl
    | cons o os ih => simp only [List.map_cons, List.sum_cons, List.length_cons, ih]; omega
  rw [hlen] at e1
  have ht : total outs = List.foldl (fun acc o => add acc o.ctr) { } outs := rfl
  rw [← ht] at e1 e2 e3 e4
  cases hc : total outs with
  | mk a b c d =>
    rw [hc] at e1 e2 e3 e4
    simp only at e1 e2 e3 e4
    rw [e1, e2, e3, e4]

end C20
