import WitnessVerif.Proofs.Core
/-
C08 — an honest log can always move the witness forward (no self-inflicted wedge).
-/
namespace C08
open Core M G

variable {α : Type} [DecidableEq α]

/-- Completeness of the decision core: if the stored checkpoint commits to the first `m > 0` entries
    of the honest log's leaf list `D` and the submitted one to its first `n ≥ m` entries, the old size
    is the stored size and the proof is the RFC 6962 consistency proof PROOF(m, D[0:n]) (which is
    empty when `m = n`), the update is accepted — for every hasher, every size, every list. -/
theorem C08_honest_progress_core (H : α → α → α) (e : α) (D : List α) (m n : Nat)
    (hm : 0 < m) (hmn : m ≤ n) (hn : n ≤ D.length) :
    Core.decide H ⟨m, mth H e (D.take m)⟩ m ⟨n, mth H e (D.take n)⟩ (rfcProof H e m (D.take n)) = .accepted := by
  have hlen : (D.take n).length = n := by rw [List.length_take]; omega
  have htake : (D.take n).take m = D.take m := by rw [List.take_take, Nat.min_eq_left hmn]
  have hv := verifyConsistency_complete H e m (D.take n) hm (by omega)
  rw [hlen, htake] at hv
  unfold Core.decide
  simp only
  rw [if_neg (by omega), if_neg (by omega), if_neg (by omega)]
  by_cases heq : n = m
  · subst heq
    rw [if_neg (by intro h; exact h.2 rfl), if_neg (by omega), hv]; rfl
  · rw [if_neg (by intro h; exact heq h.1), if_neg (by omega), hv]; rfl

/-- the empty proof is the honest proof for a refresh -/
theorem C08_refresh_proof_empty (H : α → α → α) (e : α) (D : List α) : rfcProof H e D.length D = [] := by
  unfold rfcProof; rw [subproofRev.eq_def]; simp

/-- nothing stored: any authenticated checkpoint is accepted (first use) -/
theorem C08_first_use (H : α → α → α) (old : Nat) (next : CP α) (proof : List α) :
    updateCore H none old next proof = .accepted := rfl

/-- KNOWN FINDING F2 (negation witness, proved): once a checkpoint of size 0 is stored, every growth
    step is refused whatever proof accompanies it — `VerifyConsistency(0, n, …)` always errors. The
    behaviour is pinned by TestUpdate "starting from tree size 0 without proof". -/
theorem C08_size0_wedge (H : α → α → α) (r0 : α) (next : CP α) (proof : List α) (hn : 0 < next.size) :
    Core.decide H ⟨0, r0⟩ 0 next proof = .invalidProof := by
  unfold Core.decide
  simp only
  rw [if_neg (by omega), if_neg (by omega), if_neg (by omega), if_neg (by intro h; omega), if_neg (by omega)]
  have : verifyConsistency H 0 next.size proof r0 next.root = false := by
    unfold verifyConsistency rootFromConsistencyProof
    rw [if_neg (by omega), if_neg (by omega)]
    simp
  rw [this]; rfl

/-- hence the property holds in the form: stored size ≠ 0 (or nothing stored) -/
theorem C08_honest_progress_partial (H : α → α → α) (e : α) (D : List α) (stored : Option Nat) (n : Nat)
    (hs : ∀ m, stored = some m → 0 < m ∧ m ≤ n) (hn : n ≤ D.length) :
    updateCore H (stored.map (fun m => ⟨m, mth H e (D.take m)⟩)) (stored.getD 0) ⟨n, mth H e (D.take n)⟩
      (match stored with | some m => rfcProof H e m (D.take n) | none => []) = .accepted := by
  cases stored with
  | none => rfl
  | some m =>
    obtain ⟨h1, h2⟩ := hs m rfl
    exact C08_honest_progress_core H e D m n h1 h2 hn

end C08
