import WitnessVerif.Proofs.Core
import WitnessVerif.Proofs.HonestSign
import WitnessVerif.Props.C04
/-
C08 — an honest log can always move the witness forward (no self-inflicted wedge).
-/
namespace C08
open Core M G

variable {α : Type} [DecidableEq α]

/-- Completeness of the decision core: if the stored checkpoint commits to the first `m > 0` entries
    of the honest log's leaf list `D` and the submitted one to its first `n ≥ m` entries, the old size
    is the stored size and the proof is the RFC 6962 consistency proof PROOF(m, D[0:n]) (which is
    empty when `m = n`), the update is accepted — for every hasher, every size, every list. -/
theorem C08_honest_progress_core (H : α → α → α) (e : α) (D : List α) (m n : Nat)
    (hm : 0 < m) (hmn : m ≤ n) (hn : n ≤ D.length) :
    Core.decide H ⟨m, mth H e (D.take m)⟩ m ⟨n, mth H e (D.take n)⟩ (rfcProof H e m (D.take n)) = .accepted := by
  have hlen : (D.take n).length = n := by rw [List.length_take]; omega
  have htake : (D.take n).take m = D.take m := by rw [List.take_take, Nat.min_eq_left hmn]
  have hv := verifyConsistency_complete H e m (D.take n) hm (by omega)
  rw [hlen, htake] at hv
  unfold Core.decide
  simp only
  rw [if_neg (by omega), if_neg (by omega), if_neg (by omega)]
  by_cases heq : n = m
  · subst heq
    rw [if_neg (by intro h; exact h.2 rfl), if_neg (by omega), hv]; rfl
  · rw [if_neg (by intro h; exact heq h.1), if_neg (by omega), hv]; rfl

/-- the empty proof is the honest proof for a refresh -/
theorem C08_refresh_proof_empty (H : α → α → α) (e : α) (D : List α) : rfcProof H e D.length D = [] := by
  unfold rfcProof; rw [subproofRev.eq_def]; simp

/-- nothing stored: any authenticated checkpoint is accepted (first use) -/
theorem C08_first_use (H : α → α → α) (old : Nat) (next : CP α) (proof : List α) :
    updateCore H none old next proof = .accepted := rfl

/-- KNOWN FINDING F2 (negation witness, proved): once a checkpoint of size 0 is stored, every growth
    step is refused whatever proof accompanies it — `VerifyConsistency(0, n, …)` always errors. The
    behaviour is pinned by TestUpdate "starting from tree size 0 without proof". -/
theorem C08_size0_wedge (H : α → α → α) (r0 : α) (next : CP α) (proof : List α) (hn : 0 < next.size) :
    Core.decide H ⟨0, r0⟩ 0 next proof = .invalidProof := by
  unfold Core.decide
  simp only
  rw [if_neg (by omega), if_neg (by omega), if_neg (by omega), if_neg (by intro h; omega), if_neg (by omega)]
  have : verifyConsistency H 0 next.size proof r0 next.root = false := by
    unfold verifyConsistency rootFromConsistencyProof
    rw [if_neg (by omega), if_neg (by omega)]
    simp
  rw [this]; rfl

/-- hence the property holds in the form: stored size ≠ 0 (or nothing stored) -/
theorem C08_honest_progress_partial (H : α → α → α) (e : α) (D : List α) (stored : Option Nat) (n : Nat)
    (hs : ∀ m, stored = some m → 0 < m ∧ m ≤ n) (hn : n ≤ D.length) :
    updateCore H (stored.map (fun m => ⟨m, mth H e (D.take m)⟩)) (stored.getD 0) ⟨n, mth H e (D.take n)⟩
      (match stored with | some m => rfcProof H e m (D.take n) | none => []) = .accepted := by
  cases stored with
  | none => rfl
  | some m =>
    obtain ⟨h1, h2⟩ := hs m rfl
    exact C08_honest_progress_core H e D m n h1 h2 hn

end C08

namespace C08
open Wit

/-- every stored checkpoint parses under its log's key and origin -/
def StoreParses (cfg : Cfg) (s : Store) : Prop :=
  ∀ id l raw, cfg.find id = some l → s.get id = some raw → (parse l raw).isSome

/-- "nothing the witness has stored can make its own next verification fail", part 1: whatever is
    submitted, under whatever storage faults, the store keeps holding only checkpoints that parse under
    the log's key (the read-back check of `signChkpt`) -/
theorem C08_store_parses_step (cfg : Cfg) (s : Store) (r : Req) (f : Faults) (h : StoreParses cfg s) :
    StoreParses cfg (stepF cfg s r f).1 := by
  intro id l raw hfind hget
  by_cases hid : id = r.logID
  · subst hid
    by_cases herr : (stepF cfg s r f).2.err = .none
    · -- accepted: what is stored is what `Set` got, and that was read back
      have hacc : (update cfg (envOf s r.logID f) r.logID r.old r.next r.proof).err = .none := by
        unfold stepF at herr; simp only at herr; split at herr <;> exact herr
      obtain ⟨l', _, _, _, signed, hfind', _, _, _, hps, _, hset⟩ := C04.C04_result cfg _ r.logID r.old r.next r.proof hacc
      rw [hfind] at hfind'; cases hfind'
      have hst : (stepF cfg s r f).1 = s.set r.logID signed := by
        unfold stepF; simp only [hset, hacc]
      rw [hst, Store.get_set_same] at hget
      cases hget; exact hps
    · rw [stepF_refused_store cfg s r f herr] at hget
      exact h _ l raw hfind hget
  · rw [stepF_other_log cfg s r f id hid] at hget
    exact h id l raw hfind hget

theorem C08_store_parses_run (cfg : Cfg) : ∀ (reqs : List Req) (s : Store), StoreParses cfg s →
    StoreParses cfg (run cfg s reqs).1 := by
  intro reqs
  induction reqs with
  | nil => intro s h; exact h
  | cons r rs ih =>
    intro s h
    simp only [run]
    exact ih _ (C08_store_parses_step cfg s r {} h)

/-- part 2, at byte level: an honest checkpoint — it authenticates under the log's key and origin and
    bears just the log's own signature line — is accepted whenever the decision core accepts its
    (size, root) against the stored (size, root), storage and signers work, and the witness's signers have
    well-formed names (valid, no control characters), non-empty signatures, 32-bit key hashes, keys other
    than the log's, and are at most 99.  In particular the read-back check cannot fail on it. -/
theorem C08_honest_accepted_bytes (cfg : Cfg) (env : Env) (id : Bytes) (l : LogInfo)
    (nextRaw : Bytes) (next : Cp.Checkpoint) (nn : Note.Note) (s : Note.Sig) (outs : List Note.SignerOut)
    (old : Nat) (proof : List Bytes)
    (hfind : cfg.find id = some l)
    (hparse : parse l nextRaw = some (next, nn)) (hs1 : nn.sigs = [s]) (hu : nn.unverified = [])
    (hraw : nextRaw = nn.text ++ [B.nl] ++ Note.sigLine s.name s.b64)
    (hw : env.writeOpsErr = false) (hset : env.setErr = false)
    (hsg : cfg.signers nn.text = some outs)
    (hval : ∀ o ∈ outs, Note.isValidName o.name = true) (hsig : ∀ o ∈ outs, o.sig ≠ [] ∧ o.hash < 2 ^ 32)
    (hchars : ∀ o ∈ outs, Utf8.noteCharsOK o.name = true)
    (hdiff : ∀ o ∈ outs, ¬ (l.verifier.name = o.name ∧ l.verifier.hash = o.hash))
    (hcount : outs.length + 1 ≤ 100)
    (hprev : env.prev = .notFound ∨ ∃ raw prev pn, env.prev = .found raw ∧ parse l raw = some (prev, pn) ∧
        Core.decide cfg.H (toCore prev) old (toCore next) proof = .accepted) :
    (update cfg env id old nextRaw proof).err = .none := by
  obtain ⟨hopen, ⟨s', hs', hsh, hsn⟩, hun, horigin⟩ := parse_spec l nextRaw next nn hparse
  rw [hs1] at hs'
  simp only [List.mem_cons, List.not_mem_nil, or_false] at hs'
  subst hs'
  obtain ⟨hok, _, _⟩ := Note.open_spec nextRaw [l.verifier] nn hopen
  have hsok := Note.open_sigok nextRaw [l.verifier] nn hopen s' (by rw [hs1]; simp)
  have hdiff' : ∀ o ∈ outs, ¬ (o.name = s'.name ∧ o.hash = s'.hash) := by
    intro o ho hc
    exact hdiff o ho ⟨by rw [← hsn, hc.1], by rw [← hsh, hc.2]⟩
  have hsign := Note.sign_honest nn s' outs hs1 hu hok hsok hval hdiff'
  obtain ⟨n', hopen', htext', hsigs'⟩ :=
    Note.open_sign_honest l.verifier nextRaw nn s' outs hopen hs1 hu hraw hval hsig hchars hdiff hcount
  have hsigned : nn.text ++ [B.nl] ++ Note.sigLine s'.name s'.b64 ++ Note.newLinesOf outs = nextRaw ++ Note.newLinesOf outs := by
    rw [hraw]
  rw [hsigned] at hsign
  -- the read-back parse succeeds
  have hps : (parse l (nextRaw ++ Note.newLinesOf outs)).isSome = true := by
    unfold parse Cp.parseCheckpoint
    rw [hopen']
    simp only
    have hany : n'.sigs.any (fun x => x.hash == l.verifier.hash && x.name == l.verifier.name) = true := by
      rw [hsigs']; simp [hsh, hsn]
    rw [if_pos hany, htext', hun]
    simp only
    have : (next.origin != l.origin) = false := by simp [horigin]
    rw [this]; rfl
  have hss : (signAndSet cfg env l nn { attempt := 1 }).err = .none := by
    unfold signAndSet
    rw [hsg]
    simp only [hsign]
    have : (parse l (nextRaw ++ Note.newLinesOf outs)).isNone = false := by
      cases hq : parse l (nextRaw ++ Note.newLinesOf outs) with
      | none => rw [hq] at hps; cases hps
      | some _ => rfl
    simp [this, hset]
  unfold update
  simp only [hfind, hparse, hw, Bool.false_eq_true, if_false]
  rcases hprev with hnf | ⟨raw, prev, pn, hfound, hpp, hdec⟩
  · rw [hnf]; exact hss
  · rw [hfound]; simp only [hpp, hdec]; exact hss

/-- the full honest step from a stored checkpoint: sizes `0 < m ≤ n` of the honest log's leaf list `D`,
    old size = stored size, the RFC 6962 proof — accepted at byte level -/
theorem C08_honest_progress_bytes (cfg : Cfg) (env : Env) (id : Bytes) (l : LogInfo)
    (nextRaw : Bytes) (next : Cp.Checkpoint) (nn : Note.Note) (s : Note.Sig) (outs : List Note.SignerOut)
    (e : Bytes) (D : List Bytes) (m : Nat) (raw : Bytes) (prev : Cp.Checkpoint) (pn : Note.Note)
    (hfind : cfg.find id = some l)
    (hparse : parse l nextRaw = some (next, nn)) (hs1 : nn.sigs = [s]) (hu : nn.unverified = [])
    (hraw : nextRaw = nn.text ++ [B.nl] ++ Note.sigLine s.name s.b64)
    (hw : env.writeOpsErr = false) (hset : env.setErr = false)
    (hsg : cfg.signers nn.text = some outs)
    (hval : ∀ o ∈ outs, Note.isValidName o.name = true) (hsig : ∀ o ∈ outs, o.sig ≠ [] ∧ o.hash < 2 ^ 32)
    (hchars : ∀ o ∈ outs, Utf8.noteCharsOK o.name = true)
    (hdiff : ∀ o ∈ outs, ¬ (l.verifier.name = o.name ∧ l.verifier.hash = o.hash))
    (hcount : outs.length + 1 ≤ 100)
    (hstored : env.prev = .found raw) (hpp : parse l raw = some (prev, pn))
    (hm : 0 < m) (hmn : m ≤ next.size) (hn : next.size ≤ D.length)
    (hprevcp : prev.size = m ∧ prev.hash = M.mth cfg.H e (D.take m))
    (hnextcp : next.hash = M.mth cfg.H e (D.take next.size)) :
    (update cfg env id m nextRaw (M.rfcProof cfg.H e m (D.take next.size))).err = .none := by
  apply C08_honest_accepted_bytes cfg env id l nextRaw next nn s outs m _ hfind hparse hs1 hu hraw hw hset hsg
    hval hsig hchars hdiff hcount
  right
  refine ⟨raw, prev, pn, hstored, hpp, ?_⟩
  have := C08_honest_progress_core cfg.H e D m next.size hm hmn hn
  unfold toCore
  rw [hprevcp.1, hprevcp.2, hnextcp]
  exact this

end C08
