import WitnessVerif.Generated.ShippedConfig
import WitnessVerif.Generated.FeederNames
/-
C17 — the shipped log configuration loads and is coherent.
`Generated.logsYaml` / `Generated.logsTestYaml` are regenerated from the YAML files of /repo's working
tree on every run, `Facts.feederNames` from `feederByName`; the theorems below are therefore re-checked
(by kernel evaluation, SHA-256 included) against what is shipped now.
-/
namespace C17

/-- every entry of omniwitness/logs.yaml has a public key that yields a verifier (type byte known,
    declared key hash = computed key hash), a known feeder type, a URL its feeder can start from, and
    no two entries share an ID -/
theorem C17_shipped_config_coherent : Cfg.coherent Facts.feederNames Generated.logsYaml = true := by
  decide +kernel

theorem C17_test_config_coherent : Cfg.coherent Facts.feederNames Generated.logsTestYaml = true := by
  decide +kernel

/-- the witness map (`AsLogMap`) and the feeder/bastion/distributor list (`config.NewLog` per entry)
    describe the same logs under the same IDs, for every configuration that loads -/
theorem C17_same_logs (es : List Cfg.Entry) (m : List (Bytes × Cfg.Entry × Cfg.VerifierId))
    (h : Cfg.asLogMap es = some m) :
    m.map (·.1) = es.map (fun e => Cp.logID e.origin) ∧
    ∀ e ∈ es, ∃ v, Cfg.newLog e = some (Cp.logID e.origin, v) := by
  induction es generalizing m with
  | nil => simp [Cfg.asLogMap] at h; subst h; simp
  | cons e rest ih =>
    simp only [Cfg.asLogMap] at h
    cases hr : Cfg.asLogMap rest with
    | none => simp [hr] at h
    | some m' =>
      cases hv : Cfg.newVerifier e.publicKey with
      | none => simp [hr, hv] at h
      | some v =>
        simp only [hr, hv] at h
        split at h
        · cases h
        · simp only [Option.some.injEq] at h
          subst h
          obtain ⟨ih1, ih2⟩ := ih m' hr
          refine ⟨by simp [ih1], ?_⟩
          intro e' he'
          rcases List.mem_cons.1 he' with h1 | h1
          · subst h1; exact ⟨v, by simp [Cfg.newLog, hv]⟩
          · exact ih2 e' h1

/-- start-up refuses a configuration in which two logs would share an ID -/
theorem C17_duplicate_ids_refused (e1 e2 : Cfg.Entry) (rest : List Cfg.Entry)
    (h : Cp.logID e1.origin = Cp.logID e2.origin) :
    Cfg.asLogMap (e1 :: e2 :: rest) = none := by
  simp only [Cfg.asLogMap]
  cases hr : Cfg.asLogMap rest with
  | none => simp
  | some m =>
    cases hv2 : Cfg.newVerifier e2.publicKey with
    | none => simp
    | some v2 =>
      simp only
      by_cases hd : (m.any fun x => x.fst == Cp.logID e2.origin) = true
      · simp [hd]
      · simp only [hd, Bool.false_eq_true, if_false]
        cases hv1 : Cfg.newVerifier e1.publicKey with
        | none => rfl
        | some v1 => simp [h]

end C17
