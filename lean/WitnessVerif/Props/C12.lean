import WitnessVerif.Proofs.Frame
import WitnessVerif.Model.Config
import WitnessVerif.Model.Bastion
import WitnessVerif.Model.Distributor
import WitnessVerif.Model.HttpApi
/-
C12 — logs are isolated and every component agrees on a log's identity.
-/
namespace C12
open Wit

/-- a step names one log: every other log's slot is untouched, whatever the request and the faults -/
theorem C12_step_frame (cfg : Cfg) (s : Store) (r : Req) (f : Faults) (id' : Bytes) (h : id' ≠ r.logID) :
    (stepF cfg s r f).1.get id' = s.get id' := stepF_other_log cfg s r f id' h

/-- the outcome of a step and the new content of the slot it names depend only on that slot -/
theorem step_congr (cfg : Cfg) (s s' : Store) (r : Req) (h : s.get r.logID = s'.get r.logID) :
    (step cfg s r).2 = (step cfg s' r).2 ∧ (step cfg s r).1.get r.logID = (step cfg s' r).1.get r.logID := by
  have henv : envOf s r.logID {} = envOf s' r.logID {} := by
    unfold envOf prevOf; simp [h]
  unfold step stepF
  simp only [henv]
  generalize update cfg (envOf s' r.logID {}) r.logID r.old r.next r.proof = out
  cases hs : out.set with
  | none => simp [h]
  | some v => cases he : out.err <;> simp [h, Store.get_set_same]

/-- the outcomes of the requests that name `id`, in order, when the whole history runs -/
def outsFor (cfg : Cfg) (id : Bytes) : Store → List Req → List Out
  | _, [] => []
  | s, r :: rs =>
    let so := step cfg s r
    if r.logID == id then so.2 :: outsFor cfg id so.1 rs else outsFor cfg id so.1 rs

/-- Interleaving the histories of several logs leaves each log in exactly the state — and gives each of
    its requests exactly the outcome — it reaches when its own history runs alone: for every history,
    every log, and any two starting stores that agree on that log. -/
theorem C12_interleave (cfg : Cfg) (id : Bytes) (reqs : List Req) :
    ∀ s1 s2 : Store, s1.get id = s2.get id →
      (run cfg s1 reqs).1.get id = (run cfg s2 (reqs.filter (fun r => r.logID == id))).1.get id ∧
      outsFor cfg id s1 reqs = (run cfg s2 (reqs.filter (fun r => r.logID == id))).2 := by
  induction reqs with
  | nil => intro s1 s2 h; simp [run, outsFor, h]
  | cons r rs ih =>
    intro s1 s2 h
    by_cases hr : r.logID = id
    · have hf : (r :: rs).filter (fun r => r.logID == id) = r :: rs.filter (fun r => r.logID == id) := by
        simp [List.filter_cons, hr]
      rw [hf]
      have hc := step_congr cfg s1 s2 r (by rw [hr]; exact h)
      have ih' := ih (step cfg s1 r).1 (step cfg s2 r).1 (by rw [← hr]; exact hc.2)
      simp only [run, outsFor]
      refine ⟨ih'.1, ?_⟩
      simp only [beq_iff_eq, hr, if_true]
      rw [hc.1, ih'.2]
    · have hf : (r :: rs).filter (fun r => r.logID == id) = rs.filter (fun r => r.logID == id) := by
        simp [List.filter_cons, hr]
      rw [hf]
      have hs : (step cfg s1 r).1.get id = s2.get id := by
        rw [← h]; exact stepF_other_log cfg s1 r {} id (fun h' => hr h'.symm)
      have ih' := ih (step cfg s1 r).1 s2 hs
      simp only [run, outsFor]
      refine ⟨ih'.1, ?_⟩
      have : (r.logID == id) = false := by simp [hr]
      simp only [this, Bool.false_eq_true, if_false]
      exact ih'.2

/-- a checkpoint is never stored under another ID than the one it authenticated for: what a step
    stores under `r.logID` passed `parse` under the verifier and origin configured for `r.logID` -/
theorem C12_no_cross_filing (cfg : Cfg) (s : Store) (r : Req) (f : Faults) (h : (stepF cfg s r f).2.err = .none) :
    ∃ l, cfg.find r.logID = some l ∧ (parse l r.next).isSome := by
  have hout : (stepF cfg s r f).2 = update cfg (envOf s r.logID f) r.logID r.old r.next r.proof := by
    unfold stepF; simp only; split <;> rfl
  rw [hout] at h
  cases hf : cfg.find r.logID with
  | none => unfold update at h; simp [hf] at h
  | some l =>
    refine ⟨l, rfl, ?_⟩
    cases hp : parse l r.next with
    | none => unfold update at h; simp [hf, hp] at h
    | some _ => rfl

/-- one ID function: the witness map key (`AsLogMap`), `config.NewLog(...).ID` (feeders, bastion
    endpoint, distributor) and the bastion's lookup from the first line of a submitted checkpoint are all
    `Cp.logID origin` = hex(sha256("o:" ‖ origin)) -/
theorem C12_id_agreement (es : List Cfg.Entry) (m : List (Bytes × Cfg.Entry × Cfg.VerifierId)) (h : Cfg.asLogMap es = some m) :
    (∀ x ∈ m, x.1 = Cp.logID x.2.1.origin) ∧
    (∀ e ∈ es, ∀ id v, Cfg.newLog e = some (id, v) → id = Cp.logID e.origin) := by
  constructor
  · induction es generalizing m with
    | nil => simp [Cfg.asLogMap] at h; subst h; simp
    | cons e rest ih =>
      simp only [Cfg.asLogMap] at h
      cases hr : Cfg.asLogMap rest with
      | none => simp [hr] at h
      | some m' =>
        cases hv : Cfg.newVerifier e.publicKey with
        | none => simp [hr, hv] at h
        | some v =>
          simp only [hr, hv] at h
          split at h
          · cases h
          · simp only [Option.some.injEq] at h
            subst h
            intro x hx
            rcases List.mem_cons.1 hx with h1 | h1
            · subst h1; rfl
            · exact ih m' hr x h1
  · intro e _ id v hn
    unfold Cfg.newLog at hn
    cases hv : Cfg.newVerifier e.publicKey with
    | none => simp [hv] at hn
    | some v' => simp [hv] at hn; exact hn.1.symm

/-- the distributor's path and the HTTP route carry that same ID, and the route admits it -/
theorem C12_id_on_the_wire (origin witName : Bytes) :
    Dist.putPath (Cp.logID origin) witName =
      B.ofString "/distributor/v0/logs/" ++ Cp.logID origin ++ B.ofString "/byWitness/" ++ Dist.pathEscape witName ++ B.ofString "/checkpoint" := rfl

/-- two configured logs that would share an ID are refused at start-up -/
theorem C12_duplicates_refused (es : List Cfg.Entry) (m : List (Bytes × Cfg.Entry × Cfg.VerifierId))
    (h : Cfg.asLogMap es = some m) : (m.map (·.1)).Nodup := by
  induction es generalizing m with
  | nil => simp [Cfg.asLogMap] at h; subst h; simp
  | cons e rest ih =>
    simp only [Cfg.asLogMap] at h
    cases hr : Cfg.asLogMap rest with
    | none => simp [hr] at h
    | some m' =>
      cases hv : Cfg.newVerifier e.publicKey with
      | none => simp [hr, hv] at h
      | some v =>
        simp only [hr, hv] at h
        split at h
        · cases h
        · rename_i hany
          simp only [Option.some.injEq] at h
          subst h
          simp only [List.map_cons, List.nodup_cons]
          refine ⟨?_, ih m' hr⟩
          intro hmem
          apply hany
          simp only [List.any_eq_true, beq_iff_eq]
          obtain ⟨x, hx, hxe⟩ := List.mem_map.1 hmem
          exact ⟨x, hx, hxe⟩

end C12
