import WitnessVerif.Model.Bastion
import WitnessVerif.Props.C04
import WitnessVerif.Generated.Facts
import WitnessVerif.Proofs.Frame
import WitnessVerif.Proofs.BastionRun
/-
C10 — the bastion add-checkpoint endpoint speaks the tlog-witness protocol.
Theorems over `Bastion.serve` (the model of `ServeHTTP` + `handleUpdate` with the model of the real
witness behind it).
-/
namespace C10
open Bastion Wit

/-- a request over the configured rate gets 429 and is not processed: `Update` is not invoked -/
theorem C10_rate_limited (w : Cfg) (h : HCfg) (store : Store) (body : Bytes) :
    serve w h store false body = ({ status := 429 }, none) := by
  unfold serve; simp

/-- a malformed body gets 400 and `Update` is not invoked -/
theorem C10_malformed_400 (w : Cfg) (h : HCfg) (store : Store) (body : Bytes) (hp : parseBody body = none) :
    serve w h store true body = ({ status := 400 }, none) := by
  unfold serve; simp [hp]

/-- an origin the endpoint does not know gets 404 and `Update` is not invoked -/
theorem C10_unknown_origin_404 (w : Cfg) (h : HCfg) (store : Store) (body : Bytes) (old : Nat) (proof : List Bytes)
    (cp first rest : Bytes) (hp : parseBody body = some (old, proof, cp)) (hc : B.cut B.nl cp = some (first, rest))
    (hu : h.logs.find? (fun l => l.1 == Cp.logID first) = none) :
    serve w h store true body = ({ status := 404 }, none) := by
  unfold serve; simp [hp, hc, hu]

/-- the answer is a function of the witness's verdict: no valid log signature 403 (whatever else),
    unknown log 404; when the witness returned its stored checkpoint and that verifies under the
    witness key: old size above the checkpoint size 400, stale 409 with `text/x.tlog.size` and the
    stored size, same size different root 409, bad proof 422 -/
theorem C10_status_table (origin : Bytes) (witV : Note.Verifier) (out : Out) :
    (out.err = .noValidSig → handleUpdate origin witV out = { status := 403 }) ∧
    (out.err = .unknownLog → handleUpdate origin witV out = { status := 404 }) ∧
    (∀ trusted tcp n, out.ret = some trusted → Cp.parseCheckpoint trusted origin witV [] = some (tcp, n) →
      (out.err = .oldSizeInvalid → handleUpdate origin witV out = { status := 400 }) ∧
      (out.err = .stale → handleUpdate origin witV out =
          { status := 409, ctype := B.ofString "text/x.tlog.size", body := Dec.print tcp.size ++ [B.nl] }) ∧
      (out.err = .rootMismatch → handleUpdate origin witV out = { status := 409 }) ∧
      (out.err = .invalidProof → handleUpdate origin witV out = { status := 422 })) := by
  refine ⟨fun h => by simp [handleUpdate, h], fun h => by simp [handleUpdate, h], ?_⟩
  intro trusted tcp n hret hparse
  refine ⟨?_, ?_, ?_, ?_⟩ <;> intro h <;> simp [handleUpdate, h, hret, hparse]

/-- 200 only when the witness accepted; the body is then the cosignature line of the returned note
    that verifies under the configured witness key -/
theorem C10_200_only_if_accepted (origin : Bytes) (witV : Note.Verifier) (out : Out)
    (h : (handleUpdate origin witV out).status = 200) :
    out.err = .none ∧ ∃ trusted tcp n s rest, out.ret = some trusted ∧
      Cp.parseCheckpoint trusted origin witV [] = some (tcp, n) ∧ n.sigs = s :: rest ∧
      (handleUpdate origin witV out).body = Note.sigPrefix ++ s.name ++ [B.sp] ++ s.b64 ++ [B.nl] := by
  unfold handleUpdate at h ⊢
  split at h
  · simp at h
  split at h
  · simp at h
  split at h
  · simp at h
  · rename_i trusted hret
    split at h
    · simp at h
    · rename_i tcp n hparse
      split at h <;> try (simp at h)
      rename_i herr
      split at h
      · rename_i s rest hs
        refine ⟨herr, trusted, tcp, n, s, rest, hret, hparse, hs, ?_⟩
        simp [hret, hparse, herr, hs]
      · simp at h

/-- and when the endpoint answers 200 the witness state now holds the returned checkpoint -/
theorem C10_200_means_stored (w : Cfg) (h : HCfg) (store : Store) (body : Bytes) (out : Out)
    (hs : serve w h store true body = (r, some out)) (h200 : r.status = 200) :
    out.err = .none := by
  unfold serve at hs
  simp only [Bool.not_true, Bool.false_eq_true, if_false] at hs
  split at hs
  · simp at hs
  · split at hs
    · simp at hs
    · split at hs
      · simp at hs
      · simp only [Prod.mk.injEq, Option.some.injEq] at hs
        obtain ⟨h1, h2⟩ := hs
        subst h2
        rw [← h1] at h200
        exact (C10_200_only_if_accepted _ _ _ h200).1

end C10

namespace C10
open Wit Bastion

/-- End to end at byte level: when the endpoint answers 200, the request body parsed to
    `(old, proof, cp)`, the submitted checkpoint is `text ++ "\n" ++ sigs`, and the response body is one
    signature line `— name b64\n` whose signature the endpoint's witness verifier accepts over exactly
    that submitted text (not over whatever else the witness may hold). -/
theorem C10_200_body_cosigns_submitted (w : Cfg) (h : HCfg) (store : Store) (body : Bytes) (r : Resp) (out : Out)
    (hs : serve w h store true body = (r, some out)) (h200 : r.status = 200) :
    ∃ old proof cp text sigs s, parseBody body = some (old, proof, cp) ∧ cp = text ++ B.nl :: sigs ∧
      r.body = Note.sigPrefix ++ s.name ++ [B.sp] ++ s.b64 ++ [B.nl] ∧
      Note.Verified [h.witV] text s := by
  unfold serve at hs
  simp only [Bool.not_true, Bool.false_eq_true, if_false] at hs
  split at hs
  · simp at hs
  · rename_i old proof cp hpb
    split at hs
    · simp at hs
    · rename_i first rest hcut
      split at hs
      · simp at hs
      · rename_i lid origin hfind
        simp only [Prod.mk.injEq, Option.some.injEq] at hs
        obtain ⟨h1, h2⟩ := hs
        subst h2
        rw [← h1] at h200
        obtain ⟨herr, trusted, tcp, n, s, rest', hret, hparse, hsigs, hbody⟩ :=
          C10_200_only_if_accepted origin h.witV _ h200
        -- what the witness returned is text ++ "\n" ++ sigs' for the text of the submitted checkpoint
        obtain ⟨text, sigs, sigs', signed, hcp, hret', hsigned, hopenText⟩ :=
          C04.C04_text_identical w _ _ old cp proof herr
        rw [hret] at hret'
        simp only [Option.some.injEq] at hret'
        subst hret'
        -- the endpoint opened it under the witness verifier
        have hopen : Note.open trusted [h.witV] = .ok n := by
          unfold Cp.parseCheckpoint at hparse
          split at hparse
          · cases hparse
          · rename_i n' ho
            split at hparse
            · split at hparse
              · cases hparse
              · split at hparse
                · cases hparse
                · simp only [Option.some.injEq, Prod.mk.injEq] at hparse
                  rw [← hparse.2]; exact ho
            · cases hparse
        obtain ⟨_, hver, _⟩ := Note.open_spec trusted [h.witV] n hopen
        have ht := hopenText [h.witV] n hopen
        refine ⟨old, proof, cp, text, sigs, s, hpb, hcp, ?_, ?_⟩
        · rw [← h1]; exact hbody
        · have := hver s (by rw [hsigs]; exact List.mem_cons_self ..)
          rw [ht] at this; exact this

end C10

namespace C10
open Wit Bastion

/-- behind the connection wiring (16 KiB `MaxBytesHandler`): a body over the cap is answered 400 and `Update`
    is not invoked, however the body is framed and whatever it contains; up to the cap the endpoint behaves
    exactly as the handler alone (so every theorem above carries over) -/
theorem C10_body_cap (cap : Nat) (w : Cfg) (h : HCfg) (store : Store) (body : Bytes) (hc : cap ≠ 0) :
    (body.length > cap → serveConn cap w h store true body = ({ status := 400 }, none)) ∧
    (body.length ≤ cap → serveConn cap w h store true body = serve w h store true body) := by
  constructor
  · intro hl; unfold serveConn; simp [hc, hl]
  · intro hl; unfold serveConn
    have : ¬ (cap ≠ 0 ∧ body.length > cap) := by omega
    simp [this]

/-- the cap regenerated from connectAndServe is the 16 KiB the protocol documents -/
theorem C10_cap_is_16KiB : Facts.maxBodyBytes = 16 * 1024 := by decide

end C10

namespace C10
open Wit Bastion

/-- The endpoint is only a front: over any session (any sequence of limiter answers and request bodies,
    well-formed or not), `Update` is invoked exactly for the requests that parse, name a configured origin and
    were let through, with exactly the parsed arguments; the witness state moves as the sequential witness
    moves on those requests, and nothing else (a 400, 404 or 429 leaves it where it was). -/
theorem C10_session_is_witness_run (w : Cfg) (h : HCfg) (ps : List (Bool × Bytes)) (s : Store) :
    (session w h s ps).1 = (run w s (ps.filterMap (asked h))).1 ∧
    (∀ p store, (serve w h store p.1 p.2).2 = (asked h p).map (fun r => (step w store r).2)) ∧
    (∀ p store, asked h p = none → (post w h store p).1 = store) :=
  ⟨session_store w h ps s, fun p store => serve_out w h store p, fun p store ha => by unfold post; simp [ha]⟩

/-- a request the limiter turned away is not processed: it asks nothing of the witness -/
theorem C10_rate_limited_not_processed (h : HCfg) (body : Bytes) : asked h (false, body) = none := by
  unfold asked; simp

end C10
