import WitnessVerif.Model.HttpApi
import WitnessVerif.Proofs.Frame
/-
C16 — the read API serves exactly the stored state.
-/
namespace C16
open Api Wit

/-- 200 with exactly the stored bytes iff the witness holds a checkpoint for a well-formed ID;
    404 otherwise; never another log's bytes -/
theorem C16_get (s : Store) (id : Bytes) :
    (match s.get id with
     | some b => routeMatch id = true → Api.getCheckpoint s id = { status := 200, body := b }
     | none => Api.getCheckpoint s id = { status := 404, body := [] }) ∧
    ((Api.getCheckpoint s id).status = 200 → s.get id = some (Api.getCheckpoint s id).body) ∧
    ((Api.getCheckpoint s id).status = 200 ∨ (Api.getCheckpoint s id).status = 404) := by
  unfold Api.getCheckpoint
  cases hg : s.get id with
  | none => by_cases hr : routeMatch id = true <;> simp [hr]
  | some b => by_cases hr : routeMatch id = true <;> simp [hr]

/-- an ID outside the route class never reaches the handler -/
theorem C16_odd_id_404 (s : Store) (id : Bytes) (h : routeMatch id = false) :
    Api.getCheckpoint s id = { status := 404, body := [] } := by
  unfold Api.getCheckpoint; simp [h]

/-- the IDs the repository derives from origins (lower-case hex digests) are admitted by the route -/
theorem C16_hex_ids_routed (bs : Bytes) (hne : bs ≠ []) : routeMatch (B.toHex bs) = true := by
  have hall : ∀ l : Bytes, (B.toHex l).all routeChar = true := by
    intro l
    induction l with
    | nil => rfl
    | cons b r ih =>
      have hd : ∀ n, n < 16 → routeChar (B.hexDigit n) = true := by decide
      have h1 : b.toNat / 16 < 16 := by have := b.toNat_lt; omega
      have h2 : b.toNat % 16 < 16 := by omega
      simp [B.toHex, hd _ h1, hd _ h2, ih]
  unfold routeMatch
  cases bs with
  | nil => exact absurd rfl hne
  | cons b r => simp [B.toHex] at *; simpa [B.toHex] using hall (b :: r)

/-- the bundled client: 404 becomes "does not exist", 200 the bytes -/
theorem C16_client (s : Store) (id : Bytes) :
    client (Api.getCheckpoint s id) =
      (if routeMatch id then (match s.get id with | some b => .bytes b | none => .notExist) else .notExist) := by
  unfold client Api.getCheckpoint
  by_cases hr : routeMatch id = true
  · cases s.get id <;> simp [hr]
  · simp [hr]

/-- a storage read that fails is never served as "no checkpoint" (404, which the client turns into the
    "does not exist" signal feeders act on) nor as a checkpoint: the only answers with status 200 or 404 are the
    fault-free ones -/
theorem C16_read_error_is_not_absence (s : Store) (id : Bytes) (h : routeMatch id = true) :
    (getCheckpointF true s id).status = 500 ∧ client (getCheckpointF true s id) = .err ∧
    getCheckpointF false s id = Api.getCheckpoint s id := by
  unfold getCheckpointF getCheckpointE client httpForCode; simp [h]

/-- whatever status code a failing read carries, the answer is never 200; it is 404 — which the client reports as
    "does not exist" — only when the storage layer itself said NotFound -/
theorem C16_error_codes (c : Code) (s : Store) (id : Bytes) (h : routeMatch id = true) :
    (getCheckpointE (some c) s id).status ≠ 200 ∧ (getCheckpointE (some c) s id).body = [] ∧
    ((getCheckpointE (some c) s id).status = 404 ↔ c = .notFound) ∧
    (client (getCheckpointE (some c) s id) = .notExist ↔ c = .notFound) := by
  unfold getCheckpointE client httpForCode
  cases c <;> simp [h]

/-- a log list answered with 200 is exactly the stored set, whatever the storage did -/
theorem C16_logs_200_exact (f : Bool) (s : Store) (h : (getLogsF f s).1 = 200) :
    (getLogsF f s).2 = getLogs s ∧ f = false := by
  unfold getLogsF at *; cases f <;> simp_all

/-- the log list is exactly the set of logs with an accepted update: a refused submission creates no
    entry (from the frame property of refusals), an accepted one creates exactly its own -/
theorem C16_logs_list_refused (cfg : Cfg) (s : Store) (r : Req) (f : Faults)
    (h : (stepF cfg s r f).2.err ≠ .none) : getLogs (stepF cfg s r f).1 = getLogs s := by
  unfold getLogs; rw [stepF_refused_store cfg s r f h]

theorem C16_logs_list_accepted (cfg : Cfg) (s : Store) (r : Req) (f : Faults)
    (h : (stepF cfg s r f).2.err = .none) :
    ∃ v, getLogs (stepF cfg s r f).1 = r.logID :: (s.filter (fun kv => kv.1 != r.logID)).map (·.1) ∧
      (stepF cfg s r f).2.ret = some v := by
  have hc := update_cases cfg (envOf s r.logID f) r.logID r.old r.next r.proof
  have hout : (stepF cfg s r f).2 = update cfg (envOf s r.logID f) r.logID r.old r.next r.proof := by
    unfold stepF; simp only; split <;> rfl
  rw [hout] at h
  simp only at hc
  rcases hc with ⟨he, v, hret, hset, _⟩ | ⟨he, _⟩
  · refine ⟨v, ?_, by rw [hout]; exact hret⟩
    unfold stepF getLogs Store.ids Store.set
    simp only [hset, he]
    rfl
  · exact absurd h he

end C16

namespace C16
open Api Wit

/-- over any history of update requests the log list is exactly: the logs listed before, plus the logs named by
    an accepted update — a refused submission (first or later) never creates an entry, an accepted one always does -/
theorem C16_logs_list_run (cfg : Cfg) (reqs : List Req) (s : Store) (id : Bytes) :
    id ∈ getLogs (run cfg s reqs).1 ↔
      id ∈ getLogs s ∨ ∃ p ∈ reqs.zip (run cfg s reqs).2, p.1.logID = id ∧ p.2.err = .none := by
  induction reqs generalizing s with
  | nil => simp [run]
  | cons r rs ih =>
    have hrun : run cfg s (r :: rs) = ((run cfg (step cfg s r).1 rs).1, (step cfg s r).2 :: (run cfg (step cfg s r).1 rs).2) := by
      simp [run]
    rw [hrun]
    simp only [List.zip_cons_cons, List.mem_cons, exists_eq_or_imp]
    rw [ih]
    by_cases hacc : (step cfg s r).2.err = .none
    · obtain ⟨v, hids, _⟩ := C16_logs_list_accepted cfg s r {} hacc
      have hmem : id ∈ getLogs (step cfg s r).1 ↔ id = r.logID ∨ id ∈ getLogs s := by
        unfold step; rw [hids]
        simp only [List.mem_cons, List.mem_map, List.mem_filter, getLogs, Store.ids]
        constructor
        · rintro (h | ⟨kv, ⟨hm, _⟩, rfl⟩)
          · exact Or.inl h
          · exact Or.inr ⟨kv, hm, rfl⟩
        · rintro (h | ⟨kv, hm, rfl⟩)
          · exact Or.inl h
          · by_cases hk : kv.1 = r.logID
            · exact Or.inl hk
            · exact Or.inr ⟨kv, ⟨hm, by simpa using hk⟩, rfl⟩
      rw [hmem]
      constructor
      · rintro ((h | h) | h)
        · exact Or.inr (Or.inl ⟨h.symm, hacc⟩)
        · exact Or.inl h
        · exact Or.inr (Or.inr h)
      · rintro (h | ⟨h, _⟩ | h)
        · exact Or.inl (Or.inr h)
        · exact Or.inl (Or.inl h.symm)
        · exact Or.inr h
    · have hst : (step cfg s r).1 = s := stepF_refused_store cfg s r {} hacc
      rw [hst]
      constructor
      · rintro (h | h)
        · exact Or.inl h
        · exact Or.inr (Or.inr h)
      · rintro (h | ⟨_, h⟩ | h)
        · exact Or.inl h
        · exact absurd h hacc
        · exact Or.inr h

end C16
