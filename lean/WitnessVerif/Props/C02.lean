import WitnessVerif.Proofs.Frame
/-
C02 — only checkpoints signed by the named log's key and origin are ever accepted.
-/
namespace C02
open Wit

/-- an unknown log ID is refused outright: no parsing, no storage call, no counter, no bytes -/
theorem C02_unknown_log (cfg : Cfg) (env : Env) (id : Bytes) (old : Nat) (next : Bytes) (proof : List Bytes)
    (h : cfg.find id = none) :
    update cfg env id old next proof = { ret := none, err := .unknownLog, set := none, opened := false, ctr := {} } := by
  unfold update; simp [h]

/-- anything accepted, stored or returned for `id` passed `log.ParseCheckpoint` under the verifier and
    origin configured for `id`: a request whose bytes do not authenticate is refused, storage is not
    even opened, and nothing is returned -/
theorem C02_refuses_unauthentic (cfg : Cfg) (env : Env) (id : Bytes) (l : LogInfo) (old : Nat) (next : Bytes)
    (proof : List Bytes) (hl : cfg.find id = some l) (hp : parse l next = none) :
    update cfg env id old next proof = { ret := none, err := .noValidSig, set := none, opened := false, ctr := { attempt := 1 } } := by
  unfold update; simp [hl, hp]

theorem C02_accept_parses (cfg : Cfg) (env : Env) (id : Bytes) (old : Nat) (next : Bytes) (proof : List Bytes)
    (h : (update cfg env id old next proof).err = .none ∨ (update cfg env id old next proof).set.isSome) :
    ∃ l, cfg.find id = some l ∧ (parse l next).isSome := by
  cases hf : cfg.find id with
  | none => rw [C02_unknown_log cfg env id old next proof hf] at h; simp at h
  | some l =>
    refine ⟨l, rfl, ?_⟩
    cases hp : parse l next with
    | none => rw [C02_refuses_unauthentic cfg env id l old next proof hf hp] at h; simp at h
    | some _ => rfl

/-- `ParseCheckpoint` demands: the note opens under the log's verifier alone, a verified signature
    carries the verifier's name and key hash, the text unmarshals as a checkpoint and its origin
    line is the configured origin -/
theorem C02_parse_demands (l : LogInfo) (raw : Bytes) (cp : Cp.Checkpoint) (n : Note.Note)
    (h : parse l raw = some (cp, n)) :
    Note.open raw [l.verifier] = .ok n ∧
    (n.sigs.any (fun s => s.hash == l.verifier.hash && s.name == l.verifier.name)) = true ∧
    Cp.unmarshal n.text = some cp ∧ cp.origin = l.origin := by
  unfold parse Cp.parseCheckpoint at h
  split at h
  · cases h
  · rename_i n' hopen
    split at h
    · rename_i hany
      split at h
      · cases h
      · rename_i cp' hun
        split at h
        · cases h
        · rename_i horigin
          simp only [Option.some.injEq, Prod.mk.injEq] at h
          obtain ⟨h1, h2⟩ := h
          subst h1 h2
          refine ⟨hopen, hany, hun, ?_⟩
          simpa using horigin
    · cases h

/-- two logs that share a key but not an origin: a checkpoint correctly signed for one origin is
    refused under the other log's ID -/
theorem C02_other_origin_refused (l : LogInfo) (raw : Bytes) (n : Note.Note) (cp : Cp.Checkpoint)
    (hopen : Note.open raw [l.verifier] = .ok n) (hun : Cp.unmarshal n.text = some cp) (hne : cp.origin ≠ l.origin) :
    parse l raw = none := by
  unfold parse Cp.parseCheckpoint
  simp only [hopen, hun]
  split
  · simp [hne]
  · rfl

end C02
