import WitnessVerif.Proofs.Frame
import WitnessVerif.Proofs.BytesRun
/-
C02 — only checkpoints signed by the named log's key and origin are ever accepted.
-/
namespace C02
open Wit

/-- an unknown log ID is refused outright: no parsing, no storage call, no counter, no bytes -/
theorem C02_unknown_log (cfg : Cfg) (env : Env) (id : Bytes) (old : Nat) (next : Bytes) (proof : List Bytes)
    (h : cfg.find id = none) :
    update cfg env id old next proof = { ret := none, err := .unknownLog, set := none, opened := false, ctr := {} } := by
  unfold update; simp [h]

/-- anything accepted, stored or returned for `id` passed `log.ParseCheckpoint` under the verifier and
    origin configured for `id`: a request whose bytes do not authenticate is refused, storage is not
    even opened, and nothing is returned -/
theorem C02_refuses_unauthentic (cfg : Cfg) (env : Env) (id : Bytes) (l : LogInfo) (old : Nat) (next : Bytes)
    (proof : List Bytes) (hl : cfg.find id = some l) (hp : parse l next = none) :
    update cfg env id old next proof = { ret := none, err := .noValidSig, set := none, opened := false, ctr := { attempt := 1 } } := by
  unfold update; simp [hl, hp]

theorem C02_accept_parses (cfg : Cfg) (env : Env) (id : Bytes) (old : Nat) (next : Bytes) (proof : List Bytes)
    (h : (update cfg env id old next proof).err = .none ∨ (update cfg env id old next proof).set.isSome) :
    ∃ l, cfg.find id = some l ∧ (parse l next).isSome := by
  cases hf : cfg.find id with
  | none => rw [C02_unknown_log cfg env id old next proof hf] at h; simp at h
  | some l =>
    refine ⟨l, rfl, ?_⟩
    cases hp : parse l next with
    | none => rw [C02_refuses_unauthentic cfg env id l old next proof hf hp] at h; simp at h
    | some _ => rfl

/-- `ParseCheckpoint` demands: the note opens under the log's verifier alone, a verified signature
    carries the verifier's name and key hash, the text unmarshals as a checkpoint and its origin
    line is the configured origin -/
theorem C02_parse_demands (l : LogInfo) (raw : Bytes) (cp : Cp.Checkpoint) (n : Note.Note)
    (h : parse l raw = some (cp, n)) :
    Note.open raw [l.verifier] = .ok n ∧
    (n.sigs.any (fun s => s.hash == l.verifier.hash && s.name == l.verifier.name)) = true ∧
    Cp.unmarshal n.text = some cp ∧ cp.origin = l.origin := by
  unfold parse Cp.parseCheckpoint at h
  split at h
  · cases h
  · rename_i n' hopen
    split at h
    · rename_i hany
      split at h
      · cases h
      · rename_i cp' hun
        split at h
        · cases h
        · rename_i horigin
          simp only [Option.some.injEq, Prod.mk.injEq] at h
          obtain ⟨h1, h2⟩ := h
          subst h1 h2
          refine ⟨hopen, hany, hun, ?_⟩
          simpa using horigin
    · cases h

/-- two logs that share a key but not an origin: a checkpoint correctly signed for one origin is
    refused under the other log's ID -/
theorem C02_other_origin_refused (l : LogInfo) (raw : Bytes) (n : Note.Note) (cp : Cp.Checkpoint)
    (hopen : Note.open raw [l.verifier] = .ok n) (hun : Cp.unmarshal n.text = some cp) (hne : cp.origin ≠ l.origin) :
    parse l raw = none := by
  unfold parse Cp.parseCheckpoint
  simp only [hopen, hun]
  split
  · simp [hne]
  · rfl

end C02

/-! ### What acceptance means at byte level -/
namespace C02
open Wit

/-- A checkpoint is stored or cosigned for a log ID only if the submitted bytes are
    `text ++ "\n" ++ signature lines` where `text` ends in a newline, the verifier configured for that
    ID accepts a signature (carried by a line with the verifier's name and key hash) over exactly `text`,
    the first line of `text` is the origin configured for that ID, and the note that is stored and
    returned has byte-identical text. -/
theorem C02_accept_authentic (cfg : Cfg) (env : Env) (id : Bytes) (old : Nat) (nextRaw : Bytes) (proof : List Bytes)
    (h : (update cfg env id old nextRaw proof).err = .none) :
    ∃ l text sigs sig rest signed sigs',
      cfg.find id = some l ∧
      nextRaw = text ++ B.nl :: sigs ∧
      l.verifier.verify text sig = true ∧
      text = l.origin ++ B.nl :: rest ∧
      (update cfg env id old nextRaw proof).set = some signed ∧
      (update cfg env id old nextRaw proof).ret = some signed ∧
      signed = text ++ B.nl :: sigs' := by
  obtain ⟨l, next, nn, outs, signed, hfind, hparse, _, hsign, _, hret, hset, _⟩ := update_accepted cfg env id old nextRaw proof h
  obtain ⟨hopen, ⟨s, hs, _, _⟩, hun, horigin⟩ := parse_spec l nextRaw next nn hparse
  obtain ⟨hok, hver, sigs, hmsg⟩ := Note.open_spec nextRaw [l.verifier] nn hopen
  obtain ⟨v, raw, hlk, _, hv⟩ := hver s hs
  obtain ⟨hv', _, _⟩ := Note.lookup_singleton l.verifier v s.name s.hash hlk
  subst hv'
  obtain ⟨rest, hrest⟩ := Cp.unmarshal_origin nn.text next hun
  obtain ⟨sigs', hsigned, _⟩ := Note.sign_split nn outs signed hok hsign
  exact ⟨l, nn.text, sigs, raw.drop 4, rest, signed, sigs', hfind, hmsg, hv, by rw [← horigin]; exact hrest, hset, hret, hsigned⟩

/-- signatures by any other key do not help: if the line carrying the configured verifier's name and
    key hash does not verify, the request is refused — `Open` fails on it whatever else is signed -/
theorem C02_needs_configured_key (l : LogInfo) (raw : Bytes) (h : (parse l raw).isSome) :
    ∃ n s, Note.open raw [l.verifier] = .ok n ∧ s ∈ n.sigs ∧ s.name = l.verifier.name ∧ s.hash = l.verifier.hash ∧
      Note.Verified [l.verifier] n.text s := by
  cases hp : parse l raw with
  | none => simp [hp] at h
  | some pn =>
    obtain ⟨cp, n⟩ := pn
    obtain ⟨hopen, ⟨s, hs, h1, h2⟩, _, _⟩ := parse_spec l raw cp n hp
    obtain ⟨_, hver, _⟩ := Note.open_spec raw [l.verifier] n hopen
    exact ⟨n, s, hopen, hs, h2, h1, hver s hs⟩

end C02
