import WitnessVerif.Model.Distributor
/-
C15 — the distributor pushes only verified, unmodified witnessed checkpoints.
-/
namespace C15
open Dist

/-- a PUT is issued for a log iff the witness's answer opens under the log's key and origin together
    with the witness verifier and carries exactly one signature besides the log's; the body is exactly
    the witness's bytes and the path names the log's ID and the (escaped) witness key name -/
theorem C15_put_iff_valid (l : LogCfg) (witV : Note.Verifier) (wit : Option Bytes) (ans : DistAns) (p : Put) :
    (distributeForLog l witV wit ans).1 = some p ↔
      ∃ raw cp n, wit = some raw ∧ Cp.parseCheckpoint raw l.origin l.verifier [witV] = some (cp, n) ∧
        n.sigs.length - 1 = 1 ∧ p = { path := putPath l.id witV.name, body := raw } := by
  unfold distributeForLog
  cases wit with
  | none => simp
  | some raw =>
    simp only
    cases hp : Cp.parseCheckpoint raw l.origin l.verifier [witV] with
    | none =>
      simp only [Option.some.injEq]
      constructor
      · intro h; cases h
      · rintro ⟨raw', cp', n', h1, h2, _, _⟩
        subst h1; rw [hp] at h2; cases h2
    | some cn =>
      obtain ⟨cp, n⟩ := cn
      simp only
      by_cases hs : n.sigs.length - 1 = 1
      · simp only [hs, ne_eq, not_true_eq_false, if_false]
        constructor
        · intro h
          refine ⟨raw, cp, n, rfl, hp, hs, ?_⟩
          cases ans with
          | status c => split at h <;> (simp only [Option.some.injEq] at h; exact h.symm)
          | transportErr => simp only [Option.some.injEq] at h; exact h.symm
          | methodChanged => simp only [Option.some.injEq] at h; exact h.symm
        · rintro ⟨raw', cp', n', h1, h2, _, h4⟩
          simp only [Option.some.injEq] at h1; subst h1
          subst h4
          cases ans with
          | status c => split <;> rfl
          | transportErr => rfl
          | methodChanged => rfl
      · simp only [ne_eq, hs, not_false_eq_true, if_true]
        constructor
        · intro h; cases h
        · rintro ⟨raw', cp', n', h1, h2, h3, _⟩
          simp only [Option.some.injEq] at h1; subst h1
          rw [hp] at h2
          simp only [Option.some.injEq, Prod.mk.injEq] at h2
          rw [← h2.2] at h3
          exact absurd h3 hs

/-- a log counts as distributed only if a PUT was issued and the service's final answer was 200 (to a
    request that still was a PUT) -/
theorem C15_success_needs_200 (l : LogCfg) (witV : Note.Verifier) (wit : Option Bytes) (ans : DistAns)
    (h : (distributeForLog l witV wit ans).2 = true) :
    ans = .status 200 ∧ (distributeForLog l witV wit ans).1.isSome := by
  unfold distributeForLog at h ⊢
  cases wit with
  | none => simp at h
  | some raw =>
    simp only at h ⊢
    cases hp : Cp.parseCheckpoint raw l.origin l.verifier [witV] with
    | none => simp [hp] at h
    | some cn =>
      simp only [hp] at h ⊢
      split at h
      · simp at h
      · rename_i hs
        simp only [hs, if_false]
        cases ans with
        | status c =>
          by_cases hc : c = 200
          · subst hc; simp
          · split at h
            · rename_i heq; simp only [DistAns.status.injEq] at heq; exact absurd heq hc
            · simp at h
        | transportErr => simp at h
        | methodChanged => simp at h

/-- every configured log is attempted, in order, whatever happened to the others; the reported number
    of failures is the number of logs that were not distributed -/
theorem C15_accounting (logs : List LogCfg) (witV : Note.Verifier) (wit : LogCfg → Option Bytes) (ans : LogCfg → DistAns) :
    (distributeOnce logs witV wit ans).1 = logs.map (fun l => (distributeForLog l witV (wit l) (ans l)).1) ∧
    (distributeOnce logs witV wit ans).2 = (logs.filter (fun l => !(distributeForLog l witV (wit l) (ans l)).2)).length := by
  unfold distributeOnce
  simp only [List.map_map]
  constructor
  · rfl
  · induction logs with
    | nil => rfl
    | cons l ls ih =>
      simp only [List.map_cons, List.filter_cons]
      cases (distributeForLog l witV (wit l) (ans l)).2 <;> simp [ih]

/-- the outcome for one log does not depend on the other logs -/
theorem C15_isolated (l : LogCfg) (before after : List LogCfg) (witV : Note.Verifier) (wit : LogCfg → Option Bytes) (ans : LogCfg → DistAns) :
    (distributeOnce (before ++ l :: after) witV wit ans).1[before.length]? = some (distributeForLog l witV (wit l) (ans l)).1 := by
  rw [(C15_accounting _ witV wit ans).1]
  simp

end C15
