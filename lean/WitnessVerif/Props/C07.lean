import WitnessVerif.Proofs.Frame
/-
C07 — storage failures never cause trust-on-first-use, false success, or a wedge.
Fault patterns are `Wit.Faults` (which of WriteOps / read-latest / Set fail); `Close` failing has no
observable effect in the model (its result is ignored by `Update`).
-/
namespace C07
open Wit

theorem stepF_out (cfg : Cfg) (s : Store) (r : Req) (f : Faults) :
    (stepF cfg s r f).2 = update cfg (envOf s r.logID f) r.logID r.old r.next r.proof := by
  unfold stepF; simp only; split <;> rfl

/-- a failed (non-NotFound) read of the previous checkpoint is never treated as "no previous
    checkpoint": the update is refused with a storage error, nothing is signed, nothing is set -/
theorem C07_no_tofu_on_read_error (cfg : Cfg) (s : Store) (r : Req) (f : Faults) (hr : f.read = true) :
    (stepF cfg s r f).2.err ≠ .none ∧ (stepF cfg s r f).2.set = none ∧ (stepF cfg s r f).1 = s := by
  have hne : (stepF cfg s r f).2.err ≠ .none ∧ (stepF cfg s r f).2.set = none := by
    rw [stepF_out]
    unfold update envOf
    simp only [hr, if_true]
    repeat' split
    all_goals simp
  exact ⟨hne.1, hne.2, stepF_refused_store cfg s r f hne.1⟩

/-- the first-use path is taken only on an affirmative "not found" -/
theorem C07_first_use_only_on_notfound (cfg : Cfg) (env : Env) (id : Bytes) (old : Nat) (next : Bytes) (proof : List Bytes)
    (l : LogInfo) (hl : cfg.find id = some l) (hacc : (update cfg env id old next proof).err = .none) :
    env.prev = .notFound ∨ ∃ raw, env.prev = .found raw ∧ (parse l raw).isSome := by
  unfold update at hacc
  simp only [hl] at hacc
  cases hp : parse l next with
  | none => simp [hp] at hacc
  | some pn =>
    simp only [hp] at hacc
    by_cases hw : env.writeOpsErr = true
    · simp [hw] at hacc
    · simp only [hw, Bool.false_eq_true, if_false] at hacc
      cases hprev : env.prev with
      | readErr => simp [hprev] at hacc
      | notFound => exact Or.inl rfl
      | found raw =>
        right
        refine ⟨raw, rfl, ?_⟩
        cases hpp : parse l raw with
        | none => simp [hprev, hpp] at hacc
        | some _ => rfl

/-- an update is reported as accepted only if a following (fault-free) read returns exactly the
    checkpoint it returned -/
theorem C07_accept_means_stored (cfg : Cfg) (s : Store) (r : Req) (f : Faults)
    (h : (stepF cfg s r f).2.err = .none) :
    ∃ v, (stepF cfg s r f).2.ret = some v ∧ getCheckpoint (stepF cfg s r f).1 r.logID = some v :=
  stepF_accepted cfg s r f h

/-- a failing open-for-write or a failing write is never reported as success -/
theorem C07_no_false_success (cfg : Cfg) (s : Store) (r : Req) (f : Faults) (hf : f.writeOps = true ∨ f.set = true) :
    (stepF cfg s r f).2.err ≠ .none := by
  rw [stepF_out]
  have hc := update_cases cfg (envOf s r.logID f) r.logID r.old r.next r.proof
  simp only at hc
  rcases hc with ⟨hnone, v, _, hset, hse⟩ | ⟨he, _⟩
  · rcases hf with hw | hs
    · exfalso
      revert hnone
      unfold update envOf
      simp only [hw]
      cases cfg.find r.logID with
      | none => simp
      | some l =>
        simp only
        cases parse l r.next with
        | none => simp
        | some pn => simp
    · simp [envOf, hs] at hse
  · exact he

/-- once the errors stop, the witness carries on from the last committed state: a faulty update
    leaves either the old state or (only when it reported success) the new one, and the next
    fault-free step is the step of the fault-free witness from that state (by definition of `step`) -/
theorem C07_resume (cfg : Cfg) (s : Store) (r : Req) (f : Faults) :
    (stepF cfg s r f).1 = s ∨
    ((stepF cfg s r f).2.err = .none ∧ ∃ v, (stepF cfg s r f).2.ret = some v ∧ (stepF cfg s r f).1 = s.set r.logID v) := by
  by_cases h : (stepF cfg s r f).2.err = .none
  · right
    refine ⟨h, ?_⟩
    have hc := update_cases cfg (envOf s r.logID f) r.logID r.old r.next r.proof
    rw [stepF_out] at h
    simp only at hc
    rcases hc with ⟨_, v, hret, hset, _⟩ | ⟨he, _⟩
    · refine ⟨v, by rw [stepF_out]; exact hret, ?_⟩
      unfold stepF; simp only [hset, h]
    · exact absurd h he
  · exact Or.inl (stepF_refused_store cfg s r f h)

/-- no update outcome leaves the write handle open: whenever `WriteOps` succeeded the call script
    ends with exactly one `Close`, and nothing follows it -/
theorem C07_handle_closed (o : Out) :
    (callScript o = [] ∨ callScript o = [.W] ∧ o.opened = false) ∨
    (o.opened = true ∧ (callScript o).getLast? = some .C ∧ (callScript o).count .C = 1 ∧ (callScript o).head? = some .W) := by
  unfold callScript
  split
  · exact Or.inl (Or.inl rfl)
  · cases ho : o.opened
    · simp
    · right
      cases o.set <;> simp [List.count_cons]

/-- `WriteOps` succeeded exactly when the model says `opened` -/
theorem C07_opened_iff (cfg : Cfg) (env : Env) (id : Bytes) (old : Nat) (next : Bytes) (proof : List Bytes) :
    (update cfg env id old next proof).opened = true →
      env.writeOpsErr = false ∧ (update cfg env id old next proof).err ≠ .unknownLog ∧
      (update cfg env id old next proof).err ≠ .noValidSig := by
  unfold update
  repeat' split
  all_goals simp_all [signAndSet]
  all_goals (repeat' split) <;> simp_all

end C07
