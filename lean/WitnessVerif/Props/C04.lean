import WitnessVerif.Proofs.Frame
import WitnessVerif.Proofs.BytesRun
import WitnessVerif.Proofs.OpenSigned
/-
C04 — every checkpoint handed out is the log's text, validly cosigned, and fresh.
-/
namespace C04
open Wit

/-- what an accepted update hands out: the result of `note.Sign` applied to the note opened from the
    *submitted* bytes and to the signatures the configured signers produced *in this call* over that
    note's text (so a same-size resubmission is re-signed: there is no short-circuit to the stored
    bytes); the result parses again under the log's key and origin; it is exactly what is stored -/
theorem C04_result (cfg : Cfg) (env : Env) (id : Bytes) (old : Nat) (nextRaw : Bytes) (proof : List Bytes)
    (h : (update cfg env id old nextRaw proof).err = .none) :
    ∃ l next nextNote outs signed,
      cfg.find id = some l ∧ parse l nextRaw = some (next, nextNote) ∧
      cfg.signers nextNote.text = some outs ∧ Note.sign nextNote outs = some signed ∧
      (parse l signed).isSome ∧
      (update cfg env id old nextRaw proof).ret = some signed ∧
      (update cfg env id old nextRaw proof).set = some signed := by
  have key : ∀ (l : LogInfo) (n : Note.Note) (c : Ctr), (signAndSet cfg env l n c).err = .none →
      ∃ outs signed, cfg.signers n.text = some outs ∧ Note.sign n outs = some signed ∧ (parse l signed).isSome ∧
        (signAndSet cfg env l n c).ret = some signed ∧ (signAndSet cfg env l n c).set = some signed := by
    intro l n c hs
    unfold signAndSet at hs ⊢
    cases h1 : cfg.signers n.text with
    | none => simp [h1] at hs
    | some outs =>
      simp only [h1] at hs ⊢
      cases h2 : Note.sign n outs with
      | none => simp [h2] at hs
      | some signed =>
        simp only [h2] at hs ⊢
        by_cases hp : (parse l signed).isNone = true
        · simp [hp] at hs
        · by_cases hse : env.setErr = true
          · simp [hp, hse] at hs
          · refine ⟨outs, signed, rfl, h2, ?_, ?_, ?_⟩
            · cases hq : parse l signed with
              | none => simp [hq] at hp
              | some _ => rfl
            · simp [hp, hse]
            · simp [hp, hse]
  unfold update at h ⊢
  cases hf : cfg.find id with
  | none => simp [hf] at h
  | some l =>
    simp only [hf] at h ⊢
    cases hp : parse l nextRaw with
    | none => simp [hp] at h
    | some pn =>
      obtain ⟨next, nn⟩ := pn
      simp only [hp] at h ⊢
      by_cases hw : env.writeOpsErr = true
      · simp [hw] at h
      · simp only [hw, Bool.false_eq_true, if_false] at h ⊢
        cases hprev : env.prev with
        | readErr => simp [hprev] at h
        | notFound =>
          simp only [hprev] at h ⊢
          obtain ⟨outs, signed, a, b, c, d, e⟩ := key l nn _ h
          exact ⟨l, next, nn, outs, signed, rfl, hp, a, b, c, d, e⟩
        | found raw =>
          simp only [hprev] at h ⊢
          cases hpp : parse l raw with
          | none => simp [hpp] at h
          | some pp =>
            simp only [hpp] at h ⊢
            cases hd : Core.decide cfg.H (toCore pp.1) old (toCore next) proof <;> simp only [hd] at h ⊢ <;> try (simp at h)
            obtain ⟨outs, signed, a, b, c, d, e⟩ := key l nn _ h
            exact ⟨l, next, nn, outs, signed, rfl, hp, a, b, c, d, e⟩

/-- directly after an accepted update a read returns exactly the bytes the update returned -/
theorem C04_read_after_update (cfg : Cfg) (s : Store) (r : Req) (f : Faults)
    (h : (stepF cfg s r f).2.err = .none) :
    ∃ v, (stepF cfg s r f).2.ret = some v ∧ getCheckpoint (stepF cfg s r f).1 r.logID = some v :=
  stepF_accepted cfg s r f h

end C04

namespace C04
open Wit

/-- the note handed out has byte-identical text: the submitted bytes are `text ++ "\n" ++ sigs`, the
    returned (= stored) bytes are `text ++ "\n" ++ sigs'`, and whoever opens the returned bytes, under
    any verifier list, reads exactly `text` (reparse stability of `note.Sign` / `note.Open`) -/
theorem C04_text_identical (cfg : Cfg) (env : Env) (id : Bytes) (old : Nat) (nextRaw : Bytes) (proof : List Bytes)
    (h : (update cfg env id old nextRaw proof).err = .none) :
    ∃ text sigs sigs' signed,
      nextRaw = text ++ B.nl :: sigs ∧ (update cfg env id old nextRaw proof).ret = some signed ∧
      signed = text ++ B.nl :: sigs' ∧
      ∀ vs n', Note.open signed vs = .ok n' → n'.text = text := by
  obtain ⟨l, next, nn, outs, signed, _, hparse, _, hsign, _, hret, _, _⟩ := update_accepted cfg env id old nextRaw proof h
  obtain ⟨hopen, _, _, _⟩ := parse_spec l nextRaw next nn hparse
  obtain ⟨hok, _, sigs, hmsg⟩ := Note.open_spec nextRaw [l.verifier] nn hopen
  obtain ⟨sigs', hsigned, _⟩ := Note.sign_split nn outs signed hok hsign
  exact ⟨nn.text, sigs, sigs', signed, hmsg, hret, hsigned,
    fun vs n' ho => Note.open_sign_text nn outs signed hok hsign vs n' ho⟩

/-- the stored checkpoint carries the log's valid signature: it parses again under the log's verifier
    and origin, to the same checkpoint (size, root) that was accepted -/
theorem C04_stored_reparses (cfg : Cfg) (env : Env) (id : Bytes) (old : Nat) (nextRaw : Bytes) (proof : List Bytes)
    (h : (update cfg env id old nextRaw proof).err = .none) :
    ∃ l next nn signed p' n', cfg.find id = some l ∧ parse l nextRaw = some (next, nn) ∧
      (update cfg env id old nextRaw proof).set = some signed ∧ parse l signed = some (p', n') ∧ p' = next := by
  obtain ⟨l, next, nn, outs, signed, hfind, hparse, _, hsign, hps, _, hset, _⟩ := update_accepted cfg env id old nextRaw proof h
  cases hq : parse l signed with
  | none => simp [hq] at hps
  | some pq =>
    obtain ⟨p', n'⟩ := pq
    exact ⟨l, next, nn, signed, p', n', hfind, hparse, hset, hq,
      (parse_sign_same l nextRaw next nn outs signed p' n' hparse hsign hq).1⟩

end C04

namespace C04
open Wit

/-- exactly one valid signature from each configured witness key: whoever opens the bytes an accepted
    update returned (= stored, = what a read returns) under a verifier list `vs` that knows each witness
    key unambiguously finds the log's text, pairwise distinct verified signature keys (so no key appears
    twice, even when the submitted note already carried a stale copy of the witness's own signature or
    any number of extra known/unknown lines), every kept signature verified by `vs` over that text, and
    for every configured witness signer a kept signature under its name and key hash.  The hypothesis
    on the signers records what the Go signers guarantee: a 32-bit key hash and a non-empty signature. -/
theorem C04_one_valid_sig_per_witness_key (cfg : Cfg) (env : Env) (id : Bytes) (old : Nat) (nextRaw : Bytes)
    (proof : List Bytes) (h : (update cfg env id old nextRaw proof).err = .none)
    (hwf : ∀ text outs, cfg.signers text = some outs → ∀ s ∈ outs, s.sig ≠ [] ∧ s.hash < 2 ^ 32) :
    ∃ (nn : Note.Note) (outs : List Note.SignerOut) (signed : Bytes), cfg.signers nn.text = some outs ∧
      (update cfg env id old nextRaw proof).ret = some signed ∧
      ∀ vs n', Note.open signed vs = .ok n' →
        (∀ s ∈ outs, ∃ v, Note.lookup vs s.name s.hash = .found v) →
        n'.text = nn.text ∧ (n'.sigs.map Note.key).Nodup ∧
        (∀ x ∈ n'.sigs, Note.Verified vs n'.text x) ∧
        ∀ s ∈ outs, ∃ x ∈ n'.sigs, x.name = s.name ∧ x.hash = s.hash := by
  obtain ⟨l, next, nn, outs, signed, _, hparse, hsg, hsign, _, hret, _, _⟩ := update_accepted cfg env id old nextRaw proof h
  obtain ⟨hopen, _, _, _⟩ := parse_spec l nextRaw next nn hparse
  obtain ⟨hok, _, _, _⟩ := Note.open_spec nextRaw [l.verifier] nn hopen
  exact ⟨nn, outs, signed, hsg, hret, fun vs n' ho hk =>
    Note.open_signed_one_per_key nn outs signed hok hsign vs n' ho (hwf _ _ hsg) hk⟩

end C04
