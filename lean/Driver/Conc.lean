import Driver.Bastion
import WitnessVerif.Model.StoreProtocol
import WitnessVerif.Proofs.SqlSerial
import Std.Data.HashSet
/-
Concurrency records: `LR` (one request of a concurrent execution with its real-time interval and
outcome) and `LIN` (end of the execution: initial and final states). The monitor searches for a
sequential order of the requests, compatible with real time, in which the model of the sequential
witness gives every request the outcome the implementation gave it (C05).
-/
open Std
namespace Drv

structure LReq where
  tid : Nat
  kind : String
  log : Bytes
  old : Nat
  cp : Bytes
  proof : List Bytes
  start : Nat
  stop : Nat
  err : String
  ret : Opt

instance : Inhabited Opt := ⟨.absent⟩
instance : Inhabited LReq := ⟨{ tid := 0, kind := "", log := [], old := 0, cp := [], proof := [], start := 0, stop := 0, err := "", ret := .absent }⟩

def parseLR (toks : List String) : Option LReq := do
  let get := field toks
  let tid ← (get "tid").bind String.toNat?
  let kind ← get "kind"
  let log ← (get "log").bind hexOfString
  let old ← (get "old").bind String.toNat?
  let cp ← (get "cp").bind hexOfString
  let proof ← (get "proof").bind parseList
  let start ← (get "start").bind String.toNat?
  let stop ← (get "end").bind String.toNat?
  let err ← get "err"
  let ret ← (get "ret").bind Opt.parse
  pure { tid, kind, log, old, cp, proof, start, stop, err, ret }

abbrev LState := List (Bytes × Opt)

def lget (s : LState) (id : Bytes) : Opt := ((s.find? (fun p => p.1 == id)).map (·.2)).getD .absent

def lset (s : LState) (id : Bytes) (v : Opt) : LState :=
  if s.any (fun p => p.1 == id) then s.map (fun p => if p.1 == id then (p.1, v) else p) else s ++ [(id, v)]

/-- apply request `r` sequentially at state `s`; `none` = the implementation's outcome is not the one
    the sequential witness gives here -/
def seqApply (cfg : Wit.Cfg) (s : LState) (r : LReq) : Option LState :=
  if r.kind == "G" then
    match lget s r.log, r.err, r.ret with
    | .absent, "notFound", _ => some s
    | .val b, "none", .val b' => if b == b' then some s else none
    | _, _, _ => none
  else if r.err == "other" then some s      -- storage error: no effect (overlap is checked separately)
  else
    let env : Wit.Env := { prev := match lget s r.log with | .val b => .found b | _ => .notFound }
    let out := Wit.update cfg env r.log r.old r.cp r.proof
    if errName out.err != r.err then none
    else match out.err with
      | .none =>
        match r.ret with
        | .val b => some (lset s r.log (.val b))
        | _ => none
      | _ =>
        match out.ret, r.ret with
        | none, .absent => some s
        | some b, .val b' => if b == b' then some s else none
        | _, _ => none

/-- depth-first search for a linearization; `done` is a bit mask -/
partial def linSearch (cfg : Wit.Cfg) (reqs : Array LReq) (final : LState) (done : Nat) (s : LState)
    (visited : HashSet String) : Bool × HashSet String :=
  let n := reqs.size
  if done == 2 ^ n - 1 then
    ((final.all (fun p => (lget s p.1).show == p.2.show)), visited)
  else
    let key := s!"{done}|{statesShow s}"
    if visited.contains key then (false, visited)
    else Id.run do
      let mut vis := visited.insert key
      for i in [0:n] do
        if done &&& (2 ^ i) == 0 then
          let r := reqs[i]!
          -- real time: every request that finished before r started must already be placed
          let okRT := (List.range n).all (fun j => j == i || done &&& (2 ^ j) != 0 || !(reqs[j]!.stop < r.start))
          if okRT then
            match seqApply cfg s r with
            | some s' =>
              let (found, vis') := linSearch cfg reqs final (done ||| (2 ^ i)) s' vis
              vis := vis'
              if found then return (true, vis)
            | none => pure ()
      return (false, vis)

structure LinBuf where
  reqs : Array LReq := #[]

def handleLIN (st : St) (n : Nat) (toks : List String) (reqs : Array LReq) : Result := Id.run do
  let some sid := toks[1]? | return { st, out := [s!"BAD {n} no-session"] }
  let some s := st.sess.get? sid | return { st, out := [s!"BAD {n} unknown-session"] }
  let get := field toks
  let cname := (get "case").getD "?"
  let hung := (get "hung").getD "0"
  let some init := (get "init").bind parseStates | return { st, out := [s!"BAD {n} init"] }
  let mut st := st.bump s!"conc.case.{cname}.{(get "store").getD "?"}"
  let mut outs : List String := []
  if hung != "0" then
    let r := fail st n "C05" s!"concurrent execution did not finish (case {cname}): a request was left unanswered"
    return { st := r.st, out := r.out }
  let some final := (get "final").bind parseStates | return { st, out := [s!"BAD {n} final"] }
  let cfgBase := mkCfg st s false
  let cfg : Wit.Cfg := { cfgBase with signers := fun _ => some [] }
  -- storage errors are allowed only for an update that overlapped another update of the same log
  for r in reqs do
    if r.kind == "U" && r.err == "other" then
      let overlaps := reqs.any (fun q => q.tid != r.tid && q.kind == "U" && q.log == r.log && !(q.stop < r.start) && !(r.stop < q.start))
      if !overlaps then
        let f := fail st n "C05" s!"update {r.tid} failed with a storage error without overlapping another write to the same log"
        st := f.st; outs := outs ++ f.out
        if reqs.any (fun q => q.tid != r.tid && q.log != r.log) then
          let f := fail st n "C12" s!"update {r.tid} for one log failed with a storage error although only requests naming another log ran beside it (case {cname})"
          st := f.st; outs := outs ++ f.out
  let (found, _) := linSearch cfg reqs final 0 init {}
  if found then
    st := { st with nOK := st.nOK + 1 }
    outs := outs ++ [s!"OK {n}"]
  else
    let desc := ";".intercalate (reqs.toList.map (fun r => s!"t{r.tid}:{r.kind}:{r.err}:[{r.start},{r.stop}]"))
    let f := fail st n "C05" s!"no sequential order of the requests explains the outcomes (case {cname}): {desc} final={(statesShow final).take 120}"
    st := f.st; outs := outs ++ f.out
    -- C12: each log's requests alone (its projection of the history) must already be explained by that log's
    -- own state; if some projection is not, the other logs' requests made the difference
    let logs := (reqs.toList.map (·.log)).eraseDups
    if logs.length > 1 then
      for lg in logs do
        let sub := reqs.filter (fun r => r.log == lg)
        let fin := final.filter (fun p => p.1 == lg)
        let ini := init.filter (fun p => p.1 == lg)
        let (ok, _) := linSearch cfg sub fin 0 ini {}
        if !ok then
          let f := fail st n "C12" s!"the outcomes of one log's requests are not explained by that log's requests alone (case {cname}): requests naming another log changed them"
          st := f.st; outs := outs ++ f.out
  -- the list of known logs after the execution: exactly the logs that hold a checkpoint, each once (a refused or a
  -- conflicting request leaves no trace in it)
  let loglist := (get "loglist").getD "!"
  if loglist != "!" then
    let listed := if loglist == "-" then [] else loglist.splitOn ","
    let holding := ((final.filter (fun p => match p.2 with | .val _ => true | _ => false)).map (fun p => hx p.1)).toArray.qsort (· < ·) |>.toList
    if listed != holding then
      let why := if listed.eraseDups.length != listed.length then "a log is listed more than once" else "it is not the set of logs that hold a checkpoint"
      let f := fail st n "C03" s!"after concurrent requests (case {cname}) the list of known logs is wrong: {why}"
      st := f.st; outs := outs ++ f.out
      let f := fail st n "C16" s!"the log list after concurrent requests (case {cname}) is not exactly the set of logs with an accepted update: {why}"
      st := f.st; outs := outs ++ f.out
      let f := fail st n "C05" s!"concurrent requests (case {cname}) left the list of known logs in a state no sequential execution produces: {why}"
      st := f.st; outs := outs ++ f.out
  -- requests that went through the adapter omniwitness.Main uses: once everything has finished, what the adapter
  -- reports as a log's latest checkpoint is what storage holds (nothing it remembers may be older or newer)
  let aview := (get "adapter").getD "-"
  if aview != "-" then
    st := st.bump "conc.through-adapter"
    match parseStates aview with
    | some av =>
      if statesShow av != statesShow final then
        let f := fail st n "C13" s!"after concurrent requests through the adapter (case {cname}) the adapter reports a latest checkpoint that is not the stored one: every later feed cycle starts from a wrong old size"
        st := f.st; outs := outs ++ f.out
        let f := fail st n "C05" s!"after concurrent requests through the adapter (case {cname}) a read through the adapter does not return the stored checkpoint"
        st := f.st; outs := outs ++ f.out
    | none => pure ()
  -- the small-step model of the in-memory store (Model/StoreProtocol.lean, the system `C05_linearizable_inmem`
  -- is about) replayed on the schedule the implementation actually ran: snapshot at WriteOps, compare-and-set at
  -- Set; it must predict, per request, acceptance / the refusal verdict / the storage conflict
  let storeKind := (get "store").getD "?"
  let oneLog := (reqs.toList.map (·.log)).eraseDups.length == 1
  if storeKind == "mem" && oneLog && reqs.all (fun r => r.kind == "U" || r.kind == "G") && hung == "0" then
    let ordToks := (toks.dropWhile (fun t => !t.startsWith "order=")).map (fun t =>
      ((t.replace "order=" "").replace "[" "").replace "]" "")
    let late := ((field toks "late").getD "0") != "0"
    if late then st := st.bump "conc.smallstep.skipped-order-not-fully-controlled"
    if !(ordToks.contains "free") && !late then
      let lg := (reqs[0]!).log
      let dec (snap : Option Bytes) (i : Nat) : Lin.Dec Bytes String :=
        match reqs[i]? with
        | none => .refuse "?"
        | some r =>
          if r.kind == "G" then
            -- a read never writes; it returns the value current when it opened its read handle (`C05_read_is_atomic`)
            .refuse (match snap with | some b => "R:" ++ hx b | none => "R:-")
          else
          let env : Wit.Env := { prev := match snap with | some b => .found b | none => .notFound }
          let out := Wit.update cfg env r.log r.old r.cp r.proof
          if out.err == .none then
            .write (match r.ret with | .val b => b | _ => B.ofString s!"conflicting-write-{i}") "none"
          else .refuse (errName out.err)
      let init0 : Option Bytes := match lget init lg with | .val b => some b | _ => none
      let sys0 : Lin.Sys Bytes String := { store := init0, pcs := List.replicate reqs.size .idle, lin := [] }
      let isRead (i : Nat) : Bool := match reqs[i]? with | some r => r.kind == "G" | none => false
      -- storage calls in the order they were released: W = begin, S = compare-and-set, C closes a refused request
      let sysF := ordToks.foldl (fun (sy : Lin.Sys Bytes String) tok =>
        let digits := tok.takeWhile Char.isDigit
        match digits.toNat? with
        | none => sy
        | some i =>
          let op := (tok.drop digits.length).toString
          let pending := match sy.pcs[i]? with | some (.done _) => false | _ => true
          if isRead i then
            -- released from its start gate the read opens its handle (the copy is its linearisation point); released
            -- from the gate before GetLatest it hands the copy out
            if op == "start" || op == "g" then Lin.stepThread dec (List.range reqs.size) sy i else sy
          else if op == "W" || op == "S" then Lin.stepThread dec (List.range reqs.size) sy i
          else if op == "C" && pending then Lin.stepThread dec (List.range reqs.size) sy i
          else sy) sys0
      let mouts := (List.range reqs.size).map (fun i => match sysF.pcs[i]? with
        | some (.done (.ok r)) => r | some (.done .storageErr) => "other" | _ => "unfinished")
      let iouts := reqs.toList.map (fun r =>
        if r.kind == "G" then (match r.err, r.ret with
          | "none", .val b => "R:" ++ hx b | "notFound", _ => "R:-" | e, _ => e)
        else r.err)
      let mfinal : Opt := match sysF.store with | some b => .val b | none => .absent
      if mouts != iouts || mfinal.show != (lget final lg).show then
        st := { st with nDiv := st.nDiv + 1 }
        outs := outs ++ [s!"DIVERGE {n} LIN field=smallstep model={mouts}/{mfinal.show.take 24} impl={iouts}/{(lget final lg).show.take 24}"]
      else st := st.bump "conc.smallstep.agree"
  -- the single-connection SQL system (`Lin.stepSql`, the system `C05_linearizable_sql` is about) replayed on what the
  -- implementation did: a request holds the connection from the moment it reads inside its transaction (it can be
  -- parked there only after `Begin` returned) until its `Set` or, when refused, its `Close`.  Only scheduler-released
  -- events are used, so the replay does not depend on how fast the machine is.
  if storeKind != "mem" && oneLog && reqs.all (fun r => r.kind == "U") && hung == "0" then
    let ordToks := (toks.dropWhile (fun t => !t.startsWith "order=")).map (fun t =>
      ((t.replace "order=" "").replace "[" "").replace "]" "")
    if !(ordToks.contains "free") then
      let lg := (reqs[0]!).log
      let dec (snap : Option Bytes) (i : Nat) : Lin.Dec Bytes String :=
        match reqs[i]? with
        | none => .refuse "?"
        | some r =>
          let env : Wit.Env := { prev := match snap with | some b => .found b | none => .notFound }
          let out := Wit.update cfg env r.log r.old r.cp r.proof
          if out.err == .none then
            .write (match r.ret with | .val b => b | _ => B.ofString s!"conflicting-write-{i}") "none"
          else .refuse (errName out.err)
      let init0 : Option Bytes := match lget init lg with | .val b => some b | _ => none
      let sys0 : Lin.SqlSys Bytes String := { sys := { store := init0, pcs := List.replicate reqs.size .idle, lin := [] }, owner := none }
      let idx := List.range reqs.size
      let (sysF, clash) := ordToks.foldl (fun (acc : Lin.SqlSys Bytes String × Option String) tok =>
        let (sy, clash) := acc
        let digits := tok.takeWhile Char.isDigit
        match digits.toNat? with
        | none => acc
        | some i =>
          let op := (tok.drop digits.length).toString
          let pc := sy.sys.pcs[i]?
          if op == "G" then
            match pc, sy.owner with
            | some .idle, none => (Lin.stepSql dec idx sy i, clash)
            | some .idle, some j => (sy, clash <|> some s!"request {i} read inside its transaction while request {j} still held the single connection")
            | _, _ => acc
          else if op == "S" || op == "C" then
            match pc with
            | some (.began _) => (Lin.stepSql dec idx sy i, clash)
            | _ => acc
          else acc) (sys0, none)
      -- requests refused before any storage call (unknown log, no valid signature) never touch the connection
      let mouts := (List.range reqs.size).map (fun i => match sysF.sys.pcs[i]? with
        | some (.done (.ok r)) => r | some (.done .storageErr) => "other"
        | some .idle => (match dec init0 i with | .refuse r => r | .write _ r => r)
        | _ => "unfinished")
      let iouts := reqs.toList.map (·.err)
      let mfinal : Opt := match sysF.sys.store with | some b => .val b | none => .absent
      match clash with
      | some c =>
        st := { st with nDiv := st.nDiv + 1 }
        outs := outs ++ [s!"DIVERGE {n} LIN field=smallstep model=single-connection impl={c}"]
      | none =>
        if mouts != iouts || mfinal.show != (lget final lg).show then
          st := { st with nDiv := st.nDiv + 1 }
          outs := outs ++ [s!"DIVERGE {n} LIN field=smallstep model={mouts}/{mfinal.show.take 24} impl={iouts}/{(lget final lg).show.take 24}"]
        else st := st.bump "conc.smallstep.sql.agree"
  -- C01 under concurrency: the checkpoints cosigned for one log in this execution (and the one held before) are
  -- pairwise compatible: equal sizes have equal roots, and with the ground-truth trees known, both lie on one branch
  let cpOf (b : Bytes) : Option (Nat × Bytes) := ((B.splitLast b).bind (fun p => Cp.unmarshal p.1)).map (fun c => (c.size, c.hash))
  for lg in (reqs.toList.map (·.log)).eraseDups do
    let held := match lget init lg with | .val b => (cpOf b).toList | _ => []
    let acc := reqs.toList.filterMap (fun r => if r.kind == "U" && r.err == "none" && r.log == lg then
      (match r.ret with | .val b => cpOf b | _ => none) else none)
    let all := held ++ acc
    let truth := s.truth.getD (String.fromUTF8! (ByteArray.mk lg.toArray)) []
    for i in [0:all.length] do
      for j in [i+1:all.length] do
        let a := all[i]!
        let b := all[j]!
        if a.1 == b.1 && a.2 != b.2 then
          let f := fail st n "C01" s!"two cosigned checkpoints of size {a.1} with different roots (case {cname})"
          st := f.st; outs := outs ++ f.out
        else if a.1 != b.1 && a.1 > 0 && b.1 > 0 then
          let ba := truth.filter (fun t => t.2.1 == a.1 && t.2.2 == a.2)
          let bb := truth.filter (fun t => t.2.1 == b.1 && t.2.2 == b.2)
          if !ba.isEmpty && !bb.isEmpty && !(ba.any (fun x => bb.any (fun y => x.1 == y.1))) then
            let f := fail st n "C01" s!"cosigned both sides of a split view under concurrency (case {cname}): sizes {a.1} and {b.1} lie on different branches"
            st := f.st; outs := outs ++ f.out
  -- no reader sees a log's size go down is implied by linearizability + C01; accepted updates are never lost:
  -- the final state must be the returned bytes of some accepted update of that log, or the initial one
  for p in final do
    let acc := reqs.toList.filter (fun r => r.kind == "U" && r.err == "none" && r.log == p.1)
    if !acc.isEmpty && !acc.any (fun r => r.ret.show == p.2.show) then
      let f := fail st n "C05" "final state of a log is not the checkpoint returned by any accepted update"
      st := f.st; outs := outs ++ f.out
  return { st, out := outs }

end Drv
