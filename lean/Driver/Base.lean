import Std.Data.HashMap
import WitnessVerif.Model.Witness
import WitnessVerif.Spec.Rules
import WitnessVerif.Model.Bastion
import WitnessVerif.Model.Config
/-
wdrv: replays a trace written by the Go harness through the model, line by line.
Every checked record is answered by `OK n`, `DIVERGE n kind field model=.. impl=..` or
`PROPFAIL n Cxx what`; `STAT` lines carry the histogram of what was covered.
-/
open Std

namespace Drv

def hexOfString (s : String) : Option Bytes :=
  if s == "." then some [] else B.ofHex s.toUTF8.toList

def hx (b : Bytes) : String :=
  if b.isEmpty then "." else String.fromUTF8! (ByteArray.mk (B.toHex b).toArray)

/-- `-` absent, `!` error, otherwise hex bytes -/
inductive Opt | absent | failed | val (b : Bytes)
deriving DecidableEq

def Opt.parse (s : String) : Option Opt :=
  if s == "-" then some .absent else if s == "!" then some .failed else (hexOfString s).map .val

def Opt.show : Opt → String
  | .absent => "-" | .failed => "!" | .val b => hx b

def optShow : Option Bytes → String
  | none => "-" | some b => hx b

def parseList (s : String) : Option (List Bytes) :=
  if s == "-" then some [] else (s.splitOn ",").mapM hexOfString

structure LogCfg where
  id : Bytes
  origin : Bytes
  vname : Bytes
  vhash : Nat
  vid : String

structure SignerCfg where
  name : Bytes
  hash : Nat
  vid : String       -- id of the independent verifier used by the harness for this key
  kind : String      -- ed25519 | cosigv1

structure Accepted where
  size : Nat
  root : Bytes

structure Sess where
  store : String := "mem"
  logs : List LogCfg := []
  signers : List SignerCfg := []
  sg : List (Nat × Bytes × Bytes) := []          -- pending signer outputs (idx, msg, sig)
  accepted : HashMap String (List Accepted) := {} -- per log, newest first
  truth : HashMap String (List (String × Nat × Bytes)) := {} -- per log: (branch, size, root)
  expCtr : HashMap String Wit.Ctr := {}           -- counters predicted from impl verdicts
  lastRet : HashMap String String := {}            -- per log: hex of what the last accepted update returned
  hwv : Option (Nat × String) := none             -- bastion endpoint: index of the witness key it verifies with, vid

structure St where
  sess : HashMap String Sess := {}
  vtab : HashMap String Bool := {}                -- "vid msg sig" -> verdict of the real verifier
  stats : HashMap String Nat := {}
  lreqs : Array (String × List String) := #[]       -- pending LR records (session id, tokens)
  cfEntries : Array (String × Cfg.Entry) := #[]    -- entries of the configuration file being read
  treeLeaves : List Bytes := []                    -- leaf hashes of the stub log (TREE record)
  lastPBW : Option String := none                 -- what the last written body must parse to
  nOK : Nat := 0
  nDiv : Nat := 0
  nFail : Nat := 0

def St.bump (st : St) (k : String) : St := { st with stats := st.stats.insert k (st.stats.getD k 0 + 1) }

def errName : Wit.Err → String
  | .none => "none" | .unknownLog => "unknownLog" | .noValidSig => "noValidSig"
  | .oldSizeInvalid => "oldSizeInvalid" | .stale => "stale" | .rootMismatch => "rootMismatch"
  | .invalidProof => "invalidProof" | .storage => "other"
  | .storedUnparseable => "other" | .signFailed => "other"

def errDetail : Wit.Err → String
  | .storage => "storage" | .storedUnparseable => "storedUnparseable"
  | .signFailed => "signFailed" | e => errName e

def rfcH (l r : Bytes) : Bytes := Sha.sha256 ((1 : UInt8) :: (l ++ r))

def mkVerifier (vtab : HashMap String Bool) (dflt : Bool) (name : Bytes) (hash : Nat) (vid : String) : Note.Verifier :=
  { name := name, hash := hash,
    verify := fun msg sig => (vtab.get? (vid ++ " " ++ hx msg ++ " " ++ hx sig)).getD dflt }

def mkCfg (st : St) (s : Sess) (dflt : Bool) : Wit.Cfg :=
  { logs := s.logs.map (fun l => { id := l.id, origin := l.origin, verifier := mkVerifier st.vtab dflt l.vname l.vhash l.vid }),
    H := rfcH,
    signers := fun text =>
      (List.range s.signers.length).mapM (fun i =>
        match s.signers[i]?, s.sg.find? (fun e => e.1 == i && e.2.1 == text) with
        | some sc, some e => some { name := sc.name, hash := sc.hash, sig := e.2.2 }
        | _, _ => none) }

def kv (tok : String) : String × String :=
  match tok.splitOn "=" with
  | k :: rest => (k, "=".intercalate rest)
  | [] => (tok, "")

def field (toks : List String) (k : String) : Option String :=
  (toks.map kv).find? (fun p => p.1 == k) |>.map (·.2)

def ctrShow (c : Wit.Ctr) : String :=
  s!"{c.attempt},{c.success},{c.invalidConsistency},{c.inconsistent}"

def ctrAdd (a b : Wit.Ctr) : Wit.Ctr :=
  ⟨a.attempt + b.attempt, a.success + b.success, a.invalidConsistency + b.invalidConsistency, a.inconsistent + b.inconsistent⟩

/-- timestamps of cosignature/v1 lines by signer `sc` in a note -/
def cosigTimes (n : Note.Note) (sc : SignerCfg) : List Nat :=
  (n.sigs ++ n.unverified).filterMap (fun s =>
    if s.name == sc.name && s.hash == sc.hash then
      match B64.decode s.b64 with
      | some raw => if raw.length == 4 + 8 + 64 then some (B.beDecode ((raw.drop 4).take 8)) else none
      | none => none
    else none)

structure Result where
  st : St
  out : List String

def fail (st : St) (n : Nat) (prop what : String) : Result :=
  { st := { st with nFail := st.nFail + 1 }, out := [s!"PROPFAIL {n} {prop} {what}"] }

def cmp (st : St) (n : Nat) (kind : String) (model impl : String) : Result :=
  if model == impl then { st := { st with nOK := st.nOK + 1 }, out := [s!"OK {n}"] }
  else { st := { st with nDiv := st.nDiv + 1 }, out := [s!"DIVERGE {n} {kind} field=out model={model} impl={impl}"] }

def natOpt : Option Nat → String
  | none => "!" | some n => toString n

def bytesOpt : Option Bytes → String
  | none => "!" | some b => hx b


end Drv
