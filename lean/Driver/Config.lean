import Driver.Base
import WitnessVerif.Model.Config
import WitnessVerif.Generated.Facts
/-
Configuration records: `CF` (one entry of a shipped configuration through config.NewLog and its
feeder's start-up checks), `CFM` (AsLogMap of the whole file), `CA` (a synthetic configuration).
-/
open Std
namespace Drv

def newlogShow (e : Cfg.Entry) : String :=
  match Cfg.newLog e with
  | some (id, v) => s!"ok:{hx id}:{hx v.name}:{v.hash}"
  | none => "err"

def asLogMapShow (es : List Cfg.Entry) : String :=
  match Cfg.asLogMap es with
  | none => "err"
  | some m =>
    let keys := m.map (fun x => s!"{hx x.1}={hx x.2.2.name}/{x.2.2.hash}/{hx x.2.1.origin}")
    "ok:" ++ ",".intercalate (keys.toArray.qsort (· < ·)).toList

def handleCF (st : St) (n : Nat) (toks : List String) : Result := Id.run do
  let get := field toks
  let some origin := (get "origin").bind hexOfString | return { st, out := [s!"BAD {n} origin"] }
  let some pk := (get "pk").bind hexOfString | return { st, out := [s!"BAD {n} pk"] }
  let some url := (get "url").bind hexOfString | return { st, out := [s!"BAD {n} url"] }
  let feeder := (get "feeder").getD "?"
  let file := (get "file").getD "?"
  let inl := (get "newlog").getD "?"
  let ipro := (get "prologue").getD "?"
  let e : Cfg.Entry := { origin, publicKey := pk, url, feeder := B.ofString feeder }
  let mnl := newlogShow e
  let mpro := if mnl == "err" || feeder == "none" then "n/a" else if Cfg.urlOK e.feeder e.url then "ok" else "err"
  let mut st := { st with cfEntries := st.cfEntries.push (file, e) }
  let mut outs : List String := []
  if mnl != inl then
    st := { st with nDiv := st.nDiv + 1 }
    outs := outs ++ [s!"DIVERGE {n} CF field=newlog model={mnl.take 120} impl={inl.take 120}"]
  else if mpro != ipro then
    st := { st with nDiv := st.nDiv + 1 }
    outs := outs ++ [s!"DIVERGE {n} CF field=prologue model={mpro} impl={ipro}"]
  else
    st := { st with nOK := st.nOK + 1 }
    outs := outs ++ [s!"OK {n}"]
  st := st.bump s!"cfg.feeder.{feeder}"
  -- C17 monitors on the implementation's answers
  if inl == "err" then
    let r := fail st n "C17" s!"{file} entry {(get "idx").getD "?"}: the public key does not parse into a verifier"
    st := r.st; outs := outs ++ r.out
  if !(Facts.feederNames.contains (B.ofString feeder)) then
    let r := fail st n "C17" s!"{file} entry {(get "idx").getD "?"}: unknown feeder type {feeder}"
    st := r.st; outs := outs ++ r.out
  if ipro == "err" || ipro == "panic" then
    let r := fail st n "C17" s!"{file} entry {(get "idx").getD "?"}: its feeder ({feeder}) cannot start from the configured URL ({ipro})"
    st := r.st; outs := outs ++ r.out
  return { st, out := outs }

def handleCFM (st : St) (n : Nat) (toks : List String) : Result := Id.run do
  let get := field toks
  let file := (get "file").getD "?"
  let iam := (get "aslogmap").getD "?"
  let es := (st.cfEntries.filter (fun p => p.1 == file)).toList.map (·.2)
  let mam := asLogMapShow es
  let mut st := { st with cfEntries := st.cfEntries.filter (fun p => p.1 != file) }
  let mut outs : List String := []
  if mam != iam then
    st := { st with nDiv := st.nDiv + 1 }
    outs := outs ++ [s!"DIVERGE {n} CFM field=aslogmap model={mam.take 200} impl={iam.take 200}"]
  else
    st := { st with nOK := st.nOK + 1 }
    outs := outs ++ [s!"OK {n}"]
  if !iam.startsWith "ok:" then
    let r := fail st n "C17" s!"{file}: the witness map cannot be built from the shipped configuration ({iam.take 60})"
    st := r.st; outs := outs ++ r.out
  else
    -- the witness map and the feeder list describe the same logs: same IDs
    let mapIDs := ((iam.drop 3).toString.splitOn ",").map (fun kv => (kv.splitOn "=").headD "")
    let listIDs := es.map (fun e => hx (Cp.logID e.origin))
    if (mapIDs.toArray.qsort (· < ·)).toList != (listIDs.toArray.qsort (· < ·)).toList then
      let r := fail st n "C17" s!"{file}: the witness map and the feeder list do not describe the same log IDs"
      st := r.st; outs := outs ++ r.out
  let wit := (get "witness").getD "ok"
  if wit.startsWith "err" || wit == "panic" then
    let msg := (((wit.drop 4).toString |> hexOfString).map (fun b => String.fromUTF8! (ByteArray.mk b.toArray))).getD wit
    let r := fail st n "C17" s!"{file}: witness.New refuses the map built from the shipped configuration: {msg.take 160}"
    st := r.st; outs := outs ++ r.out
  if es.length != ((get "n").bind String.toNat?).getD 0 then
    let r := fail st n "C17" s!"{file}: entries seen by the harness and by the check differ"
    st := r.st; outs := outs ++ r.out
  return { st, out := outs }

def handleCA (st : St) (n : Nat) (toks : List String) : Result := Id.run do
  let get := field toks
  let ents := ((get "entries").getD "").splitOn ";"
  let parsed := ents.mapM (fun s => match s.splitOn ":" with
    | [o, pk, nl] => match hexOfString o, hexOfString pk with
      | some a, some b => some (({ origin := a, publicKey := b, url := [], feeder := [] } : Cfg.Entry), nl)
      | _, _ => none
    | _ => none)
  let some es := parsed | return { st, out := [s!"BAD {n} CA"] }
  let iam := (get "aslogmap").getD "?"
  let mam := asLogMapShow (es.map (·.1))
  let mut st := st.bump (if iam == "err" then "cfgmap.refused" else "cfgmap.loaded")
  let mut outs : List String := []
  let mut ok := true
  if mam != iam then
    ok := false
    outs := outs ++ [s!"DIVERGE {n} CA field=aslogmap model={mam.take 200} impl={iam.take 200}"]
  for (e, nl) in es do
    let m := (newlogShow e).replace ":" "/"
    if m != nl then
      ok := false
      outs := outs ++ [s!"DIVERGE {n} CA field=newlog model={m.take 100} impl={nl.take 100}"]
  if ok then
    st := { st with nOK := st.nOK + 1 }
    outs := outs ++ [s!"OK {n}"]
  else st := { st with nDiv := st.nDiv + 1 }
  -- C12: two configured logs that would share an ID are refused at start-up; IDs are the IDs of the origins
  let ids := es.map (fun p => hx (Cp.logID p.1.origin))
  let dup := ids.length != ids.eraseDups.length
  let allKeysOK := es.all (fun p => p.2 != "err")
  if dup && iam != "err" then
    let r := fail st n "C12" "a configuration with two logs sharing an ID was accepted at start-up"
    st := r.st; outs := outs ++ r.out
  if !dup && allKeysOK && iam == "err" then
    let r := fail st n "C12" "a configuration without ID collisions and with valid keys was refused"
    st := r.st; outs := outs ++ r.out
  if iam.startsWith "ok:" then
    let mapIDs := ((iam.drop 3).toString.splitOn ",").map (fun kv => (kv.splitOn "=").headD "")
    if (mapIDs.toArray.qsort (· < ·)).toList != (ids.toArray.qsort (· < ·)).toList then
      let r := fail st n "C12" "the witness files the configured origins under other IDs than config.NewLog / log.ID give them"
      st := r.st; outs := outs ++ r.out
    for (e, nl) in es do
      match nl.splitOn "/" with
      | ["ok", id, _, _] =>
        if id != hx (Cp.logID e.origin) then
          let r := fail st n "C12" "config.NewLog derives another ID than the hash of the origin"
          st := r.st; outs := outs ++ r.out
      | _ => pure ()
  return { st, out := outs }

end Drv
