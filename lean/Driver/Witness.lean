import Driver.Base
open Std
namespace Drv

/-- handle a `U` record: witness update -/
def handleU (st : St) (n : Nat) (toks : List String) : Result := Id.run do
  let some sid := toks[1]? | return { st, out := [s!"BAD {n} no-session"] }
  let some s := st.sess.get? sid | return { st, out := [s!"BAD {n} unknown-session"] }
  let get := field toks
  let some logID := (get "log").bind hexOfString | return { st, out := [s!"BAD {n} log"] }
  let some old := (get "old").bind String.toNat? | return { st, out := [s!"BAD {n} old"] }
  let some cp := (get "cp").bind hexOfString | return { st, out := [s!"BAD {n} cp"] }
  let some proof := (get "proof").bind parseList | return { st, out := [s!"BAD {n} proof"] }
  let some pre := (get "pre").bind Opt.parse | return { st, out := [s!"BAD {n} pre"] }
  let some iret := (get "ret").bind Opt.parse | return { st, out := [s!"BAD {n} ret"] }
  let some ipost := (get "post").bind Opt.parse | return { st, out := [s!"BAD {n} post"] }
  let ierr := (get "err").getD "?"
  let ictr := (get "ctr").getD "?"
  let faults := (get "faults").getD ""
  let probe := (get "probe").getD "0"
  let allpre := (get "allpre").getD ""
  let allpost := (get "allpost").getD ""
  let tw := ((get "tw").getD "0,0").splitOn ","
  let t0 := (tw[0]?.bind String.toNat?).getD 0
  let t1 := (tw[1]?.bind String.toNat?).getD 0
  let env : Wit.Env := {
    writeOpsErr := faults.contains 'W'
    prev := if faults.contains 'R' then .readErr else
      -- fault X: the write handle's read returned the damaged bytes `xread` in place of the stored checkpoint
      match (if faults.contains 'X' then (get "xread").bind Opt.parse else none) with
      | some (.val d) => .found d
      | _ => match pre with
        | .absent => .notFound | .failed => .readErr | .val b => .found b
    setErr := faults.contains 'S' }
  let cfgF := mkCfg st s false
  let cfgT := mkCfg st s true
  let outF := Wit.update cfgF env logID old cp proof
  let outT := Wit.update cfgT env logID old cp proof
  let mut st := st
  let mut outs : List String := []
  let mut ok := true
  -- model vs implementation
  if outF != outT then
    ok := false
    outs := outs ++ [s!"DIVERGE {n} U field=oracle model=needs-unrecorded-verification impl=-"]
  let mpost : Opt := match outF.set, outF.err with
    | some v, .none => .val v
    | _, _ => pre
  if errName outF.err != ierr then
    ok := false
    outs := outs ++ [s!"DIVERGE {n} U field=err model={errDetail outF.err} impl={ierr}"]
    if (errName outF.err == "none") != (ierr == "none") then
      outs := outs ++ [s!"DIVERGE {n} U field=accept model={errDetail outF.err} impl={ierr}"]
  if optShow outF.ret != iret.show then
    ok := false
    outs := outs ++ [s!"DIVERGE {n} U field=ret model={optShow outF.ret} impl={iret.show}"]
  if mpost.show != ipost.show then
    ok := false
    outs := outs ++ [s!"DIVERGE {n} U field=post model={mpost.show} impl={ipost.show}"]
  if ictr != "?" && ctrShow outF.ctr != ictr then
    ok := false
    outs := outs ++ [s!"DIVERGE {n} U field=ctr model={ctrShow outF.ctr} impl={ictr}"]
  let icalls := (get "calls").getD "?"
  let mcalls := match Wit.callScript outF with
    | [] => "-"
    | l => ",".intercalate (l.map (fun c => match c with | .W => "W" | .G => "G" | .S => "S" | .C => "C"))
  if icalls != "?" && icalls != mcalls then
    ok := false
    outs := outs ++ [s!"DIVERGE {n} U field=calls model={mcalls} impl={icalls}"]
  if ok then
    st := { st with nOK := st.nOK + 1 }
    outs := outs ++ [s!"OK {n}"]
  else
    st := { st with nDiv := st.nDiv + 1 }
  st := st.bump s!"verdict.{errDetail outF.err}"
  st := st.bump s!"store.{s.store}"
  -- monitors, on the implementation's outputs only
  let lidS := hx logID
  let linfo := cfgF.find logID
  -- C20: counters implied by the implementation's own verdict
  if ictr != "?" then
    let exp : Wit.Ctr :=
      { attempt := if ierr == "unknownLog" then 0 else 1
        success := if ierr == "none" then 1 else 0
        invalidConsistency := if ierr == "invalidProof" then 1 else 0
        inconsistent := if ierr == "rootMismatch" then 1 else 0 }
    if ctrShow exp != ictr then
      let r := fail st n "C20" s!"counters moved {ictr} for verdict {ierr}, expected {ctrShow exp}"
      st := r.st; outs := outs ++ r.out
  -- C07: storage failures
  let hang := (get "hang").getD "0"
  if hang != "0" then
    let r := fail st n "C07" s!"operation did not complete (hang={hang}) after faults={faults}: a storage transaction was left open"
    st := r.st; outs := outs ++ r.out
  if faults.contains 'R' && ierr == "none" then
    let r := fail st n "C07" "a failed read of the previous checkpoint was treated as 'no previous checkpoint' (update accepted)"
    st := r.st; outs := outs ++ r.out
  if faults.contains 'X' && ierr == "none" then
    match (get "xread").bind Opt.parse, linfo with
    | some (.val d), some l =>
      if (Wit.parse l d).isNone then
        let r := fail st n "C07" "the store returned bytes that are not a checkpoint of this log and the update was accepted: an unreadable previous checkpoint was treated as 'no previous checkpoint'"
        st := r.st; outs := outs ++ r.out
    | _, _ => pure ()
  if faults != "" || icalls != "?" then
    if ierr == "none" then
      match iret with
      | .val rb =>
        if ipost != .val rb then
          let r := fail st n "C07" s!"update reported as accepted under faults={faults} but a following read does not return the checkpoint it returned"
          st := r.st; outs := outs ++ r.out
      | _ => pure ()
    if (faults.contains 'W' || faults.contains 'R' || faults.contains 'S') && ierr == "none" && (faults.contains 'W' || faults.contains 'S') then
      let r := fail st n "C07" s!"update reported as accepted although storage call failed (faults={faults})"
      st := r.st; outs := outs ++ r.out
    if icalls != "?" then
      let cs := icalls.splitOn ","
      let nW := (cs.filter (· == "W")).length
      let nC := (cs.filter (· == "C")).length
      let expC := if faults.contains 'W' then 0 else nW
      if nC != expC then
        let r := fail st n "C07" s!"storage handle not closed exactly once: calls={icalls} faults={faults}"
        st := r.st; outs := outs ++ r.out
  -- C03: refusal leaves everything unchanged and returns nothing or the stored checkpoint
  if ierr != "none" then
    if allpre != allpost then
      let r := fail st n "C03" s!"state changed by refused update ({ierr})"
      st := r.st; outs := outs ++ r.out
    if ipost.show != pre.show then
      let r := fail st n "C03" s!"stored checkpoint changed by refused update ({ierr})"
      st := r.st; outs := outs ++ r.out
    match iret with
    | .val b =>
      if Opt.val b != pre then
        let r := fail st n "C03" s!"refusal ({ierr}) returned bytes that are not the stored checkpoint"
        st := r.st; outs := outs ++ r.out
    | _ => pure ()
  -- C02: accepted implies authentic
  if ierr == "none" then
    match linfo with
    | none =>
      let r := fail st n "C02" "update accepted for an unknown log id"
      st := r.st; outs := outs ++ r.out
    | some l =>
      match Wit.parse l cp with
      | none =>
        let r := fail st n "C02" "accepted a checkpoint that does not authenticate under the log's key and origin"
        st := r.st; outs := outs ++ r.out
        -- C12: is it another configured log's checkpoint that got filed here?
        if cfgF.logs.any (fun o => o.id != logID && (Wit.parse o cp).isSome) then
          let r2 := fail st n "C12" "a checkpoint of one configured log was accepted and stored under another log's ID"
          st := r2.st; outs := outs ++ r2.out
      | some (c, nn) =>
        -- C04: returned note
        match iret with
        | .val rb =>
          let wvs := s.signers.map (fun sc => mkVerifier st.vtab false sc.name sc.hash sc.vid)
          match Note.open rb (l.verifier :: wvs) with
          | .error _ =>
            let r := fail st n "C04" "returned checkpoint does not open under the log and witness keys"
            st := r.st; outs := outs ++ r.out
          | .ok rn =>
            if rn.text != nn.text then
              let r := fail st n "C04" "returned note text differs from the submitted text"
              st := r.st; outs := outs ++ r.out
            if !(rn.sigs.any (fun x => x.name == l.verifier.name && x.hash == l.verifier.hash)) then
              let r := fail st n "C04" "returned note lacks the log's verified signature"
              st := r.st; outs := outs ++ r.out
            for sc in s.signers do
              let cnt := (rn.sigs.filter (fun x => x.name == sc.name && x.hash == sc.hash)).length
              let lines := ((Note.sigLines ((B.splitLast rb).map (·.2) |>.getD [])).filterMap Note.parseLine).filter
                (fun pl => pl.name == sc.name && pl.hash == sc.hash)
              if cnt != 1 || lines.length != 1 then
                let r := fail st n "C04" s!"expected exactly one valid signature line by witness key {hx sc.name}, verified={cnt} lines={lines.length}"
                st := r.st; outs := outs ++ r.out
              if sc.kind == "cosigv1" then
                for t in cosigTimes rn sc do
                  if t < t0 || t > t1 then
                    let r := fail st n "C04" s!"cosignature timestamp {t} outside the call window [{t0},{t1}]"
                    st := r.st; outs := outs ++ r.out
          if ipost != .val rb then
            let r := fail st n "C04" "read after accepted update does not return the bytes the update returned"
            st := r.st; outs := outs ++ r.out
        | _ =>
          let r := fail st n "C04" "accepted update returned no checkpoint"
          st := r.st; outs := outs ++ r.out
        -- C01: append-only against everything cosigned before
        let prevs := s.accepted.getD lidS []
        let truth := s.truth.getD lidS []
        for p in prevs do
          if c.size < p.size then
            let r := fail st n "C01" s!"cosigned size went down: {p.size} then {c.size}"
            st := r.st; outs := outs ++ r.out
          else if c.size == p.size && c.hash != p.root then
            let r := fail st n "C01" s!"two cosigned checkpoints of size {c.size} with different roots"
            st := r.st; outs := outs ++ r.out
          else if p.size > 0 then
            -- ground truth: if the new root is the root of a known branch, the older one must be the
            -- root of the same branch's prefix
            let brs := truth.filter (fun t => t.2.1 == c.size && t.2.2 == c.hash)
            let known := truth.any (fun t => t.2.1 == p.size && t.2.2 == p.root)
            if known && !brs.isEmpty then
              let good := brs.any (fun b => truth.any (fun t => t.1 == b.1 && t.2.1 == p.size && t.2.2 == p.root))
              if !good then
                let r := fail st n "C01" s!"cosigned both sides of a split view: size {p.size} and size {c.size} are on different branches"
                st := r.st; outs := outs ++ r.out
        let s' := { s with accepted := s.accepted.insert lidS ({ size := c.size, root := c.hash } :: prevs),
                           lastRet := s.lastRet.insert lidS iret.show }
        st := { st with sess := st.sess.insert sid s' }
  -- C09: independent rule list
  match linfo with
  | none =>
    if ierr != "unknownLog" then
      let r := fail st n "C09" s!"unknown log answered {ierr}"
      st := r.st; outs := outs ++ r.out
  | some l =>
    if faults == "" then
      let stored : Option (Option Cp.Checkpoint) := match pre with
        | .absent => some none
        | .val b => (Wit.parse l b).map (fun x => some x.1)
        | .failed => none
      match stored with
      | none => pure ()
      | some storedCp =>
        let sub := (Wit.parse l cp).map (·.1)
        match Spec.verdict rfcH storedCp old sub proof with
        | none => st := st.bump "c09.outside-claim"
        | some v =>
          st := st.bump s!"c09.rule.{v.name}"
          let excused := (v == .accepted || v == .firstUse) && ierr == "other" &&
            (outF.err == .signFailed || outF.err == .storage)   -- accepting rule, but the cosigned note cannot be produced/stored
          if v.name != ierr && !excused then
            let r := fail st n "C09" s!"first matching rule is {v.name}, witness answered {ierr}"
            st := r.st; outs := outs ++ r.out
          else if v.returnsStored && iret != pre then
            let r := fail st n "C09" s!"refusal {ierr} did not return the stored checkpoint"
            st := r.st; outs := outs ++ r.out
  -- C08: does this probe meet the hypotheses of `C08_honest_accepted_bytes`?  (non-vacuity of the theorem on the
  -- implementation's own inputs; when they hold the model's verdict can only be `none` or a core refusal)
  if probe == "1" then
    match linfo with
    | some l =>
      match Wit.parse l cp with
      | some (_, nn) =>
        let shape := match nn.sigs, nn.unverified with
          | [sg], [] => cp == nn.text ++ [B.nl] ++ Note.sigLine sg.name sg.b64
          | _, _ => false
        let signersOK := match cfgF.signers nn.text with
          | some outs => outs.all (fun o => Note.isValidName o.name && o.sig != [] && decide (o.hash < 2 ^ 32) &&
              Utf8.noteCharsOK o.name && !(l.verifier.name == o.name && l.verifier.hash == o.hash)) && decide (outs.length + 1 ≤ 100)
          | none => false
        if shape && signersOK && faults == "" then
          st := st.bump "c08.theorem.hypotheses-hold"
          if outF.err == .signFailed || outF.err == .noValidSig then
            let r := fail st n "C08" "model contradicts theorem C08_honest_accepted_bytes (impossible)"
            st := r.st; outs := outs ++ r.out
        else st := st.bump "c08.theorem.hypotheses-not-met"
      | none => st := st.bump "c08.theorem.hypotheses-not-met"
    | none => pure ()
  -- C08: honest probe
  if probe == "1" && ierr != "none" then
    let preSize : Option Nat := match pre, linfo with
      | .val b, some l => (Wit.parse l b).map (·.1.size)
      | _, _ => none
    let subSize : Option Nat := linfo.bind (fun l => (Wit.parse l cp).map (·.1.size))
    let r := fail st n "C08" s!"honest update refused err={ierr} stored_size={preSize} submitted_size={subSize} stored_opens={preSize.isSome || pre == .absent}"
    st := r.st; outs := outs ++ r.out
  -- C07: once the errors stop the witness carries on from the last committed state: the fault-free honest step
  -- that follows a faulty update (built by the harness from what a read returns) is accepted
  if probe == "1" && faults == "" && ierr != "none" && ((get "class").getD "").startsWith "fault.continue" then
    let preSize : Option Nat := match pre, linfo with
      | .val b, some l => (Wit.parse l b).map (·.1.size)
      | _, _ => none
    if preSize != some 0 then
      let r := fail st n "C07" s!"after the storage errors stopped an honest update from the committed state (size {preSize}) was refused err={ierr}: the witness does not carry on from the last committed state"
      st := r.st; outs := outs ++ r.out
  -- signer outputs are per call
  match st.sess.get? sid with
  | some s2 => st := { st with sess := st.sess.insert sid { s2 with sg := [] } }
  | none => pure ()
  return { st, out := outs }


end Drv
