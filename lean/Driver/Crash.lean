import Driver.Base
import WitnessVerif.Model.SqlStore
/-
`CR` records: an update on file-backed SQLite killed (SIGKILL) at a driver-event boundary, then the
store reopened by a fresh process.
-/
open Std
namespace Drv

def evOf (s : String) : Option Sql.Ev :=
  match s with
  | "begin" => some .begin | "begin.done" => some .beginDone | "query" => some .query | "query.done" => some .queryDone
  | "next" => some .next | "exec" => some .exec | "exec.done" => some .execDone | "commit" => some .commit
  | "commit.done" => some .commitDone | "rollback" => some .rollback | "rollback.done" => some .rollbackDone
  | _ => none

/-- "STATE:<id>:<hex|->:<opens>" items and one "LOGS:<err>:<ids>" item -/
def parseReopen (s : String) : List (String × String × String) × String :=
  let items := s.splitOn ";"
  let states := items.filterMap (fun it => match it.splitOn ":" with
    | [id, st, op] => some (id, st, op)
    | _ => none)
  let logs := (items.filter (fun it => (it.splitOn ":").length == 2)).headD ""
  (states, logs)

def handleCR (st : St) (n : Nat) (toks : List String) : Result := Id.run do
  let get := field toks
  let kind := (get "kind").getD "?"
  let some killat := (get "killat").bind String.toNat? | return { st, out := [s!"BAD {n} killat"] }
  let some total := (get "total").bind String.toNat? | return { st, out := [s!"BAD {n} total"] }
  let opsS := ((get "ops").getD "").splitOn ","
  let some evs := opsS.mapM evOf | return { st, out := [s!"BAD {n} ops {opsS}"] }
  let acked := (get "acked").getD "0" == "1"
  let killed := (get "killed").getD "0" == "1"
  let some logB := (get "log").bind hexOfString | return { st, out := [s!"BAD {n} log"] }
  let logS := String.fromUTF8! (ByteArray.mk logB.toArray)
  let some submitted := (get "submitted").bind hexOfString | return { st, out := [s!"BAD {n} submitted"] }
  let (before, logsBefore) := parseReopen ((get "before").getD "")
  let (after, logsAfter) := parseReopen ((get "after").getD "")
  let mut st := st.bump (if (get "fault").isSome then s!"crash.{kind}.fault" else s!"crash.{kind}")
  let mut outs : List String := []
  -- model: the script the model expects for an accepting update, and where the kill struck
  -- the prediction uses the events the implementation actually issued (a rewrite may query differently);
  -- what matters is where COMMIT lies relative to the kill, and that an accepting update has exactly one
  let mut ok := true
  if (evs.filter (· == .commit)).length != 1 || !evs.contains .begin then
    ok := false
    outs := outs ++ [s!"DIVERGE {n} CR field=script model=one-transaction-one-commit impl={opsS}"]
  -- `fault=<op>`: that driver operation failed during the update and the process was killed after the call
  -- returned; nothing can have been committed
  let fault := (get "fault").getD ""
  let committed := fault == "" && (evs.take (killat - 1)).contains .commit
  let oldState := ((before.find? (fun p => p.1 == logS)).map (·.2.1)).getD "?"
  let newState := ((after.find? (fun p => p.1 == logS)).map (·.2.1)).getD "?"
  let newText : Option Bytes := (hexOfString newState).bind (fun b => (B.splitLast b).map (·.1))
  let isNew := newText == some submitted && newState != "-" && newState != "!"
  let isOld := newState == oldState
  -- the model's prediction
  if committed && !isNew then
    ok := false
    outs := outs ++ [s!"DIVERGE {n} CR field=state model=new impl={if isOld then "old" else "other"}"]
  if !committed && !(isOld) then
    ok := false
    outs := outs ++ [s!"DIVERGE {n} CR field=state model=old impl={if isNew then "new" else "other"}"]
  if fault == "" && (killat > total) != !killed then
    ok := false
    outs := outs ++ [s!"DIVERGE {n} CR field=killed model={decide (killat ≤ total)} impl={killed}"]
  if ok then
    st := { st with nOK := st.nOK + 1 }
    outs := outs ++ [s!"OK {n}"]
  else st := { st with nDiv := st.nDiv + 1 }
  -- a store written in the released on-disk format is read back by the code under test (restart after an upgrade)
  let legacy := (get "legacy").getD "-"
  if legacy != "-" && oldState != legacy then
    let f := fail st n "C06" s!"a store written in the released format is not read back after restart: the log's checkpoint is {if oldState == "-" then "missing" else "different"} although it was acknowledged before (everything acknowledged is lost to the upgraded witness)"
    st := f.st; outs := outs ++ f.out
  -- monitors (C06), independent of the model's event script
  if !(isOld || isNew) then
    let f := fail st n "C06" s!"{kind} update killed at driver event {killat}/{total}: after reopening, the log holds neither the old nor the new checkpoint ({newState.take 40})"
    st := f.st; outs := outs ++ f.out
  if acked && !isNew then
    let f := fail st n "C06" s!"{kind} update was acknowledged before the kill (event {killat}{if fault == "" then "" else ", after a failed " ++ fault}) but is not in force after reopening"
    st := f.st; outs := outs ++ f.out
  for (id, stt, opens) in after do
    if stt != "-" && opens != "1" then
      let f := fail st n "C06" s!"after the kill at event {killat} the checkpoint of log {id.take 12}… is not a complete, validly cosigned checkpoint"
      st := f.st; outs := outs ++ f.out
    if id != logS && some stt != ((before.find? (fun p => p.1 == id)).map (·.2.1)) then
      let f := fail st n "C06" s!"the kill during an update of one log changed another log's checkpoint"
      st := f.st; outs := outs ++ f.out
  -- every log the store lists has a readable checkpoint (old or new state, nothing in between)
  let listed := ((logsAfter.splitOn ":").getLastD "").splitOn ","
  for l in listed do
    if l != "" then
      match after.find? (fun p => p.1 == l) with
      | some (_, stt, _) =>
        if stt == "-" || stt == "!" then
          let f := fail st n "C06" s!"after the kill at event {killat} the store lists log {l.take 12}… but holds no checkpoint for it"
          st := f.st; outs := outs ++ f.out
      | none => pure ()
  if logsAfter.startsWith "LOGS:true" then
    let f := fail st n "C06" "the log list cannot be read after reopening"
    st := f.st; outs := outs ++ f.out
  let _ := logsBefore
  return { st, out := outs }

end Drv
