import Driver.Base
import WitnessVerif.Model.ProofFmt
import WitnessVerif.Generated.Facts
/-
Records of the bastion endpoint: `HCFG`, `H` (one request through the real handler), `PBW`/`PB`
(`parseBody` alone).
-/
open Std
namespace Drv

def parseStates (s : String) : Option (List (Bytes × Opt)) :=
  if s == "" || s == "-" then some [] else
  (s.splitOn ";").mapM (fun p =>
    match p.splitOn ":" with
    | [id, st] => match hexOfString id, Opt.parse st with
      | some i, some o => some (i, o)
      | _, _ => none
    | _ => none)

def statesShow (l : List (Bytes × Opt)) : String :=
  ";".intercalate (l.map (fun p => hx p.1 ++ ":" ++ p.2.show))

def storeOf (l : List (Bytes × Opt)) : Wit.Store :=
  l.filterMap (fun p => match p.2 with | .val b => some (p.1, b) | _ => none)

def documented : List Nat := [200, 400, 403, 404, 409, 422, 429, 500]

def handleH (st : St) (n : Nat) (toks : List String) : Result := Id.run do
  let some sid := toks[1]? | return { st, out := [s!"BAD {n} no-session"] }
  let some s := st.sess.get? sid | return { st, out := [s!"BAD {n} unknown-session"] }
  let get := field toks
  let some body := (get "body").bind hexOfString | return { st, out := [s!"BAD {n} body"] }
  let some states := (get "states").bind parseStates | return { st, out := [s!"BAD {n} states"] }
  let some post := (get "post").bind parseStates | return { st, out := [s!"BAD {n} post"] }
  -- allow=2: the harness cannot know what the limiter decided (timing); the answer itself tells
  let allowS := (get "allow").getD "1"
  let some istatus := (get "status").bind String.toNat? | return { st, out := [s!"BAD {n} status"] }
  let allow := if allowS == "2" then istatus != 429 else allowS == "1"
  let some ictype := (get "ctype").bind hexOfString | return { st, out := [s!"BAD {n} ctype"] }
  let some irbody := (get "rbody").bind hexOfString | return { st, out := [s!"BAD {n} rbody"] }
  let expect := (get "expect").getD "-"
  let expectBody := (get "expectbody").getD "-"
  let cls := (get "class").getD "?"
  let some (wvIdx, wvVid) := s.hwv | return { st, out := [s!"BAD {n} no-HCFG"] }
  let some wsc := s.signers[wvIdx]? | return { st, out := [s!"BAD {n} wv"] }
  let run (dflt : Bool) : Bastion.Resp × Option Wit.Out :=
    let cfg := mkCfg st s dflt
    let h : Bastion.HCfg := { logs := s.logs.map (fun l => (l.id, l.origin)), witV := mkVerifier st.vtab dflt wsc.name wsc.hash wvVid }
    if (get "e2e").getD "0" == "1" then Bastion.serveConn Facts.maxBodyBytes cfg h (storeOf states) allow body
    else Bastion.serve cfg h (storeOf states) allow body
  let nomodel := (get "nomodel").getD "0" == "1"
  let (rF, oF) := run false
  let (rT, _) := run true
  let mut st := st
  let mut outs : List String := []
  let mut ok := true
  if rF != rT && !nomodel then
    ok := false
    outs := outs ++ [s!"DIVERGE {n} H field=oracle model=needs-unrecorded-verification impl=-"]
  -- nomodel=1: the witness is another process (the production binary); its signatures cannot be reproduced by the
  -- model, so an acceptance shows as 500 (sign failed) in the model: refusals are still compared, acceptances are
  -- judged by the monitors below only
  if rF.status != istatus && !(nomodel && rF.status == 500 && istatus == 200) then
    ok := false
    outs := outs ++ [s!"DIVERGE {n} H field=status model={rF.status} impl={istatus}"]
  -- over a real connection net/http fills in a sniffed Content-Type when the handler set none: only a required one is compared
  if rF.ctype != ictype && !((get "e2e").getD "0" == "1" && rF.ctype.isEmpty) then
    ok := false
    outs := outs ++ [s!"DIVERGE {n} H field=ctype model={hx rF.ctype} impl={hx ictype}"]
  if rF.body != irbody && !(nomodel && istatus == 200) then
    ok := false
    outs := outs ++ [s!"DIVERGE {n} H field=rbody model={hx rF.body} impl={hx irbody}"]
  -- state after the request
  -- state after the request: `Bastion.post`, the step function of the session that `C10_session_is_witness_run`
  -- and `C01_append_only_through_endpoint` are about (behind the connection wiring a body over the cap never
  -- reaches the handler's parser)
  let mstore : Wit.Store :=
    let cfg := mkCfg st s false
    let h : Bastion.HCfg := { logs := s.logs.map (fun l => (l.id, l.origin)), witV := mkVerifier st.vtab false wsc.name wsc.hash wvVid }
    if (get "e2e").getD "0" == "1" && Facts.maxBodyBytes != 0 && body.length > Facts.maxBodyBytes then storeOf states
    else (Bastion.post cfg h (storeOf states) (allow, body)).1
  let mpost : List (Bytes × Opt) := states.map (fun p => match mstore.get p.1 with
    | some v => (p.1, Opt.val v)
    | none => p)
  let _ := oF
  if statesShow mpost != statesShow post && !(nomodel && istatus == 200) then
    ok := false
    outs := outs ++ [s!"DIVERGE {n} H field=post model={statesShow mpost} impl={statesShow post}"]
  if ok then
    st := { st with nOK := st.nOK + 1 }
    outs := outs ++ [s!"OK {n}"]
  else
    st := { st with nDiv := st.nDiv + 1 }
  st := st.bump s!"bastion.status.{istatus}"
  st := st.bump s!"bastion.class.{cls}"
  -- monitors
  if !documented.contains istatus then
    let r := fail st n "C19" (if istatus == 998 then "a request (or the read that follows it) was left unanswered: the endpoint stopped serving" else s!"endpoint answered undocumented status {istatus} (999 = panic)")
    st := r.st; outs := outs ++ r.out
  if istatus == 998 then
    let r := fail st n "C10" s!"class={cls}: the request (or the read that follows it) was left unanswered; every request gets one of the protocol's answers"
    st := r.st; outs := outs ++ r.out
  if expect != "-" && expect != toString istatus then
    let r := fail st n "C10" s!"class={cls} expected status {expect}, endpoint answered {istatus}"
    st := r.st; outs := outs ++ r.out
  if expectBody != "-" && expect == toString istatus then
    if expectBody != hx irbody then
      let r := fail st n "C10" s!"class={cls} status {istatus}: body {hx irbody} is not the witness's current size {expectBody}"
      st := r.st; outs := outs ++ r.out
    if istatus == 409 && ictype != B.ofString "text/x.tlog.size" then
      let r := fail st n "C10" s!"class={cls} stale answer without content type text/x.tlog.size"
      st := r.st; outs := outs ++ r.out
  if istatus == 429 && statesShow states != statesShow post then
    let r := fail st n "C10" "rate-limited request was processed (state changed)"
    st := r.st; outs := outs ++ r.out
  if allowS == "1" && istatus == 429 then
    let r := fail st n "C10" s!"class={cls}: a request within the configured rate (the caller had waited long enough for a token) was answered 429"
    st := r.st; outs := outs ++ r.out
  if !allow && istatus != 429 then
    let r := fail st n "C10" s!"request over the configured rate answered {istatus}, not 429"
    st := r.st; outs := outs ++ r.out
  if istatus == 200 then
    -- accepted: the witness now holds the submitted text; body = cosignature line(s) valid under the
    -- witness key over the submitted text (independent verification recorded by the harness)
    match Bastion.parseBody body with
    | none =>
      let r := fail st n "C10" "200 for a body that does not parse"
      st := r.st; outs := outs ++ r.out
    | some (_, _, cp) =>
      match B.splitLast cp with
      | none =>
        let r := fail st n "C10" "200 for a checkpoint without signature block"
        st := r.st; outs := outs ++ r.out
      | some (text, _) =>
        let id := match B.cut B.nl cp with | some (f, _) => Cp.logID f | none => []
        let held := (post.find? (fun p => p.1 == id)).map (·.2)
        let heldText := match held with
          | some (.val b) => (B.splitLast b).map (·.1)
          | _ => none
        if heldText != some text then
          let r := fail st n "C10" "200 but the witness does not hold the submitted checkpoint text afterwards"
          st := r.st; outs := outs ++ r.out
        let lines := (Note.sigLines irbody).filterMap Note.parseLine
        if lines.isEmpty || lines.length != (Note.sigLines irbody).length then
          let r := fail st n "C10" "200 body is not a sequence of signature lines"
          st := r.st; outs := outs ++ r.out
        for pl in lines do
          let good := s.signers.any (fun sc => sc.name == pl.name && sc.hash == pl.hash &&
            (st.vtab.get? (sc.vid ++ " " ++ hx text ++ " " ++ hx pl.sig)).getD false)
          if !good then
            let r := fail st n "C10" "200 body carries a line that is not a valid witness cosignature over the submitted text"
            st := r.st; outs := outs ++ r.out
  -- C01 through the endpoint: every checkpoint acknowledged with 200 joins the log's cosigned history
  if istatus == 200 then
    match Bastion.reqOf { logs := s.logs.map (fun l => (l.id, l.origin)), witV := mkVerifier st.vtab false wsc.name wsc.hash wvVid } body with
    | some r =>
      match (mkCfg st s false).find r.logID with
      | some l =>
        match Wit.parse l r.next, st.sess.get? sid with
        | some (c, _), some s2 =>
          let lidS := hx r.logID
          let prevs := s2.accepted.getD lidS []
          let truth := s2.truth.getD lidS []
          for p in prevs do
            if c.size < p.size then
              let f := fail st n "C01" s!"cosigned size went down (acknowledged by the bastion endpoint): {p.size} then {c.size}"
              st := f.st; outs := outs ++ f.out
            else if c.size == p.size && c.hash != p.root then
              let f := fail st n "C01" s!"two cosigned checkpoints of size {c.size} with different roots (acknowledged by the bastion endpoint)"
              st := f.st; outs := outs ++ f.out
            else if p.size > 0 then
              let brs := truth.filter (fun t => t.2.1 == c.size && t.2.2 == c.hash)
              let known := truth.any (fun t => t.2.1 == p.size && t.2.2 == p.root)
              if known && !brs.isEmpty then
                if !(brs.any (fun b => truth.any (fun t => t.1 == b.1 && t.2.1 == p.size && t.2.2 == p.root))) then
                  let f := fail st n "C01" s!"cosigned both sides of a split view through the bastion endpoint: size {p.size} and size {c.size} are on different branches"
                  st := f.st; outs := outs ++ f.out
          st := st.bump "c01.endpoint.acknowledged"
          match st.sess.get? sid with
          | some s3 => st := { st with sess := st.sess.insert sid { s3 with accepted := s3.accepted.insert lidS ({ size := c.size, root := c.hash } :: prevs) } }
          | none => pure ()
        | _, _ => pure ()
      | none => pure ()
    | none => pure ()
  match st.sess.get? sid with
  | some s2 => st := { st with sess := st.sess.insert sid { s2 with sg := [] } }
  | none => pure ()
  return { st, out := outs }

def pbShow : Option (Nat × List Bytes × Bytes) → String
  | none => "!"
  | some (o, p, c) => s!"{o}:{if p.isEmpty then "-" else ",".intercalate (p.map hx)}:{hx c}"

def handlePBW (st : St) (n : Nat) (toks : List String) : Result :=
  match field toks "old", field toks "proof", field toks "cp", field toks "body" with
  | some o, some p, some c, some b =>
    let st := { st with lastPBW := some s!"{o}:{p}:{c}" }
    -- the body writer of the model is the one the harness (and cmd/feedbastion) uses
    match o.toNat?, parseList p, hexOfString c with
    | some on, some pl, some cb =>
      if hx (Bastion.writeBody on pl cb) == b then { st, out := [] }
      else { st := { st with nDiv := st.nDiv + 1 }, out := [s!"DIVERGE {n} PB field=writeBody model={(hx (Bastion.writeBody on pl cb)).take 80} impl={b.take 80}"] }
    | _, _, _ => { st, out := [s!"BAD {n} PBW"] }
  | _, _, _, _ => { st, out := [s!"BAD {n} PBW"] }

def handlePB (st : St) (n : Nat) (toks : List String) : Result :=
  match toks with
  | ["PB", body, cls, "=>", impl] =>
    match hexOfString body with
    | some b =>
      let m := pbShow (Bastion.parseBody b)
      let r := cmp ((st.bump s!"pb.{cls}").bump (if impl == "!" then "pb.refused" else "pb.parsed")) n "PB" m impl
      -- C11: a body written from (old, proof, checkpoint) parses back to exactly that
      if cls == "class=written" then
        match st.lastPBW with
        | some exp =>
          if exp != impl then
            let f := fail r.st n "C11" s!"written body does not parse back: wrote {exp.take 200} read {impl.take 200}"
            { st := { f.st with lastPBW := none }, out := r.out ++ f.out }
          else { r with st := { r.st with lastPBW := none } }
        | none => r
      else
        -- C11: whatever is understood has a well-formed old-size line: "old", one space, decimal digits (< 2^64)
        if impl != "!" then
          let first := match B.cut B.nl b with | some (f, _) => f | none => b
          let first := if first.getLast? = some B.cr then first.dropLast else first
          let strict : Bool := match first with
            | 111 :: 108 :: 100 :: 32 :: ds => !ds.isEmpty && ds.all Bastion.isDigit && (Dec.parseUint64 ds).isSome
            | _ => false
          -- the lines after the first, up to the first empty one (CR stripped), must exist and be base64
          let lines := (B.splitOn B.nl b).map (fun l => if l.getLast? = some B.cr then l.dropLast else l)
          let body := lines.drop 1
          let short := lines.all (fun l => l.length < 4095)
          let sepIdx := body.findIdx? (fun l => l.isEmpty)
          let hasSep := match sepIdx with
            | some i => i + 1 < body.length        -- an empty line that is itself terminated by a newline
            | none => false
          let proofOK := match sepIdx with
            | some i => (body.take i).all (fun l => (B64.decode l).isSome)
            | none => true
          if !strict && first.length < 4096 then
            fail r.st n "C11" s!"body with malformed old-size line {hx (first.take 40)} was partly understood as {impl.take 60}" |> fun f => { st := f.st, out := r.out ++ f.out }
          else if short && !hasSep then
            fail r.st n "C11" s!"body that ends before the blank separator was partly understood as {impl.take 60}" |> fun f => { st := f.st, out := r.out ++ f.out }
          else if short && !proofOK then
            fail r.st n "C11" s!"body with a proof line that is not base64 was partly understood as {impl.take 60}" |> fun f => { st := f.st, out := r.out ++ f.out }
          else r
        else r
    | none => { st, out := [s!"BAD {n} PB"] }
  | _ => { st, out := [s!"BAD {n} PB"] }


def listShow (p : Option (List Bytes)) : String :=
  match p with
  | none => "!"
  | some [] => "-"
  | some l => ",".intercalate (l.map hx)

def handlePF (st : St) (n : Nat) (toks : List String) : Result :=
  match toks with
  | ["PFR", proof, "=>", m, u] =>
    match (field [proof] "proof").bind parseList, (field [m] "m").bind hexOfString, field [u] "u" with
    | some p, some mi, some ui =>
      let mm := ProofFmt.marshal p
      let mu := listShow (ProofFmt.unmarshal mi)
      let st := st.bump "pf.roundtrip"
      let r := if mm != mi then
          { st := { st with nDiv := st.nDiv + 1 }, out := [s!"DIVERGE {n} PFR field=marshal model={hx mm} impl={hx mi}"] }
        else cmp st n "PFR" mu ui
      if ui != listShow (some p) then
        let f := fail r.st n "C11" s!"proof of {p.length} hashes does not read back: wrote {(listShow (some p)).take 100} read {ui.take 100}"
        { st := f.st, out := r.out ++ f.out }
      else r
    | _, _, _ => { st, out := [s!"BAD {n} PFR"] }
  | ["PFU", d, "=>", impl] =>
    match hexOfString d with
    | some b => cmp (st.bump "pf.unmarshal") n "PFU" (listShow (ProofFmt.unmarshal b)) impl
    | none => { st, out := [s!"BAD {n} PFU"] }
  | _ => { st, out := [s!"BAD {n} PF"] }

end Drv
