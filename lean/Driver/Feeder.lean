import Driver.Base
import WitnessVerif.Model.Feeder
import WitnessVerif.Model.Omni
/-
`FD` records: one `feeder.FeedOnce` against a scripted (stub or real) witness.
-/
open Std
namespace Drv

def parseAttempt (s : String) : Option Feeder.Attempt :=
  match s.splitOn "/" with
  | [g, p, u] =>
    let g := (g.drop 2).toString; let p := (p.drop 2).toString; let u := (u.drop 2).toString
    let get : Option Feeder.GetRes :=
      if g == "!" then some .err else if g == "-" || g == "_" then some .notExist else (hexOfString g).map .ok
    let proof : Option (Option (List Bytes)) :=
      if p == "!" || p == "_" then some none else (parseList p).map some
    let upd : Option (Option (Option Bytes)) :=
      if u == "!" || u == "_" then some none else if u == "-" then some (some none) else (hexOfString u).map (fun b => some (some b))
    match get, proof, upd with
    | some a, some b, some c => some { get := a, proof := b, update := c }
    | _, _, _ => none
  | _ => none

def callShow (fetched : Bytes) : Feeder.Call → String
  | .get => "G"
  | .fetchProof a b => s!"P:{a}:{b}"
  | .update o cp p => s!"U:{o}:{if cp == fetched then "=" else hx cp}:{if p.isEmpty then "-" else ",".intercalate (p.map hx)}"

def handleFD (st : St) (n : Nat) (toks : List String) : Result := Id.run do
  let get := field toks
  let some origin := (get "origin").bind hexOfString | return { st, out := [s!"BAD {n} origin"] }
  let some vname := (get "vname").bind hexOfString | return { st, out := [s!"BAD {n} vname"] }
  let some vhash := (get "vhash").bind String.toNat? | return { st, out := [s!"BAD {n} vhash"] }
  let some vid := get "vid" | return { st, out := [s!"BAD {n} vid"] }
  let some cp := (get "cp").bind hexOfString | return { st, out := [s!"BAD {n} cp"] }
  let answers := (get "answers").getD ""
  let some script := (if answers == "" then some [] else (answers.splitOn ";").mapM parseAttempt) | return { st, out := [s!"BAD {n} answers"] }
  let icalls := (get "calls").getD ""
  let iresult := (get "result").getD "?"
  let hang := (get "hang").getD "0"
  let run (dflt : Bool) : List Feeder.Call × Option Feeder.Outcome :=
    Feeder.feedOnce { origin := origin, verifier := mkVerifier st.vtab dflt vname vhash vid } (some cp) script
  let (callsF, outF) := run false
  let (callsT, outT) := run true
  let mut st := st
  let mut outs : List String := []
  let mut ok := true
  if callsF != callsT || outF != outT then
    ok := false
    outs := outs ++ [s!"DIVERGE {n} FD field=oracle model=needs-unrecorded-verification impl=-"]
  let mcalls := ";".intercalate (callsF.map (callShow cp))
  let mresult := match outF with
    | some (.done (some b)) => "ok:" ++ hx b
    | some (.done none) => "ok:-"
    | _ => "err"
  if mcalls != icalls then
    ok := false
    outs := outs ++ [s!"DIVERGE {n} FD field=calls model={mcalls.take 300} impl={icalls.take 300}"]
  if mresult != iresult then
    ok := false
    outs := outs ++ [s!"DIVERGE {n} FD field=result model={mresult.take 100} impl={iresult.take 100}"]
  if ok then
    st := { st with nOK := st.nOK + 1 }
    outs := outs ++ [s!"OK {n}"]
  else st := { st with nDiv := st.nDiv + 1 }
  -- the closed loop (Model/Omni.lean: feeder, adapter, witness and store models composed) against the real
  -- assembly, for cycles without injected failures: calls, outcome and the witness's state afterwards
  match toks[1]?.bind (fun sid => (st.sess.get? sid).map (fun s => (sid, s))), (get "pre").bind Opt.parse, (get "post").bind Opt.parse with
  | some (sid, s), some pre, some post =>
    if (get "witness").getD "" == "real" && (get "pattern").getD "" == "." && script.length == 1 then
      let cfg := mkCfg st s false
      match cfg.logs.head? with
      | some l =>
        let store : Wit.Store := match pre with | .val b => [(l.id, b)] | _ => []
        let prove : Nat → Nat → Option (List Bytes) := fun _ _ => (script.head?.bind (·.proof))
        let r := Omni.feedCycle cfg l store cp prove
        let ocalls := ";".intercalate (r.1.1.map (callShow cp))
        let oresult := match r.1.2 with
          | some (.done (some b)) => "ok:" ++ hx b
          | some (.done none) => "ok:-"
          | _ => "err"
        let opost : Opt := match r.2.get l.id with | some b => .val b | none => .absent
        if ocalls != icalls || oresult != iresult || opost.show != post.show then
          st := { st with nDiv := st.nDiv + 1 }
          outs := outs ++ [s!"DIVERGE {n} FD field=closedloop model={ocalls.take 80}|{oresult.take 60}|{opost.show.take 60} impl={icalls.take 80}|{iresult.take 60}|{post.show.take 60}"]
        else st := st.bump "feeder.closedloop.agree"
      | none => pure ()
    st := { st with sess := st.sess.insert sid { s with sg := [] } }
  | _, _, _ => pure ()
  st := st.bump s!"feeder.{(get "witness").getD "?"}.{if iresult == "err" then "err" else "ok"}"
  -- monitors on the implementation's calls alone
  if hang != "0" then
    let r := fail st n "C13" "feed cycle did not stop when its context ended"
    st := r.st; outs := outs ++ r.out
  if (get "late").getD "0" != "0" then
    let r := fail st n "C13" s!"the feeder went on calling the witness / the log after its context was cancelled ({(get "late").getD "?"} calls began afterwards)"
    st := r.st; outs := outs ++ r.out
  let v := mkVerifier st.vtab false vname vhash vid
  let submit := (Cp.parseCheckpoint cp origin v []).map (·.1)
  let calls := if icalls == "" then [] else icalls.splitOn ";"
  if submit.isNone && !calls.isEmpty then
    let r := fail st n "C13" "the witness was asked about a checkpoint that does not verify under the log's key and origin"
    st := r.st; outs := outs ++ r.out
  if calls.any (fun c => c.startsWith "WRONGID") then
    let r := fail st n "C13" "a call named another log ID than the one configured"
    st := r.st; outs := outs ++ r.out
  -- the real witness behind the adapter: "nothing witnessed yet" may be reported only when nothing is stored; a
  -- failed read of the witness's storage is an error, not first use (otherwise the feeder asks for the step 0 -> n)
  if (get "witness").getD "" == "real" then
    let ws := ((get "wsize").getD "0").toInt?.getD 0
    if ws ≥ 0 && script.any (fun a => a.get == .notExist) then
      let r := fail st n "C13" s!"the witness holds a checkpoint of size {ws} but its adapter answered 'no checkpoint yet' (failures {(get "pattern").getD ""}): the feeder is led to ask for an unjustified step from size 0"
      st := r.st; outs := outs ++ r.out
  -- walk the calls attempt by attempt
  let mut att : Nat := 0
  let mut latestSize : Option Nat := none     -- size the witness reported in this attempt
  let mut latestKnown := false
  let mut lastP : Option (Nat × Nat) := none
  let mut lastRet : String := "?"
  for c in calls do
    if c == "G" then
      att := att + 1
      lastP := none
      match script[att - 1]? with
      | some a =>
        match a.get with
        | .ok raw =>
          match Cp.parseCheckpoint raw origin v [] with
          | some (l, _) => latestSize := some l.size; latestKnown := true
          | none => latestSize := none; latestKnown := false
        | .notExist => latestSize := some 0; latestKnown := true
        | .err => latestSize := none; latestKnown := false
      | none => latestSize := none; latestKnown := false
    else if c.startsWith "P:" then
      match c.splitOn ":" with
      | [_, a, b] => lastP := match a.toNat?, b.toNat? with | some x, some y => some (x, y) | _, _ => none
      | _ => pure ()
      match lastP, latestSize, submit with
      | some (f, t), some ls, some sub =>
        if f != ls || t != sub.size then
          let r := fail st n "C13" s!"proof requested for ({f},{t}) but the witness reported size {ls} in this attempt and the submitted size is {sub.size}"
          st := r.st; outs := outs ++ r.out
      | _, _, _ => pure ()
    else if c.startsWith "U:" then
      match c.splitOn ":" with
      | [_, o, cpx, pr] =>
        if cpx != "=" then
          let r := fail st n "C13" "the checkpoint submitted to the witness is not the fetched (verified) one"
          st := r.st; outs := outs ++ r.out
        match o.toNat?, latestSize, submit with
        | some old, some ls, some sub =>
          if !latestKnown || old != ls then
            let r := fail st n "C13" s!"old size {old} passed to the witness, but it reported size {ls} in the same attempt"
            st := r.st; outs := outs ++ r.out
          if ls > sub.size then
            let r := fail st n "C13" s!"submitted although the witness is already ahead ({ls} > {sub.size})"
            st := r.st; outs := outs ++ r.out
          -- the proof sent is the one fetched in this attempt for (latest, submitted), or empty when nothing changed
          match script[att - 1]? with
          | some a =>
            let fetchedP := match a.proof with | some p => (if p.isEmpty then "-" else ",".intercalate (p.map hx)) | none => "?"
            if lastP.isSome && pr != fetchedP then
              let r := fail st n "C13" "the proof submitted is not the proof fetched in the same attempt"
              st := r.st; outs := outs ++ r.out
            if lastP.isNone && pr != "-" then
              let r := fail st n "C13" "a non-empty proof was submitted without having been fetched in this attempt"
              st := r.st; outs := outs ++ r.out
            lastRet := match a.update with | some (some b) => "ok:" ++ hx b | some none => "ok:-" | none => "?"
          | none => pure ()
        | _, _, _ =>
          let r := fail st n "C13" "update issued without a usable latest checkpoint from the witness in the same attempt"
          st := r.st; outs := outs ++ r.out
      | _ => pure ()
  if iresult != "err" && iresult != lastRet then
    let r := fail st n "C13" "success did not return the cosigned checkpoint the witness returned"
    st := r.st; outs := outs ++ r.out
  -- after transient failures that clear, the cycle succeeds (patterns of failures followed by clean answers)
  let pattern := (get "pattern").getD "."
  if (get "cancel").getD "false" == "false" && (get "witness").getD "" == "stub" && submit.isSome && iresult == "err" then
    -- the stub witness never refuses: the only legitimate error is "witness ahead"
    let ahead := script.any (fun a => match a.get with
      | .ok raw => match Cp.parseCheckpoint raw origin v [], submit with
        | some (l, _), some sub => l.size > sub.size
        | _, _ => false
      | _ => false)
    if !ahead then
      let r := fail st n "C13" s!"feed cycle failed although the failures ({pattern}) cleared"
      st := r.st; outs := outs ++ r.out
  -- against the real witness: an honest log that is not behind gets its checkpoint cosigned once failures clear
  let wsize := ((get "wsize").getD "0").toInt?.getD 0
  let lsize := ((get "lsize").getD "0").toInt?.getD 0
  if (get "witness").getD "" == "real" && (get "forked").getD "" == "false" && (get "cancel").getD "false" == "false" &&
      submit.isSome && wsize ≤ lsize && !(wsize == 0 && lsize > 0) && iresult == "err" then
    let r := fail st n "C13" s!"feed cycle against the real witness failed for an honest log (witness size {wsize}, log size {lsize}, failures {pattern})"
    st := r.st; outs := outs ++ r.out
  return { st, out := outs }

end Drv
