import Driver.Base
import WitnessVerif.Model.Distributor
/-
`DS` records: one `DistributeOnce` against a stub witness and a stub distributor service.
-/
open Std
namespace Drv

def sha8 (b : Bytes) : String := hx ((Sha.sha256 b).take 8)

def handleDS (st : St) (n : Nat) (toks : List String) : Result := Id.run do
  let get := field toks
  let some wname := (get "wname").bind hexOfString | return { st, out := [s!"BAD {n} wname"] }
  let some wvhash := (get "wvhash").bind String.toNat? | return { st, out := [s!"BAD {n} wvhash"] }
  let some wvid := get "wvid" | return { st, out := [s!"BAD {n} wvid"] }
  let logsS := ((get "logs").getD "").splitOn ";"
  let wansS := ((get "wans").getD "").splitOn ";"
  let dansS := ((get "dans").getD "").splitOn ";"
  let iputs := (get "puts").getD ""
  let iredirs := ((get "redirs").getD "").splitOn ";"
  let ierr := (get "err").getD "?"
  let parseLog (s : String) : Option (Bytes × Bytes × Bytes × Nat × String) :=
    match s.splitOn ":" with
    | [id, origin, vname, vhash, vid] =>
      match hexOfString id, hexOfString origin, hexOfString vname, vhash.toNat? with
      | some a, some b, some c, some d => some (a, b, c, d, vid)
      | _, _, _, _ => none
    | _ => none
  let some logs := logsS.mapM parseLog | return { st, out := [s!"BAD {n} logs"] }
  let some wans := wansS.mapM (fun s => if s == "!" then some none else (hexOfString s).map some) | return { st, out := [s!"BAD {n} wans"] }
  let ansOf (k : String) : Dist.DistAns :=
    if k == "200" || k == "redir307" then .status 200
    else if k == "201" then .status 201 else if k == "404" then .status 404 else if k == "500" then .status 500
    else if k == "503then200" || k == "503retryafter" then .status 503 else if k == "502then200" then .status 502
    else if k == "429retryafter" then .status 429
    else if k == "redir302" then .methodChanged else .transportErr
  let run (dflt : Bool) : List (Option Dist.Put) × Nat :=
    let witV := mkVerifier st.vtab dflt wname wvhash wvid
    let idx := List.range logs.length
    let rs := idx.map (fun i =>
      match logs[i]?, wans[i]?, dansS[i]? with
      | some (id, origin, vname, vhash, vid), some w, some d =>
        Dist.distributeForLog { id := id, origin := origin, verifier := mkVerifier st.vtab dflt vname vhash vid } witV w (ansOf d)
      | _, _, _ => (none, false))
    (rs.map (·.1), (rs.filter (fun r => !r.2)).length)
  let (putsF, errsF) := run false
  let (putsT, errsT) := run true
  let mut st := st
  let mut outs : List String := []
  let mut ok := true
  if putsF != putsT || errsF != errsT then
    ok := false
    outs := outs ++ [s!"DIVERGE {n} DS field=oracle model=needs-unrecorded-verification impl=-"]
  let mputs := ";".intercalate (putsF.map (fun p => match p with
    | none => "-"
    | some p => s!"{hx p.path}:PUT:{sha8 p.body}"))
  -- only whether an error is reported is compared: its wording is not part of any property
  let ierr := if ierr == "-" then "-" else "error"
  let merr := if errsF == 0 then "-" else "error"
  if mputs != iputs then
    ok := false
    outs := outs ++ [s!"DIVERGE {n} DS field=puts model={mputs.take 400} impl={iputs.take 400}"]
  if merr != ierr then
    ok := false
    outs := outs ++ [s!"DIVERGE {n} DS field=err model={merr} impl={ierr}"]
  if ok then
    st := { st with nOK := st.nOK + 1 }
    outs := outs ++ [s!"OK {n}"]
  else st := { st with nDiv := st.nDiv + 1 }
  -- monitors on the implementation's behaviour alone
  if (get "hang").getD "0" != "0" then
    let r := fail st n "C19" "distributor cycle did not end"
    st := r.st; outs := outs ++ r.out
  if (get "extra").getD "0" != "0" then
    let r := fail st n "C15" "a request was sent to a path that names no configured log / witness"
    st := r.st; outs := outs ++ r.out
  let witV := mkVerifier st.vtab false wname wvhash wvid
  let iputL := iputs.splitOn ";"
  let mut expFail := 0
  for i in List.range logs.length do
    match logs[i]?, wans[i]?, dansS[i]?, iputL[i]? with
    | some (id, origin, vname, vhash, vid), some w, some d, some ip =>
      st := st.bump s!"dist.dans.{d}"
      let lv := mkVerifier st.vtab false vname vhash vid
      -- independent statement of validity: opens under log key + origin and carries a valid signature by the witness key
      let valid : Bool := match w with
        | none => false
        | some raw => match Cp.parseCheckpoint raw origin lv [witV] with
          | some (_, nn) => nn.sigs.any (fun s => s.name == wname && s.hash == wvhash)
          | none => false
      st := st.bump (if valid then "dist.wans.valid" else "dist.wans.invalid")
      if ip != "-" then
        if !valid then
          let r := fail st n "C15" s!"log {i}: a checkpoint that does not verify under the log's key/origin and the witness key was pushed"
          st := r.st; outs := outs ++ r.out
        match w with
        | some raw =>
          let expPath := Dist.putPath (Cp.logID origin) wname
          if id != Cp.logID origin then
            let r := fail st n "C12" s!"log {i}: configured ID is not the ID of its origin"
            st := r.st; outs := outs ++ r.out
          -- every request that reached the path (a client may have sent more than one) carries exactly these bytes
          let reqs := ((ip.drop ((hx expPath).length + 1)).toString).splitOn "+"
          if !ip.startsWith (hx expPath ++ ":") || reqs.any (fun r => r != s!"PUT:{sha8 raw}") then
            let r := fail st n "C15" s!"log {i}: a request that is not a PUT of exactly the witness's bytes was sent to the path naming the log ID and the witness name ({reqs.length} request(s) seen)"
            st := r.st; outs := outs ++ r.out
          if d == "redir307" && iredirs[i]? != some s!"PUT:{sha8 raw}" then
            let r := fail st n "C15" s!"log {i}: after a 307 redirect the target did not receive the raw witness bytes by PUT"
            st := r.st; outs := outs ++ r.out
        | none => pure ()
      else if valid then
        let r := fail st n "C15" s!"log {i}: a valid witnessed checkpoint was not pushed (failure of another log must not stop this one)"
        st := r.st; outs := outs ++ r.out
      if !(valid && (d == "200" || d == "redir307")) then expFail := expFail + 1
    | _, _, _, _ => pure ()
  let expErr := if expFail == 0 then "-" else "error"
  if (if ierr == "-" then "-" else "error") != expErr then
    let r := fail st n "C15" s!"overall result ({if ierr == "-" then "no error" else "an error"}) does not report the failures ({expFail} of {logs.length} logs failed)"
    st := r.st; outs := outs ++ r.out
  return { st, out := outs }

end Drv
