import Std.Data.HashMap
import WitnessVerif.Model.Witness
import WitnessVerif.Spec.Rules
/-
wdrv: replays a trace written by the Go harness through the model, line by line.
Every checked record is answered by `OK n`, `DIVERGE n kind field model=.. impl=..` or
`PROPFAIL n Cxx what`; `STAT` lines carry the histogram of what was covered.
-/
open Std

namespace Drv

def hexOfString (s : String) : Option Bytes :=
  if s == "." then some [] else B.ofHex s.toUTF8.toList

def hx (b : Bytes) : String :=
  if b.isEmpty then "." else String.fromUTF8! (ByteArray.mk (B.toHex b).toArray)

/-- `-` absent, `!` error, otherwise hex bytes -/
inductive Opt | absent | failed | val (b : Bytes)
deriving DecidableEq

def Opt.parse (s : String) : Option Opt :=
  if s == "-" then some .absent else if s == "!" then some .failed else (hexOfString s).map .val

def Opt.show : Opt → String
  | .absent => "-" | .failed => "!" | .val b => hx b

def optShow : Option Bytes → String
  | none => "-" | some b => hx b

def parseList (s : String) : Option (List Bytes) :=
  if s == "-" then some [] else (s.splitOn ",").mapM hexOfString

structure LogCfg where
  id : Bytes
  origin : Bytes
  vname : Bytes
  vhash : Nat
  vid : String

structure SignerCfg where
  name : Bytes
  hash : Nat
  vid : String       -- id of the independent verifier used by the harness for this key
  kind : String      -- ed25519 | cosigv1

structure Accepted where
  size : Nat
  root : Bytes

structure Sess where
  store : String := "mem"
  logs : List LogCfg := []
  signers : List SignerCfg := []
  sg : List (Nat × Bytes × Bytes) := []          -- pending signer outputs (idx, msg, sig)
  accepted : HashMap String (List Accepted) := {} -- per log, newest first
  truth : HashMap String (List (String × Nat × Bytes)) := {} -- per log: (branch, size, root)
  expCtr : HashMap String Wit.Ctr := {}           -- counters predicted from impl verdicts

structure St where
  sess : HashMap String Sess := {}
  vtab : HashMap String Bool := {}                -- "vid msg sig" -> verdict of the real verifier
  stats : HashMap String Nat := {}
  nOK : Nat := 0
  nDiv : Nat := 0
  nFail : Nat := 0

def St.bump (st : St) (k : String) : St := { st with stats := st.stats.insert k (st.stats.getD k 0 + 1) }

def errName : Wit.Err → String
  | .none => "none" | .unknownLog => "unknownLog" | .noValidSig => "noValidSig"
  | .oldSizeInvalid => "oldSizeInvalid" | .stale => "stale" | .rootMismatch => "rootMismatch"
  | .invalidProof => "invalidProof" | .storage => "other"
  | .storedUnparseable => "other" | .signFailed => "other"

def errDetail : Wit.Err → String
  | .storage => "storage" | .storedUnparseable => "storedUnparseable"
  | .signFailed => "signFailed" | e => errName e

def rfcH (l r : Bytes) : Bytes := Sha.sha256 ((1 : UInt8) :: (l ++ r))

def mkVerifier (vtab : HashMap String Bool) (dflt : Bool) (name : Bytes) (hash : Nat) (vid : String) : Note.Verifier :=
  { name := name, hash := hash,
    verify := fun msg sig => (vtab.get? (vid ++ " " ++ hx msg ++ " " ++ hx sig)).getD dflt }

def mkCfg (st : St) (s : Sess) (dflt : Bool) : Wit.Cfg :=
  { logs := s.logs.map (fun l => { id := l.id, origin := l.origin, verifier := mkVerifier st.vtab dflt l.vname l.vhash l.vid }),
    H := rfcH,
    signers := fun text =>
      (List.range s.signers.length).mapM (fun i =>
        match s.signers[i]?, s.sg.find? (fun e => e.1 == i && e.2.1 == text) with
        | some sc, some e => some { name := sc.name, hash := sc.hash, sig := e.2.2 }
        | _, _ => none) }

def kv (tok : String) : String × String :=
  match tok.splitOn "=" with
  | k :: rest => (k, "=".intercalate rest)
  | [] => (tok, "")

def field (toks : List String) (k : String) : Option String :=
  (toks.map kv).find? (fun p => p.1 == k) |>.map (·.2)

def ctrShow (c : Wit.Ctr) : String :=
  s!"{c.attempt},{c.success},{c.invalidConsistency},{c.inconsistent}"

def ctrAdd (a b : Wit.Ctr) : Wit.Ctr :=
  ⟨a.attempt + b.attempt, a.success + b.success, a.invalidConsistency + b.invalidConsistency, a.inconsistent + b.inconsistent⟩

/-- timestamps of cosignature/v1 lines by signer `sc` in a note -/
def cosigTimes (n : Note.Note) (sc : SignerCfg) : List Nat :=
  (n.sigs ++ n.unverified).filterMap (fun s =>
    if s.name == sc.name && s.hash == sc.hash then
      match B64.decode s.b64 with
      | some raw => if raw.length == 4 + 8 + 64 then some (B.beDecode ((raw.drop 4).take 8)) else none
      | none => none
    else none)

structure Result where
  st : St
  out : List String

def fail (st : St) (n : Nat) (prop what : String) : Result :=
  { st := { st with nFail := st.nFail + 1 }, out := [s!"PROPFAIL {n} {prop} {what}"] }

/-- handle a `U` record: witness update -/
def handleU (st : St) (n : Nat) (toks : List String) : Result := Id.run do
  let some sid := toks[1]? | return { st, out := [s!"BAD {n} no-session"] }
  let some s := st.sess.get? sid | return { st, out := [s!"BAD {n} unknown-session"] }
  let get := field toks
  let some logID := (get "log").bind hexOfString | return { st, out := [s!"BAD {n} log"] }
  let some old := (get "old").bind String.toNat? | return { st, out := [s!"BAD {n} old"] }
  let some cp := (get "cp").bind hexOfString | return { st, out := [s!"BAD {n} cp"] }
  let some proof := (get "proof").bind parseList | return { st, out := [s!"BAD {n} proof"] }
  let some pre := (get "pre").bind Opt.parse | return { st, out := [s!"BAD {n} pre"] }
  let some iret := (get "ret").bind Opt.parse | return { st, out := [s!"BAD {n} ret"] }
  let some ipost := (get "post").bind Opt.parse | return { st, out := [s!"BAD {n} post"] }
  let ierr := (get "err").getD "?"
  let ictr := (get "ctr").getD "?"
  let faults := (get "faults").getD ""
  let probe := (get "probe").getD "0"
  let allpre := (get "allpre").getD ""
  let allpost := (get "allpost").getD ""
  let tw := ((get "tw").getD "0,0").splitOn ","
  let t0 := (tw[0]?.bind String.toNat?).getD 0
  let t1 := (tw[1]?.bind String.toNat?).getD 0
  let env : Wit.Env := {
    writeOpsErr := faults.contains 'W'
    prev := if faults.contains 'R' then .readErr else match pre with
      | .absent => .notFound | .failed => .readErr | .val b => .found b
    setErr := faults.contains 'S' }
  let cfgF := mkCfg st s false
  let cfgT := mkCfg st s true
  let outF := Wit.update cfgF env logID old cp proof
  let outT := Wit.update cfgT env logID old cp proof
  let mut st := st
  let mut outs : List String := []
  let mut ok := true
  -- model vs implementation
  if outF != outT then
    ok := false
    outs := outs ++ [s!"DIVERGE {n} U field=oracle model=needs-unrecorded-verification impl=-"]
  let mpost : Opt := match outF.set, outF.err with
    | some v, .none => .val v
    | _, _ => pre
  if errName outF.err != ierr then
    ok := false
    outs := outs ++ [s!"DIVERGE {n} U field=err model={errDetail outF.err} impl={ierr}"]
  if optShow outF.ret != iret.show then
    ok := false
    outs := outs ++ [s!"DIVERGE {n} U field=ret model={optShow outF.ret} impl={iret.show}"]
  if faults == "" && mpost.show != ipost.show then
    ok := false
    outs := outs ++ [s!"DIVERGE {n} U field=post model={mpost.show} impl={ipost.show}"]
  if ictr != "?" && ctrShow outF.ctr != ictr then
    ok := false
    outs := outs ++ [s!"DIVERGE {n} U field=ctr model={ctrShow outF.ctr} impl={ictr}"]
  if ok then
    st := { st with nOK := st.nOK + 1 }
    outs := outs ++ [s!"OK {n}"]
  else
    st := { st with nDiv := st.nDiv + 1 }
  st := st.bump s!"verdict.{errDetail outF.err}"
  st := st.bump s!"store.{s.store}"
  -- monitors, on the implementation's outputs only
  let lidS := hx logID
  let linfo := cfgF.find logID
  -- C20: counters implied by the implementation's own verdict
  if ictr != "?" then
    let exp : Wit.Ctr :=
      { attempt := if ierr == "unknownLog" then 0 else 1
        success := if ierr == "none" then 1 else 0
        invalidConsistency := if ierr == "invalidProof" then 1 else 0
        inconsistent := if ierr == "rootMismatch" then 1 else 0 }
    if ctrShow exp != ictr then
      let r := fail st n "C20" s!"counters moved {ictr} for verdict {ierr}, expected {ctrShow exp}"
      st := r.st; outs := outs ++ r.out
  -- C03: refusal leaves everything unchanged and returns nothing or the stored checkpoint
  if ierr != "none" then
    if allpre != allpost then
      let r := fail st n "C03" s!"state changed by refused update ({ierr})"
      st := r.st; outs := outs ++ r.out
    if faults == "" && ipost.show != pre.show then
      let r := fail st n "C03" s!"stored checkpoint changed by refused update ({ierr})"
      st := r.st; outs := outs ++ r.out
    match iret with
    | .val b =>
      if Opt.val b != pre then
        let r := fail st n "C03" s!"refusal ({ierr}) returned bytes that are not the stored checkpoint"
        st := r.st; outs := outs ++ r.out
    | _ => pure ()
  -- C02: accepted implies authentic
  if ierr == "none" then
    match linfo with
    | none =>
      let r := fail st n "C02" "update accepted for an unknown log id"
      st := r.st; outs := outs ++ r.out
    | some l =>
      match Wit.parse l cp with
      | none =>
        let r := fail st n "C02" "accepted a checkpoint that does not authenticate under the log's key and origin"
        st := r.st; outs := outs ++ r.out
      | some (c, nn) =>
        -- C04: returned note
        match iret with
        | .val rb =>
          let wvs := s.signers.map (fun sc => mkVerifier st.vtab false sc.name sc.hash sc.vid)
          match Note.open rb (l.verifier :: wvs) with
          | .error _ =>
            let r := fail st n "C04" "returned checkpoint does not open under the log and witness keys"
            st := r.st; outs := outs ++ r.out
          | .ok rn =>
            if rn.text != nn.text then
              let r := fail st n "C04" "returned note text differs from the submitted text"
              st := r.st; outs := outs ++ r.out
            if !(rn.sigs.any (fun x => x.name == l.verifier.name && x.hash == l.verifier.hash)) then
              let r := fail st n "C04" "returned note lacks the log's verified signature"
              st := r.st; outs := outs ++ r.out
            for sc in s.signers do
              let cnt := (rn.sigs.filter (fun x => x.name == sc.name && x.hash == sc.hash)).length
              let lines := ((Note.sigLines ((B.splitLast rb).map (·.2) |>.getD [])).filterMap Note.parseLine).filter
                (fun pl => pl.name == sc.name && pl.hash == sc.hash)
              if cnt != 1 || lines.length != 1 then
                let r := fail st n "C04" s!"expected exactly one valid signature line by witness key {hx sc.name}, verified={cnt} lines={lines.length}"
                st := r.st; outs := outs ++ r.out
              if sc.kind == "cosigv1" then
                for t in cosigTimes rn sc do
                  if t < t0 || t > t1 then
                    let r := fail st n "C04" s!"cosignature timestamp {t} outside the call window [{t0},{t1}]"
                    st := r.st; outs := outs ++ r.out
          if faults == "" && ipost != .val rb then
            let r := fail st n "C04" "read after accepted update does not return the bytes the update returned"
            st := r.st; outs := outs ++ r.out
        | _ =>
          let r := fail st n "C04" "accepted update returned no checkpoint"
          st := r.st; outs := outs ++ r.out
        -- C01: append-only against everything cosigned before
        let prevs := s.accepted.getD lidS []
        let truth := s.truth.getD lidS []
        for p in prevs do
          if c.size < p.size then
            let r := fail st n "C01" s!"cosigned size went down: {p.size} then {c.size}"
            st := r.st; outs := outs ++ r.out
          else if c.size == p.size && c.hash != p.root then
            let r := fail st n "C01" s!"two cosigned checkpoints of size {c.size} with different roots"
            st := r.st; outs := outs ++ r.out
          else if p.size > 0 then
            -- ground truth: if the new root is the root of a known branch, the older one must be the
            -- root of the same branch's prefix
            let brs := truth.filter (fun t => t.2.1 == c.size && t.2.2 == c.hash)
            let known := truth.any (fun t => t.2.1 == p.size && t.2.2 == p.root)
            if known && !brs.isEmpty then
              let good := brs.any (fun b => truth.any (fun t => t.1 == b.1 && t.2.1 == p.size && t.2.2 == p.root))
              if !good then
                let r := fail st n "C01" s!"cosigned both sides of a split view: size {p.size} and size {c.size} are on different branches"
                st := r.st; outs := outs ++ r.out
        let s' := { s with accepted := s.accepted.insert lidS ({ size := c.size, root := c.hash } :: prevs) }
        st := { st with sess := st.sess.insert sid s' }
  -- C09: independent rule list
  match linfo with
  | none =>
    if ierr != "unknownLog" then
      let r := fail st n "C09" s!"unknown log answered {ierr}"
      st := r.st; outs := outs ++ r.out
  | some l =>
    if faults == "" then
      let stored : Option (Option Cp.Checkpoint) := match pre with
        | .absent => some none
        | .val b => (Wit.parse l b).map (fun x => some x.1)
        | .failed => none
      match stored with
      | none => pure ()
      | some storedCp =>
        let sub := (Wit.parse l cp).map (·.1)
        match Spec.verdict rfcH storedCp old sub proof with
        | none => st := st.bump "c09.outside-claim"
        | some v =>
          st := st.bump s!"c09.rule.{v.name}"
          if v.name != ierr then
            let r := fail st n "C09" s!"first matching rule is {v.name}, witness answered {ierr}"
            st := r.st; outs := outs ++ r.out
          else if v.returnsStored && iret != pre then
            let r := fail st n "C09" s!"refusal {ierr} did not return the stored checkpoint"
            st := r.st; outs := outs ++ r.out
  -- C08: honest probe
  if probe == "1" && ierr != "none" then
    let preSize : Option Nat := match pre, linfo with
      | .val b, some l => (Wit.parse l b).map (·.1.size)
      | _, _ => none
    let subSize : Option Nat := linfo.bind (fun l => (Wit.parse l cp).map (·.1.size))
    let r := fail st n "C08" s!"honest update refused err={ierr} stored_size={preSize} submitted_size={subSize} stored_opens={preSize.isSome || pre == .absent}"
    st := r.st; outs := outs ++ r.out
  -- signer outputs are per call
  match st.sess.get? sid with
  | some s2 => st := { st with sess := st.sess.insert sid { s2 with sg := [] } }
  | none => pure ()
  return { st, out := outs }

def cmp (st : St) (n : Nat) (kind : String) (model impl : String) : Result :=
  if model == impl then { st := { st with nOK := st.nOK + 1 }, out := [s!"OK {n}"] }
  else { st := { st with nDiv := st.nDiv + 1 }, out := [s!"DIVERGE {n} {kind} field=out model={model} impl={impl}"] }

def natOpt : Option Nat → String
  | none => "!" | some n => toString n

def bytesOpt : Option Bytes → String
  | none => "!" | some b => hx b

def handle (st : St) (n : Nat) (line : String) : Result := Id.run do
  let toks := (line.splitOn " ").filter (· != "")
  match toks with
  | [] => return { st, out := [] }
  | "#" :: _ => return { st, out := [] }
  | ["CFG", sid, store] =>
    return { st := { st with sess := st.sess.insert sid { store := store } }, out := [] }
  | ["LOG", sid, id, origin, vname, vhash, vid] =>
    match st.sess.get? sid, hexOfString id, hexOfString origin, hexOfString vname, vhash.toNat? with
    | some s, some id, some origin, some vname, some vhash =>
      let s := { s with logs := s.logs ++ [{ id, origin, vname, vhash, vid }] }
      return { st := { st with sess := st.sess.insert sid s }, out := [] }
    | _, _, _, _, _ => return { st, out := [s!"BAD {n} LOG"] }
  | ["SGN", sid, name, hash, vid, kind] =>
    match st.sess.get? sid, hexOfString name, hash.toNat? with
    | some s, some name, some hash =>
      let s := { s with signers := s.signers ++ [{ name, hash, vid, kind }] }
      return { st := { st with sess := st.sess.insert sid s }, out := [] }
    | _, _, _ => return { st, out := [s!"BAD {n} SGN"] }
  | ["V", vid, msg, sig, res] =>
    return { st := { st with vtab := st.vtab.insert (vid ++ " " ++ msg ++ " " ++ sig) (res == "1") }, out := [] }
  | ["SG", sid, idx, msg, sig] =>
    match st.sess.get? sid, idx.toNat?, hexOfString msg, hexOfString sig with
    | some s, some i, some m, some g =>
      return { st := { st with sess := st.sess.insert sid { s with sg := (i, m, g) :: s.sg } }, out := [] }
    | _, _, _, _ => return { st, out := [s!"BAD {n} SG"] }
  | ["TRUTH", sid, id, branch, size, root] =>
    match st.sess.get? sid, size.toNat?, hexOfString root with
    | some s, some sz, some r =>
      let s := { s with truth := s.truth.insert id ((branch, sz, r) :: s.truth.getD id []) }
      return { st := { st with sess := st.sess.insert sid s }, out := [] }
    | _, _, _ => return { st, out := [s!"BAD {n} TRUTH"] }
  | "U" :: _ => return handleU st n toks
  | ["END", sid] => return { st := { st with sess := st.sess.erase sid }, out := [] }
  -- stdlib / dependency pieces, compared one by one
  | ["B64D", inp, "=>", impl] =>
    match hexOfString inp with
    | some b => return cmp (st.bump "lib.b64d") n "B64D" (bytesOpt (B64.decode b)) impl
    | none => return { st, out := [s!"BAD {n} B64D"] }
  | ["B64E", inp, "=>", impl] =>
    match hexOfString inp with
    | some b => return cmp (st.bump "lib.b64e") n "B64E" (hx (B64.encode b)) impl
    | none => return { st, out := [s!"BAD {n} B64E"] }
  | ["PUINT", inp, "=>", impl] =>
    match hexOfString inp with
    | some b => return cmp (st.bump "lib.puint") n "PUINT" (natOpt (Dec.parseUint64 b)) impl
    | none => return { st, out := [s!"BAD {n} PUINT"] }
  | ["FMTD", inp, "=>", impl] =>
    match inp.toNat? with
    | some v => return cmp (st.bump "lib.fmtd") n "FMTD" (hx (Dec.print v)) impl
    | none => return { st, out := [s!"BAD {n} FMTD"] }
  | ["SHA", inp, "=>", impl] =>
    match hexOfString inp with
    | some b => return cmp (st.bump "lib.sha") n "SHA" (hx (Sha.sha256 b)) impl
    | none => return { st, out := [s!"BAD {n} SHA"] }
  | ["LOGID", inp, "=>", impl] =>
    match hexOfString inp with
    | some b => return cmp (st.bump "lib.logid") n "LOGID" (hx (Cp.logID b)) impl
    | none => return { st, out := [s!"BAD {n} LOGID"] }
  | ["VALIDNAME", inp, "=>", impl] =>
    match hexOfString inp with
    | some b => return cmp (st.bump "lib.validname") n "VALIDNAME" (if Note.isValidName b then "1" else "0") impl
    | none => return { st, out := [s!"BAD {n} VALIDNAME"] }
  | ["NOTECHARS", inp, "=>", impl] =>
    match hexOfString inp with
    | some b => return cmp (st.bump "lib.notechars") n "NOTECHARS" (if Utf8.noteCharsOK b then "1" else "0") impl
    | none => return { st, out := [s!"BAD {n} NOTECHARS"] }
  | ["CPUNM", inp, "=>", impl] =>
    match hexOfString inp with
    | some b =>
      let m := match Cp.unmarshal b with
        | none => "!"
        | some c => s!"{hx c.origin}:{c.size}:{hx c.hash}"
      return cmp (st.bump "lib.cpunm") n "CPUNM" m impl
    | none => return { st, out := [s!"BAD {n} CPUNM"] }
  | ["VC", s1, s2, proof, r1, r2, "=>", impl] =>
    match s1.toNat?, s2.toNat?, parseList proof, hexOfString r1, hexOfString r2 with
    | some a, some b, some p, some x, some y =>
      let m := if G.verifyConsistency rfcH a b p x y then "1" else "0"
      -- independent recursive verifier as a second opinion (C09)
      let spec := if Spec.consistent rfcH a b p x y then "1" else "0"
      let r := cmp (st.bump "lib.vc") n "VC" m impl
      if spec != impl && a > 0 then
        let f := fail r.st n "C09" s!"VerifyConsistency({a},{b}) = {impl} but the recursive RFC 6962 verifier says {spec}"
        return { st := f.st, out := r.out ++ f.out }
      else return r
    | _, _, _, _, _ => return { st, out := [s!"BAD {n} VC"] }
  | _ => return { st, out := [s!"BAD {n} unknown-record {toks.head!}"] }

partial def loop (h : IO.FS.Stream) (st : St) (n : Nat) : IO St := do
  let line ← h.getLine
  if line.isEmpty then return st
  let line := (line.dropEndWhile (fun c => c == '\n' || c == '\r')).toString
  let r := handle st n line
  for o in r.out do IO.println o
  loop h r.st (n + 1)

end Drv

def main (args : List String) : IO UInt32 := do
  let stdin ← IO.getStdin
  let h ← match args with
    | [path] => do
      let hd ← IO.FS.Handle.mk path .read
      pure (IO.FS.Stream.ofHandle hd)
    | _ => pure stdin
  let st ← Drv.loop h {} 1
  for (k, v) in st.stats.toList do
    IO.println s!"STAT {k}={v}"
  IO.println s!"SUMMARY ok={st.nOK} diverge={st.nDiv} propfail={st.nFail}"
  return 0
