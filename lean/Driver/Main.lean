import Driver.Witness
import Driver.Bastion
import Driver.Conc
import Driver.Feeder
import Driver.Dist
import Driver.Config
import Driver.Api
import Driver.Tiles
import Driver.Crash
open Std
namespace Drv

def handle (st : St) (n : Nat) (line : String) : Result := Id.run do
  let toks := (line.splitOn " ").filter (· != "")
  match toks with
  | [] => return { st, out := [] }
  | "#" :: _ => return { st, out := [] }
  | ["CFG", sid, store] =>
    return { st := { st with sess := st.sess.insert sid { store := store } }, out := [] }
  | ["LOG", sid, id, origin, vname, vhash, vid] =>
    match st.sess.get? sid, hexOfString id, hexOfString origin, hexOfString vname, vhash.toNat? with
    | some s, some id, some origin, some vname, some vhash =>
      let s := { s with logs := s.logs ++ [{ id, origin, vname, vhash, vid }] }
      return { st := { st with sess := st.sess.insert sid s }, out := [] }
    | _, _, _, _, _ => return { st, out := [s!"BAD {n} LOG"] }
  | ["SGN", sid, name, hash, vid, kind] =>
    match st.sess.get? sid, hexOfString name, hash.toNat? with
    | some s, some name, some hash =>
      let s := { s with signers := s.signers ++ [{ name, hash, vid, kind }] }
      return { st := { st with sess := st.sess.insert sid s }, out := [] }
    | _, _, _ => return { st, out := [s!"BAD {n} SGN"] }
  | ["V", vid, msg, sig, res] =>
    return { st := { st with vtab := st.vtab.insert (vid ++ " " ++ msg ++ " " ++ sig) (res == "1") }, out := [] }
  | ["SG", sid, idx, msg, sig] =>
    match st.sess.get? sid, idx.toNat?, hexOfString msg, hexOfString sig with
    | some s, some i, some m, some g =>
      return { st := { st with sess := st.sess.insert sid { s with sg := (i, m, g) :: s.sg } }, out := [] }
    | _, _, _, _ => return { st, out := [s!"BAD {n} SG"] }
  | ["TRUTH", sid, id, branch, size, root] =>
    match st.sess.get? sid, size.toNat?, hexOfString root with
    | some s, some sz, some r =>
      let s := { s with truth := s.truth.insert id ((branch, sz, r) :: s.truth.getD id []) }
      return { st := { st with sess := st.sess.insert sid s }, out := [] }
    | _, _, _ => return { st, out := [s!"BAD {n} TRUTH"] }
  | "U" :: _ => return handleU st n toks
  | "H" :: _ => return handleH st n toks
  | "FD" :: _ => return handleFD st n toks
  | "DS" :: _ => return handleDS st n toks
  | "A" :: _ => return handleA st n toks
  | "TP" :: _ => return handleTP st n toks
  | "TF" :: _ => return handleTF st n toks
  | "TL" :: _ => return handleTL st n toks
  | "CR" :: _ => return handleCR st n toks
  | "OM" :: rest =>
    let g := field rest
    let want := (g "want").getD "?"; let wantroot := (g "wantroot").getD "?"
    let served := (g "served").getD "!"; let root := (g "root").getD "!"; let valid := (g "valid").getD "0"
    let st := st.bump s!"omni.{(g "store").getD "?"}.{(g "log").getD "?"}"
    if want == served && wantroot == root && valid == "1" then return { st := { st with nOK := st.nOK + 1 }, out := [s!"OK {n}"] }
    else
      let f := fail st n "C14" s!"{(g "store").getD "?"} step {(g "step").getD "?"}: log {(g "log").getD "?"} published size {want} but the omniwitness serves size {served} (cosigned-valid={valid}) after the allowed poll intervals"
      if (g "step").getD "" == "0" && served == "0" then
        let f2 := fail f.st n "C17" s!"configured log {(g "log").getD "?"} has a feeder type but is never fed after start-up: the feeder list and the witness map do not describe the same logs"
        return { st := f2.st, out := f.out ++ f2.out }
      return f
  | "BIN" :: rest =>
    let g := field rest
    let phase := (g "phase").getD "?"
    let msg := ((g "msg").bind hexOfString).map (fun b => String.fromUTF8! (ByteArray.mk b.toArray)) |>.getD ""
    let st := st.bump s!"binary.{phase}"
    if (g "ok").getD "0" == "1" then return { st := { st with nOK := st.nOK + 1 }, out := [s!"OK {n}"] }
    else if phase == "restart" then
      return fail st n "C06" s!"production binary, SIGKILL and restart on the same database file: {msg.take 160}"
    else
      let f := fail st n "C10" s!"production binary ({phase}): {msg.take 200}"
      let f2 := fail f.st n "C06" s!"production binary ({phase}): {msg.take 200}"
      return { st := f2.st, out := f.out ++ f2.out }
  | "BINM" :: rest =>
    let g := field rest
    let st := st.bump "binary.metrics-page"
    if (g "unanswered").getD "0" != "0" then
      return { st := { (st.bump "binary.metrics-page.not-judged") with nOK := st.nOK + 1 }, out := [s!"OK {n}"] }
    else if (g "page_attempts").getD "?" == "-1" then
      return fail st n "C20" "production binary: the /metrics page configured with --metrics_listen cannot be read"
    else if (g "attempts").getD "a" != (g "page_attempts").getD "b" || (g "successes").getD "a" != (g "page_successes").getD "b" then
      return fail st n "C20" s!"production binary: its /metrics page shows {(g "page_attempts").getD "?"} update requests and {(g "page_successes").getD "?"} successes for a log for which {(g "attempts").getD "?"} requests reached Update and {(g "successes").getD "?"} were answered 200"
    else return { st := { st with nOK := st.nOK + 1 }, out := [s!"OK {n}"] }
  | "BINK" :: rest =>
    -- informational: whether the kill found the binary inside a commit (rollback journal on disk)
    let g := field rest
    return { st := { (st.bump s!"binary.kill-in-commit.journal={(g "journal").getD "?"}") with nOK := st.nOK + 1 }, out := [s!"OK {n}"] }
  | "BINP" :: rest =>
    let g := field rest
    let st := st.bump s!"binary.polled.{(g "phase").getD "?"}"
    if (g "want").getD "?" == (g "served").getD "!" && (g "valid").getD "0" == "1" then return { st := { st with nOK := st.nOK + 1 }, out := [s!"OK {n}"] }
    else
      let f := fail st n "C14" s!"production binary ({(g "phase").getD "?"}): the polled log published size {(g "want").getD "?"} but the binary serves size {(g "served").getD "?"} (cosigned-valid={(g "valid").getD "0"}) after 10 s of 50 ms polls"
      if ((g "phase").getD "").startsWith "after-restart" then
        let f2 := fail f.st n "C06" "production binary: the polled log's acknowledged checkpoint is not served after SIGKILL and restart"
        return { st := f2.st, out := f.out ++ f2.out }
      return f
  | "BIND" :: rest =>
    let g := field rest
    let st := st.bump "binary.distributed"
    if (g "pushed").getD "0" == "1" then return { st := { st with nOK := st.nOK + 1 }, out := [s!"OK {n}"] }
    else return fail st n "C14" s!"production binary: with --rest_distro_url set, the witnessed checkpoint of the polled log never arrived (verifiable, at /distributor/v0/logs/<id>/byWitness/<name>/checkpoint) at the distributor ({(g "puts").getD "0"} PUTs seen)"
  | "BINC" :: rest =>
    let g := field rest
    let st := st.bump "binary.served"
    if (g "valid").getD "0" == "1" then return { st := { st with nOK := st.nOK + 1 }, out := [s!"OK {n}"] }
    else return fail st n "C04" "production binary: the served checkpoint does not open under the log's key and exactly one valid signature by each of the two witness keys main() configures (legacy Ed25519 and cosignature/v1)"
  | "FBW" :: rest =>
    let g := field rest
    if (g "bodies").getD "-1" == "-1" then
      return fail (st.bump "feedbastion.writer") n "C11" "the repository's own writer of the body format (cmd/feedbastion) could not be run: its bodies are not checked"
    else return { st := { (st.bump "feedbastion.writer") with nOK := st.nOK + 1 }, out := [s!"OK {n}"] }
  | "OMS" :: rest =>
    let g := field rest
    let msg := ((g "err").bind hexOfString).map (fun b => String.fromUTF8! (ByteArray.mk b.toArray)) |>.getD "?"
    if (g "alive").getD "0" != "1" then
      return fail (st.bump "config.main-start") n "C17" s!"omniwitness.Main does not start on the configuration compiled into the binary: {msg.take 200}"
    else return { st := { (st.bump "config.main-start") with nOK := st.nOK + 1 }, out := [s!"OK {n}"] }
  | "UB" :: sid :: rest =>
    let g := field rest
    match st.sess.get? sid, (g "log").bind hexOfString, (g "cp").bind hexOfString with
    | some s, some lid, some cp =>
      let cfg := mkCfg st s false
      let authentic := match cfg.find lid with
        | some l => (Wit.parse l cp).isSome
        | none => false
      let st := st.bump "burst.forged"
      if !authentic && (g "accepted").getD "0" != "0" then
        return fail st n "C02" s!"{(g "accepted").getD "?"} of {(g "clients").getD "?"} simultaneous submissions of one checkpoint that does not authenticate under the log's key were accepted"
      else return { st := { st with nOK := st.nOK + 1 }, out := [s!"OK {n}"] }
    | _, _, _ => return { st, out := [s!"BAD {n} UB"] }
  | "BP" :: rest =>
    let g := field rest
    let st := st.bump s!"bastionproc.{(g "phase").getD "?"}"
    if (g "panics").getD "0" != "0" then
      return fail st n "C19" s!"the add-checkpoint handler (Prometheus counters, as in production) panicked on {(g "panics").getD "?"} of {(g "requests").getD "?"} requests ({(g "phase").getD "?"}: unknown origins of awkward shapes / many at once)"
    else if (g "unexpected").getD "0" != "0" then
      return fail st n "C19" s!"requests naming unknown origins were answered with an undocumented status ({(g "unexpected").getD "?"} of {(g "requests").getD "?"})"
    else return { st := { st with nOK := st.nOK + 1 }, out := [s!"OK {n}"] }
  | "BPX" :: rest =>
    let g := field rest
    let msg := ((g "msg").bind hexOfString).map (fun b => String.fromUTF8! (ByteArray.mk b.toArray)) |>.getD "?"
    if (g "died").getD "0" != "0" then
      return fail st n "C19" s!"the process serving the add-checkpoint endpoint died under client traffic: {msg.take 160}"
    else return { st := { st with nOK := st.nOK + 1 }, out := [s!"OK {n}"] }
  | "RACE" :: rest =>
    let g := field rest
    let rep := ((g "first").bind hexOfString).map (fun b => String.fromUTF8! (ByteArray.mk b.toArray)) |>.getD "?"
    let where_ := ((rep.splitOn "\n").filter (fun l => (l.splitOn "transparency-dev/witness").length > 1 && (l.splitOn "zzverif").length == 1)).take 3
    return fail (st.bump "race.reports") n "C05" s!"the Go race detector reported {(g "reports").getD "?"} data race(s) while concurrent requests ran on one Witness: {" | ".intercalate (where_.map (fun l => l.trimAscii.toString))}"
  | "OMR" :: rest =>
    let g := field rest
    let st := st.bump s!"omni.requests.{(g "log").getD "?"}"
    let first := ((g "first").bind hexOfString).map (fun b => String.fromUTF8! (ByteArray.mk b.toArray)) |>.getD "?"
    if (g "malformed").getD "0" != "0" then
      return fail st n "C14" s!"{(g "store").getD "?"}: the {(g "log").getD "?"} feeder sent {(g "malformed").getD "?"} request(s) its log server cannot serve (not a path of the log's format, or beside the log's root), first: {first.take 80}"
    else if (g "requests").getD "0" == "0" then
      return fail st n "C14" s!"{(g "store").getD "?"}: the configured {(g "log").getD "?"} log was never polled"
    else return { st := { st with nOK := st.nOK + 1 }, out := [s!"OK {n}"] }
  | "OMD" :: rest =>
    let g := field rest
    let st := st.bump "omni.distributor"
    let mut st := st
    let mut outs : List String := []
    if (g "pushonly_asked").getD "0" != "1" then
      let f := fail st n "C17" s!"{(g "store").getD "?"}: a configured log with Feeder none (not last in the file) is missing from the log list handed to the distributor: the witness map and the feeder/distributor list do not describe the same logs"
      st := f.st; outs := outs ++ f.out
    if (g "fed_logs_pushed").getD "0" != (g "of").getD "?" then
      let f := fail st n "C17" s!"{(g "store").getD "?"}: only {(g "fed_logs_pushed").getD "?"} of {(g "of").getD "?"} fed logs were pushed to the distributor"
      st := f.st; outs := outs ++ f.out
    if outs.isEmpty then return { st := { st with nOK := st.nOK + 1 }, out := [s!"OK {n}"] }
    else return { st, out := outs }
  | "UC" :: rest =>
    let g := field rest
    let st := st.bump s!"cancel.{(g "store").getD "?"}.{(g "kind").getD "?"}"
    if (g "refused").getD "0" == "1" && (g "allpre").getD "a" != (g "allafter").getD "b" then
      return fail st n "C03" s!"{(g "kind").getD "?"} update on {(g "store").getD "?"}: refused when the caller's context ended (parked before {(g "at").getD "?"}), but the witness's state changed afterwards: the refused update went on and committed"
    else return { st := { st with nOK := st.nOK + 1 }, out := [s!"OK {n}"] }
  | "E2E" :: rest =>
    let g := field rest
    let st := st.bump "bastion.e2e.connect"
    if (g "connect").getD "0" != "1" then
      let msg := ((g "err").bind hexOfString).map (fun b => String.fromUTF8! (ByteArray.mk b.toArray)) |>.getD "?"
      return fail st n "C10" s!"the witness did not establish its reverse connection to the bastion: {msg.take 120}"
    else if (g "tls13").getD "0" != "1" || (g "alpn").getD "" != hx (B.ofString "bastion/0") then
      return fail st n "C10" "the reverse connection is not TLS 1.3 with ALPN bastion/0"
    else return { st := { st with nOK := st.nOK + 1 }, out := [s!"OK {n}"] }
  | "OMX" :: rest =>
    let g := field rest
    let msg := ((g "err").bind hexOfString).map (fun b => String.fromUTF8! (ByteArray.mk b.toArray)) |>.getD "?"
    let st := st.bump "omni.stopped"
    if (g "exited").getD "0" == "1" then
      if (g "phase").getD "" == "startup" then
        let f := fail st n "C17" s!"omniwitness.Main stopped at start-up with the configured logs ({(g "store").getD "?"}): {msg.take 160}"
        let f2 := fail f.st n "C14" s!"omniwitness.Main stopped at start-up: no log is followed ({msg.take 120})"
        return { st := f2.st, out := f.out ++ f2.out }
      else
        let f := fail st n "C19" s!"omniwitness.Main returned while serving ({(g "store").getD "?"} {(g "phase").getD "?"}): what a log server answered made the process stop: {msg.take 140}"
        let f2 := fail f.st n "C14" s!"omniwitness.Main returned while serving ({(g "phase").getD "?"}): no log is followed any more ({msg.take 100})"
        return { st := f2.st, out := f.out ++ f2.out }
    else
      return fail st n "C14" s!"{(g "store").getD "?"} {(g "phase").getD "?"}: the service stopped answering GET checkpoint ({(g "unanswered").getD "?"} requests timed out): it no longer follows or serves any log"
  | "HF" :: rest =>
    let g := field rest
    let res := (g "res").getD "?"
    let st := st.bump s!"hostile.{(g "feeder").getD "?"}.{res}"
    if res == "ok" || res == "err" then return { st := { st with nOK := st.nOK + 1 }, out := [s!"OK {n}"] }
    else return fail st n "C19" s!"{(g "feeder").getD "?"} feeder, log answering {(g "case").getD "?"}: the feed cycle ended with {res} instead of a result or an error"
  | "OMF" :: rest =>
    let g := field rest
    let w := (g "witnessed").getD "?"; let s := (g "served").getD "!"
    let st := st.bump "omni.fork"
    if w == s && (g "valid").getD "0" == "1" then return { st := { st with nOK := st.nOK + 1 }, out := [s!"OK {n}"] }
    else
      return fail st n "C14" s!"{(g "store").getD "?"} {(g "phase").getD "?"}: the log served a history that is not an extension, and the served checkpoint left the witnessed history ({w.take 40} -> {s.take 40})"
  | ["TREE", _, leaves] =>
    match parseList leaves with
    | some l => return { st := { st with treeLeaves := l }, out := [] }
    | none => return { st, out := [s!"BAD {n} TREE"] }
  | "ISO" :: rest =>
    let m := (field rest "merged").getD "?"
    let a := (field rest "alone").getD "!"
    if m == a then return { st := { (st.bump "iso.logs") with nOK := st.nOK + 1 }, out := [s!"OK {n}"] }
    else
      let f := fail { st with nDiv := st.nDiv + 1 } n "C12" s!"a log's outcomes/state differ between the interleaved run and its history alone: merged={m.take 150} alone={a.take 150}"
      return { st := f.st, out := [s!"DIVERGE {n} ISO field=out model={a.take 100} impl={m.take 100}"] ++ f.out }
  | "CF" :: _ => return handleCF st n toks
  | "CFM" :: _ => return handleCFM st n toks
  | "CA" :: _ => return handleCA st n toks
  | "LR" :: sid :: _ => return { st := { st with lreqs := st.lreqs.push (sid, toks) }, out := [] }
  | "LIN" :: sid :: _ =>
    let mine := st.lreqs.filter (fun p => p.1 == sid)
    let st := { st with lreqs := st.lreqs.filter (fun p => p.1 != sid) }
    match mine.toList.mapM (fun p => parseLR p.2) with
    | some rs => return handleLIN st n toks rs.toArray
    | none => return { st, out := [s!"BAD {n} LR"] }
  | "PB" :: _ => return handlePB st n toks
  | "PBW" :: _ => return handlePBW st n toks
  | "PFR" :: _ => return handlePF st n toks
  | "PFU" :: _ => return handlePF st n toks
  | "HCFG" :: sid :: rest =>
    match st.sess.get? sid, (field rest "wv").bind String.toNat?, field rest "vid" with
    | some s, some i, some vid =>
      return { st := { st with sess := st.sess.insert sid { s with hwv := some (i, vid) } }, out := [] }
    | _, _, _ => return { st, out := [s!"BAD {n} HCFG"] }
  | ["END", sid] => return { st := { st with sess := st.sess.erase sid }, out := [] }
  -- stdlib / dependency pieces, compared one by one
  | ["B64D", inp, "=>", impl] =>
    match hexOfString inp with
    | some b => return cmp (st.bump "lib.b64d") n "B64D" (bytesOpt (B64.decode b)) impl
    | none => return { st, out := [s!"BAD {n} B64D"] }
  | ["B64E", inp, "=>", impl] =>
    match hexOfString inp with
    | some b => return cmp (st.bump "lib.b64e") n "B64E" (hx (B64.encode b)) impl
    | none => return { st, out := [s!"BAD {n} B64E"] }
  | ["PUINT", inp, "=>", impl] =>
    match hexOfString inp with
    | some b => return cmp (st.bump "lib.puint") n "PUINT" (natOpt (Dec.parseUint64 b)) impl
    | none => return { st, out := [s!"BAD {n} PUINT"] }
  | ["FMTD", inp, "=>", impl] =>
    match inp.toNat? with
    | some v => return cmp (st.bump "lib.fmtd") n "FMTD" (hx (Dec.print v)) impl
    | none => return { st, out := [s!"BAD {n} FMTD"] }
  | ["SHA", inp, "=>", impl] =>
    match hexOfString inp with
    | some b => return cmp (st.bump "lib.sha") n "SHA" (hx (Sha.sha256 b)) impl
    | none => return { st, out := [s!"BAD {n} SHA"] }
  | ["LOGID", inp, "=>", impl] =>
    match hexOfString inp with
    | some b => return cmp (st.bump "lib.logid") n "LOGID" (hx (Cp.logID b)) impl
    | none => return { st, out := [s!"BAD {n} LOGID"] }
  | ["VALIDNAME", inp, "=>", impl] =>
    match hexOfString inp with
    | some b => return cmp (st.bump "lib.validname") n "VALIDNAME" (if Note.isValidName b then "1" else "0") impl
    | none => return { st, out := [s!"BAD {n} VALIDNAME"] }
  | ["NOTECHARS", inp, "=>", impl] =>
    match hexOfString inp with
    | some b => return cmp (st.bump "lib.notechars") n "NOTECHARS" (if Utf8.noteCharsOK b then "1" else "0") impl
    | none => return { st, out := [s!"BAD {n} NOTECHARS"] }
  | ["CPUNM", inp, "=>", impl] =>
    match hexOfString inp with
    | some b =>
      let m := match Cp.unmarshal b with
        | none => "!"
        | some c => s!"{hx c.origin}:{c.size}:{hx c.hash}"
      return cmp (st.bump "lib.cpunm") n "CPUNM" m impl
    | none => return { st, out := [s!"BAD {n} CPUNM"] }
  | ["VC", s1, s2, proof, r1, r2, "=>", impl] =>
    match s1.toNat?, s2.toNat?, parseList proof, hexOfString r1, hexOfString r2 with
    | some a, some b, some p, some x, some y =>
      let m := if G.verifyConsistency rfcH a b p x y then "1" else "0"
      -- independent recursive verifier as a second opinion (C09)
      let spec := if Spec.consistent rfcH a b p x y then "1" else "0"
      let r := cmp (st.bump "lib.vc") n "VC" m impl
      if spec != impl && a > 0 then
        let f := fail r.st n "C09" s!"VerifyConsistency({a},{b}) = {impl} but the recursive RFC 6962 verifier says {spec}"
        return { st := f.st, out := r.out ++ f.out }
      else return r
    | _, _, _, _, _ => return { st, out := [s!"BAD {n} VC"] }
  | _ => return { st, out := [s!"BAD {n} unknown-record {toks.head!}"] }

partial def loop (h : IO.FS.Stream) (st : St) (n : Nat) : IO St := do
  let line ← h.getLine
  if line.isEmpty then return st
  let line := (line.dropEndWhile (fun c => c == '\n' || c == '\r')).toString
  let r := handle st n line
  for o in r.out do IO.println o
  loop h r.st (n + 1)

end Drv

def main (args : List String) : IO UInt32 := do
  let stdin ← IO.getStdin
  let h ← match args with
    | [path] => do
      let hd ← IO.FS.Handle.mk path .read
      pure (IO.FS.Stream.ofHandle hd)
    | _ => pure stdin
  let st ← Drv.loop h {} 1
  for (k, v) in st.stats.toList do
    IO.println s!"STAT {k}={v}"
  IO.println s!"SUMMARY ok={st.nOK} diverge={st.nDiv} propfail={st.nFail}"
  return 0
