import Driver.Bastion
import WitnessVerif.Model.HttpApi
/-
`A` records: the read API through the registered mux handlers and the bundled client.
-/
open Std
namespace Drv

def handleA (st : St) (n : Nat) (toks : List String) : Result := Id.run do
  let get := field toks
  let some states := (get "states").bind parseStates | return { st, out := [s!"BAD {n} states"] }
  let store := storeOf states
  let kind := (get "kind").getD "?"
  let faults := (get "faults").getD ""
  let readFails := faults.contains 'g' || faults.contains 'r'
  let logsFails := faults.contains 'L'
  let mut st := st
  let mut outs : List String := []
  if kind == "get" then
    let some id := (get "id").bind hexOfString | return { st, out := [s!"BAD {n} id"] }
    let some istatus := (get "status").bind String.toNat? | return { st, out := [s!"BAD {n} status"] }
    let some ibody := (get "body").bind hexOfString | return { st, out := [s!"BAD {n} body"] }
    let iclient := (get "client").getD "?"
    -- the harness puts the id into a URL: what reaches the router is the id up to '?' / '#', percent-decoded;
    -- ids that are not a single clean path segment never match the route
    let clean := id.all (fun c => c != 47 && c != 37 && c != 63 && c != 35) && id != B.ofString "." && id != B.ofString ".."
    -- the code the injected read error carries (rcode=; only with fault g): plain errors and codes the switch of
    -- `httpForCode` does not name are `other`
    let rcode := (get "rcode").getD "plain"
    let code : Api.Code := match rcode with
      | "NotFound" => .notFound | "AlreadyExists" => .alreadyExists | "FailedPrecondition" => .failedPrecondition
      | "InvalidArgument" => .invalidArgument | "Unauthenticated" => .unauthenticated | _ => .other
    let r := if clean then Api.getCheckpointE (if readFails then some code else none) store id else { status := 404, body := [] }
    let mclient := match Api.client r with
      | .bytes b => "ok:" ++ hx b | .notExist => "notexist" | .err => "err"
    let mut ok := true
    let tolerant := !clean      -- url/router details of odd ids are not modelled: only the monitor applies
    if !tolerant && (r.status != istatus || r.body != ibody) then
      ok := false
      outs := outs ++ [s!"DIVERGE {n} A field=get model={r.status}:{(hx r.body).take 40} impl={istatus}:{(hx ibody).take 40}"]
    if !tolerant && iclient != "skip" && mclient != iclient then
      ok := false
      outs := outs ++ [s!"DIVERGE {n} A field=client model={mclient.take 60} impl={iclient.take 60}"]
    if ok then
      st := { st with nOK := st.nOK + 1 }
      outs := outs ++ [s!"OK {n}"]
    else st := { st with nDiv := st.nDiv + 1 }
    st := st.bump s!"api.get.{istatus}"
    -- C16 monitors
    let held := store.get id
    if readFails then
      st := st.bump s!"api.readerr.{rcode}"
      -- a failing read: an error status is the only truthful answer for a routed ID; 200 must still be the stored bytes
      if clean && Api.routeMatch id && istatus == 404 && code != .notFound then
        let f := fail st n "C16" "a failing storage read was served as 404 'no checkpoint' (the client turns that into the does-not-exist signal feeders act on)"
        st := f.st; outs := outs ++ f.out
      if istatus == 200 && held != some ibody then
        let f := fail st n "C16" "GET returned 200 with bytes that are not the stored checkpoint of that log (during a failing read)"
        st := f.st; outs := outs ++ f.out
      if clean && Api.routeMatch id && iclient == "notexist" && code != .notFound then
        let f := fail st n "C16" "the bundled client reported 'does not exist' although the witness's storage read failed"
        st := f.st; outs := outs ++ f.out
      return { st, out := outs }
    if istatus == 200 then
      match held with
      | some b =>
        if ibody != b then
          let f := fail st n "C16" "GET returned 200 with bytes that are not the stored checkpoint of that log"
          st := f.st; outs := outs ++ f.out
      | none =>
        let f := fail st n "C16" s!"GET returned 200 for an ID the witness holds no checkpoint for ({hx (id.take 20)}…): another log's checkpoint or an invented one"
        st := f.st; outs := outs ++ f.out
    else if istatus != 404 then
      let f := fail st n "C16" s!"GET answered {istatus}, neither 200 nor 404"
      st := f.st; outs := outs ++ f.out
    else if clean && Api.routeMatch id && held.isSome then
      let f := fail st n "C16" "GET returned 404 although the witness holds a checkpoint for this log"
      st := f.st; outs := outs ++ f.out
    -- the latest cosigned checkpoint is what the last accepted update returned
    match (st.sess.get? ((toks[1]?).getD "")).bind (fun ss => ss.lastRet.get? (hx id)) with
    | some last =>
      if istatus != 200 || hx ibody != last then
        let f := fail st n "C16" "GET does not serve the bytes the last accepted update for this log returned"
        st := f.st; outs := outs ++ f.out
        let f := fail st n "C04" "HTTP GET of the latest checkpoint does not return exactly the bytes the last accepted update returned"
        st := f.st; outs := outs ++ f.out
    | none => pure ()
    match held, clean && Api.routeMatch id with
    | some b, true =>
      if iclient != "skip" && iclient != "ok:" ++ hx b then
        let f := fail st n "C16" "the bundled client did not return exactly the stored bytes"
        st := f.st; outs := outs ++ f.out
    | _, _ =>
      if iclient != "skip" && iclient != "notexist" && istatus == 404 then
        let f := fail st n "C16" s!"the bundled client did not map 404 to 'does not exist' ({iclient.take 30})"
        st := f.st; outs := outs ++ f.out
  else if kind == "racedget" then
    let acc := (get "accepted").getD "-"
    let ibody := (get "body").getD "?"
    st := st.bump "api.racedget"
    if acc != "-" && ibody != acc then
      let f := fail st n "C16" s!"a GET issued after an accepted update had returned was not served that update's checkpoint (another read of the same log was still in flight{if (get "late").getD "0" == "1" then "; the GET was answered only when that read finished" else ""})"
      st := f.st; outs := outs ++ f.out
    else
      st := { st with nOK := st.nOK + 1 }
      outs := [s!"OK {n}"]
  else if kind == "down" then
    let ic := (get "client").getD "?"
    st := st.bump s!"api.down.{ic.take 5}"
    if ic != "err" then
      let f := fail st n "C16" s!"with the witness unreachable the bundled client did not report an error ({ic.take 20}): feeders rely on telling 'does not exist' and the bytes apart from a failure"
      st := f.st; outs := outs ++ f.out
    else
      st := { st with nOK := st.nOK + 1 }
      outs := [s!"OK {n}"]
  else if kind == "cget" then
    -- a conditional GET with a validator the service handed out earlier together with the bytes `learned`
    let some id := (get "id").bind hexOfString | return { st, out := [s!"BAD {n} id"] }
    let some istatus := (get "status").bind String.toNat? | return { st, out := [s!"BAD {n} status"] }
    let some ibody := (get "body").bind hexOfString | return { st, out := [s!"BAD {n} body"] }
    let some learned := (get "learned").bind hexOfString | return { st, out := [s!"BAD {n} learned"] }
    st := st.bump s!"api.cget.{istatus}"
    let held := store.get id
    if istatus == 304 then
      if held != some learned then
        let f := fail st n "C16" "a revalidating GET was answered 304 Not Modified although the stored checkpoint is no longer the one the validator was handed out with: the client keeps a superseded checkpoint"
        st := f.st; outs := outs ++ f.out
    else if istatus == 200 then
      if held != some ibody then
        let f := fail st n "C16" "conditional GET returned 200 with bytes that are not the stored checkpoint"
        st := f.st; outs := outs ++ f.out
    else if held.isSome then
      let f := fail st n "C16" s!"conditional GET for a log with a stored checkpoint answered {istatus}"
      st := f.st; outs := outs ++ f.out
    if outs.isEmpty then
      st := { st with nOK := st.nOK + 1 }
      outs := [s!"OK {n}"]
  else
    let ilist := (get "list").getD "?"
    let some istatus := (get "status").bind String.toNat? | return { st, out := [s!"BAD {n} status"] }
    let (mstatus, mids) := Api.getLogsF logsFails store
    let ids := mids.map hx
    let mlist := if ids.isEmpty then "-" else ",".intercalate (ids.toArray.qsort (· < ·)).toList
    st := st.bump s!"api.logs.{istatus}"
    if mstatus != istatus then
      st := { st with nDiv := st.nDiv + 1 }
      outs := outs ++ [s!"DIVERGE {n} A field=logs model={mstatus} impl={istatus}"]
      if istatus == 200 then
        let truth := (Api.getLogs store).map hx
        let tl := if truth.isEmpty then "-" else ",".intercalate (truth.toArray.qsort (· < ·)).toList
        if tl != ilist then
          let f := fail st n "C16" "the log list was answered 200 with something other than the set of logs with an accepted update (storage listing failed)"
          st := f.st; outs := outs ++ f.out
    else if istatus != 200 then
      st := { st with nOK := st.nOK + 1 }
      outs := outs ++ [s!"OK {n}"]
    else if mlist != ilist then
      st := { st with nDiv := st.nDiv + 1 }
      outs := outs ++ [s!"DIVERGE {n} A field=logs model={mlist.take 100} impl={ilist.take 100}"]
      let f := fail st n "C16" "the log list is not exactly the set of logs with an accepted update"
      st := f.st; outs := outs ++ f.out
    else
      st := { st with nOK := st.nOK + 1 }
      outs := outs ++ [s!"OK {n}"]
  return { st, out := outs }

end Drv
