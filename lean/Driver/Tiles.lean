import Driver.Base
import WitnessVerif.Model.Tile
import WitnessVerif.Model.Tlog
import WitnessVerif.Generated.Facts
/-
Tile records: `TP` (path of a tile index), `TREE` (leaf hashes of the stub log), `TF` (one SumDB feed
cycle: requested paths and the submitted proof).
-/
open Std
namespace Drv

def handleTP (st : St) (n : Nat) (toks : List String) : Result :=
  match toks with
  | ["TP", off, ref, "=>", impl] =>
    match off.toNat?, (field [ref] "ref") with
    | some o, some r =>
      let m := hx (Tile.tilePath Facts.pathBase o)
      let res := cmp (st.bump "tiles.path") n "TP" m impl
      if impl != r then
        let f := fail res.st n "C18" s!"tile index {o}: the client requests path {impl} but the reference tlog implementation assigns {r}"
        { st := f.st, out := res.out ++ f.out }
      else res
    | _, _ => { st, out := [s!"BAD {n} TP"] }
  | _ => { st, out := [s!"BAD {n} TP"] }

def handleTF (st : St) (n : Nat) (toks : List String) : Result := Id.run do
  let get := field toks
  let some from_ := (get "from").bind String.toNat? | return { st, out := [s!"BAD {n} from"] }
  let some to := (get "to").bind String.toNat? | return { st, out := [s!"BAD {n} to"] }
  let ierr := (get "err").getD "?"
  let paths := (get "paths").getD ""
  let refpaths := (get "refpaths").getD ""
  let submitted := (get "submitted").getD "-"
  let own := (get "own").getD "-"
  let ref := (get "ref").getD "-"
  let some root1 := (get "root1").bind hexOfString | return { st, out := [s!"BAD {n} root1"] }
  let some root2 := (get "root2").bind hexOfString | return { st, out := [s!"BAD {n} root2"] }
  let mut st := st.bump "tiles.feed"
  let mut outs : List String := []
  -- model: the RFC 6962 proof over the leaf hashes of the TREE record
  let leaves := st.treeLeaves.take to
  let mproof := M.rfcProof rfcH (Sha.sha256 []) from_ leaves
  let mshow := if mproof.isEmpty then "-" else ",".intercalate (mproof.map hx)
  let subProof := match submitted.splitOn ":" with
    | [_, _, _, p] => p
    | _ => "?"
  let subOld := match submitted.splitOn ":" with
    | [_, o, _, _] => o
    | _ => "?"
  let mut ok := true
  if ierr != "-" || subProof != mshow then
    ok := false
    outs := outs ++ [s!"DIVERGE {n} TF field=proof model={mshow.take 140} impl={ierr}:{subProof.take 140}"]
  -- model of tlog.ProveTree over the same leaves against the library's own answer
  let mtlog := match Tlog.proveTree rfcH (Sha.sha256 []) st.treeLeaves to from_ with
    | some p => if p.isEmpty then "-" else ",".intercalate (p.map hx)
    | none => "!"
  if mtlog != ref then
    ok := false
    outs := outs ++ [s!"DIVERGE {n} TF field=tlog model={mtlog.take 140} impl={ref.take 140}"]
  if paths != refpaths then
    ok := false
    outs := outs ++ [s!"DIVERGE {n} TF field=paths model={refpaths.take 200} impl={paths.take 200}"]
  if ok then
    st := { st with nOK := st.nOK + 1 }
    outs := outs ++ [s!"OK {n}"]
  else st := { st with nDiv := st.nDiv + 1 }
  -- monitors: reference paths, independent verifiers
  if paths != refpaths then
    let f := fail st n "C18" s!"sizes {from_}->{to}: the feeder did not request exactly the tiles the reference implementation reads"
    st := f.st; outs := outs ++ f.out
  if ierr != "-" then
    let f := fail st n "C18" s!"sizes {from_}->{to}: the feeder produced no proof"
    st := f.st; outs := outs ++ f.out
  else
    if subOld != toString from_ then
      let f := fail st n "C13" s!"sizes {from_}->{to}: old size {subOld} submitted"
      st := f.st; outs := outs ++ f.out
    -- the independent RFC 6962 verifier (recursive, Lean) and the witness's verifier accept the submitted proof
    match parseList subProof with
    | some p =>
      if !(Spec.consistent rfcH from_ to p root1 root2) then
        let f := fail st n "C18" s!"sizes {from_}->{to}: the independent RFC 6962 verifier rejects the feeder's proof"
        st := f.st; outs := outs ++ f.out
      if !(G.verifyConsistency rfcH from_ to p root1 root2) then
        let f := fail st n "C18" s!"sizes {from_}->{to}: the witness's consistency verifier rejects the feeder's proof"
        st := f.st; outs := outs ++ f.out
    | none => pure ()
    if subProof != own || subProof != ref then
      let f := fail st n "C18" s!"sizes {from_}->{to}: the feeder's proof differs from the RFC 6962 proof (harness) / tlog.ProveTree (reference)"
      st := f.st; outs := outs ++ f.out
  if (get "checktree").getD "1" != "1" then
    let f := fail st n "C18" s!"sizes {from_}->{to}: tlog.CheckTree rejects the reference proof (harness problem)"
    st := f.st; outs := outs ++ f.out
  return { st, out := outs }


def handleTL (st : St) (n : Nat) (toks : List String) : Result := Id.run do
  let get := field toks
  let want := (get "want").getD ""
  let reached := (get "reached").getD "?"
  let steps := ((get "steps").getD "").splitOn ","
  let final := (want.splitOn ",").getLastD ""
  let mut st := st.bump "tiles.longrun"
  let mut outs : List String := []
  if reached != final then
    let f := fail st n "C18" s!"long-running SumDB feeder did not follow the growing log {want}: witness stuck at {reached} (steps {steps})"
    st := f.st; outs := outs ++ f.out
    let f := fail st n "C14" s!"a feeder running without restart stopped following its honest log {want}: stuck at {reached}"
    st := f.st; outs := outs ++ f.out
  if steps.any (fun s => s.endsWith ":0") then
    let f := fail st n "C18" s!"long-running SumDB feeder submitted a proof that is not the RFC 6962 proof: {steps}"
    st := f.st; outs := outs ++ f.out
  if outs.isEmpty then
    st := { st with nOK := st.nOK + 1 }
    outs := [s!"OK {n}"]
  return { st, out := outs }

end Drv
