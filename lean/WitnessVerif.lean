-- Root of the `WitnessVerif` library: model, spec, proofs and property theorems.
import WitnessVerif.Model.Witness
import WitnessVerif.Spec.Rules
import WitnessVerif.Proofs.CoreRun
import WitnessVerif.Proofs.SpecAgree
import WitnessVerif.Proofs.Frame
import WitnessVerif.Props.C01
import WitnessVerif.Props.C03
import WitnessVerif.Props.C09
import WitnessVerif.Props.C20
import WitnessVerif.Model.Bastion
import WitnessVerif.Model.ProofFmt
import WitnessVerif.Proofs.Base64
import WitnessVerif.Props.C02
import WitnessVerif.Props.C10
import WitnessVerif.Props.C11
import WitnessVerif.Props.C19
