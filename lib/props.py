"""Property table of the check driver: which Lean modules carry a property's theorems, which harness
scenarios tie the model to the code for it, which record fields its correspondence projects on."""
import hashlib, re

TRUSTED_BASE = [
    'Lean 4.33.0 kernel; axioms allowed in #print axioms: propext, Classical.choice, Quot.sound',
    'hand-written Lean model of the Go code (WitnessVerif/Model/*), tied to /repo by the correspondence check (differential testing through /verif/harness and wdrv)',
    'signature schemes (Ed25519, ECDSA) are parameters of the model: verification answers and signature bytes are taken from the real Go verifiers/signers per trace',
    'SHA-256 is modelled (Model/Sha256.lean), compared with crypto/sha256 on every run; theorems that need collision resistance state it as a hypothesis (Inj H)',
    'pinned dependencies modelled, not verified: x/mod/sumdb/note, transparency-dev/formats, transparency-dev/merkle, Go stdlib base64/strconv/utf8/bufio/fmt',
    'the Go harness, its canonicalisation of outputs and the wdrv line parser',
]


def sc(name, **args):
    return {'scenario': name, 'args': args}


def hist_scenarios(tier, exh_q=4, exh_t=8, hist_q=40, hist_t=400, shards_q=4, shards_t=12):
    if tier == 'quick':
        return [sc('exhaustive', n=exh_q)] + [sc('hist', n=hist_q) for _ in range(shards_q)]
    return [sc('exhaustive', n=exh_t)] + [sc('hist', n=hist_t) for _ in range(shards_t)]


PROPS = {}


def prop(pid, **kw):
    PROPS[pid] = kw


# fields of the U record each property's correspondence is projected on
prop('C09',
     modules=['WitnessVerif.Props.C09'],
     scenarios=lambda tier: hist_scenarios(tier) + [sc('lib'), sc('fault')],
     diverge={'U': {'err', 'ret', 'oracle'}, 'VC': None},
     nontrivial=lambda u: u.get('pre') not in ('-', None) and u.get('err') not in ('unknownLog', 'noValidSig'),
     rule='U records (Witness.Update on the real code): exhaustive (stored, submitted, old) in -1..N x 0..N x 0..N+1,2^64-1 x {same,different root} x 8 proof classes, plus random histories with sizes up to 2^63; a case is non-trivial when a checkpoint is stored and the request authenticates; distinct by hash of (old, checkpoint text, proof, stored text)',
     assumptions=['the rule list is judged on steps whose storage calls succeed (faulty steps are C07); the fault scenario is included so that the step AFTER a failed write is judged against what is really stored'],
     exhaustive=True)


# records that validate the modelled standard-library / dependency pieces: a divergence there means the model of a
# building block is wrong (or the dependency changed), which concerns every property whose check ran them
LIB_KINDS = {'SHA', 'LOGID', 'B64D', 'B64E', 'PUINT', 'FMTD', 'VALIDNAME', 'NOTECHARS', 'CPUNM', 'VC'}


def diverge_relevant(pid, d):
    if d['kind'] in LIB_KINDS:
        return True
    spec = PROPS[pid].get('diverge', {})
    if d['kind'] not in spec:
        return False
    fields = spec[d['kind']]
    return fields is None or d['field'] in fields


def parse_u(line):
    toks = line.split(' ')
    d = {'sid': toks[1]}
    for t in toks[2:]:
        if '=' in t:
            k, v = t.split('=', 1)
            d[k] = v
    return d


def text_of(hexnote):
    """signed text part of a hex note, as a short digest (the signature bytes vary between runs)"""
    if hexnote in ('-', '!', '.', None) or hexnote.startswith('='):
        return hexnote
    i = hexnote.rfind('0a0a')
    return hashlib.sha1(hexnote[:i].encode()).hexdigest()[:12] if i >= 0 else hashlib.sha1(hexnote.encode()).hexdigest()[:12]


def coverage(pid, traces):
    spec = PROPS[pid]
    nontriv = spec.get('nontrivial', lambda u: True)
    seen = set()
    hist = {}
    samples = []
    kinds = {}
    for tr in traces:
        try:
            fh = open(tr)
        except OSError:
            continue
        for line in fh:
            line = line.rstrip('\n')
            k = line.split(' ', 1)[0]
            if k in ('V', 'SG', 'CFG', 'LOG', 'SGN', 'TRUTH', 'END', '#'):
                continue
            kinds[k] = kinds.get(k, 0) + 1
            if k == 'U':
                u = parse_u(line)
                cls = u.get('class', '?')
                key = f"{cls}/{u.get('err')}"
                hist[key] = hist.get(key, 0) + 1
                if nontriv(u):
                    h = hashlib.sha1('|'.join([u.get('old', ''), text_of(u.get('cp')), u.get('proof', ''), text_of(u.get('pre'))]).encode()).hexdigest()
                    if h not in seen:
                        seen.add(h)
                        if len(samples) < 3:
                            samples.append({k2: (v if len(v) < 120 else v[:120] + '…') for k2, v in u.items()})
            else:
                h = hashlib.sha1(line.encode()).hexdigest()
                custom = spec.get('nontrivial_line')
                if custom is None or custom(k, line):
                    if h not in seen:
                        seen.add(h)
                        if len(samples) < 3 and k != 'U':
                            samples.append(line[:300])
                hist[k] = hist.get(k, 0) + 1
        fh.close()
    if not samples:
        samples = ['(no records)']
    return {'distinct_nontrivial': len(seen), 'rule': spec.get('rule', ''), 'samples': samples, 'histogram': dict(sorted(hist.items())), 'kinds': kinds}

U_ALL = {'err', 'ret', 'post', 'ctr', 'oracle'}

prop('C01',
     modules=['WitnessVerif.Props.C01'],
     scenarios=lambda tier: hist_scenarios(tier) + [sc('lib'), sc('fault'), sc('conc'), sc('bastion')],
     diverge={'U': {'accept', 'post', 'oracle'}, 'VC': None, 'H': {'post'}},
     nontrivial=lambda u: u.get('pre') not in ('-', None) and u.get('err') not in ('unknownLog', 'noValidSig'),
     rule='(also: sessions of add-checkpoint requests at the bastion endpoint — forks, stale and wrong old sizes, malformed and rate-limited bodies — with the same monitor on every 200 and the state after each request compared with Bastion.post, the step of the session the theorem C01_append_only_through_endpoint is about) histories of Witness.Update against forking logs (explicit trees of 20 leaves with forks at 0,1,4,8,9; virtual piecewise-uniform trees up to 2^63) on in-memory, SQLite :memory: and SQLite file storage; monitor: cosigned checkpoints of a log have non-decreasing sizes, equal sizes equal roots, and never lie on two different branches of the ground-truth trees; the same monitor over histories with injected storage faults followed by fault-free steps, and (pairwise) over the checkpoints cosigned within each controlled concurrent execution; non-trivial = a checkpoint is stored and the request authenticates',
     assumptions=['collision-free node hasher (Inj H) in the theorems; SHA-256 in the executions'],
     exhaustive=True)

prop('C03',
     modules=['WitnessVerif.Props.C03'],
     scenarios=lambda tier: hist_scenarios(tier) + [sc('notemut'), sc('fault'), sc('conc')],
     diverge={'U': {'accept', 'ret', 'post', 'oracle'}},
     nontrivial=lambda u: u.get('err') != 'none',
     rule='every refused Update of the history/exhaustive/mutation scenarios: state of every configured log and the log list are read before and after (digest), returned bytes compared with the stored checkpoint; non-trivial = the request was refused; histogram lists the refusal classes hit',
     exhaustive=True)

prop('C20',
     modules=['WitnessVerif.Props.C20'],
     scenarios=lambda tier: hist_scenarios(tier) + [sc('fault'), sc('binary')],
     diverge={'U': {'ctr'}},
     nontrivial=lambda u: True,
     rule='(also: the /metrics page of the production binary, scraped after bastion traffic, must show per log exactly the requests that reached Update and those answered 200) the four witness counters are read through a recording MetricFactory before and after every Update of the C09 histories; compared with the model and with the increments implied by the verdict',
     exhaustive=True)

prop('C02',
     modules=['WitnessVerif.Props.C02'],
     scenarios=lambda tier: [sc('notemut'), sc('cfgmap')] + ([sc('hist', n=40)] * 2 if tier == 'quick' else [sc('notemut', n=12)] + [sc('hist', n=400)] * 6),
     diverge={'U': {'accept', 'post', 'oracle'}},
     nontrivial=lambda u: u.get('class', '').startswith('mut.') or u.get('class', '').startswith('corrupt') or u.get('class', '').startswith('replay') or u.get('class') in ('crossLog', 'unknownLog', 'shape'),
     rule='mutation streams over one valid checkpoint per configuration (every k-th single-bit flip, every k-th truncation, line deletions/duplications/swaps/insertions of CR, TAB, NBSP, U+2028, 0xFF, 0x01, signature-block edits, cross-log and cross-origin replays with shared keys, unknown IDs) on a witness with 3 logs (two sharing a key), with and without stored state; monitor: accepted => the submitted bytes authenticate under the configured verifier and origin (verifier queries recorded from the real verifier)',
     assumptions=['unforgeability of Ed25519 is outside the statement: theorems are relative to the verification predicate'])

prop('C10',
     modules=['WitnessVerif.Props.C10'],
     scenarios=lambda tier: [sc('bastion', n=30 if tier == 'quick' else 300)] * (4 if tier == 'quick' else 10) + [sc('bastione2e'), sc('binary')],
     diverge={'H': {'status', 'ctype', 'rbody', 'post', 'oracle'}},
     nontrivial_line=lambda k, line: k == 'H',
     rule='requests through the real addHandler (built as FeedBastion builds it, real witness + real witnessAdapter behind it, in-memory and SQLite) in states reached by earlier requests through the same endpoint (one session in four also drives a log that stays at size 0 through the placeholder branch: first, another text for the same tree head, another root, a proof between empty trees, old size too large, identical, growth): honest growth/refresh (200), stale (409 + size), old size above checkpoint (400), same size other root (409), bad proof (422), bad signature (403), unknown origin (404), ten malformed variants (400), arbitrary mutations, limiter 0/s and 3/s (429); the same request classes end to end: a stub bastion accepts the reverse TLS 1.3 / ALPN bastion/0 connection dialled by the exported FeedBastion and sends the requests over HTTP/2 (with and without declared length), plus honest requests sized just below, at and above the 16 KiB body cap; status, content type, body and witness state compared with the model; independent ed25519 verification of the returned cosignature lines',
     assumptions=['TLS 1.3/HTTP-2 reverse connection and token-bucket timing are not modelled (in-process handler); the limiter is a Bool input of the model'])

prop('C11',
     modules=['WitnessVerif.Props.C11'],
     scenarios=lambda tier: [sc('parsebody'), sc('prooffmt'), sc('lib')],
     diverge={'PB': None, 'PFR': None, 'PFU': None, 'B64D': None, 'B64E': None, 'PUINT': None},
     nontrivial_line=lambda k, line: k in ('PB', 'PFR', 'PFU'),
     rule='bodies written as cmd/feedbastion writes them (old sizes incl. 0, 2^63, 2^64-1; 0..64 hashes of 1..64 bytes; checkpoints with blank lines, non-UTF-8, no trailing newline) parsed by the real parseBody and compared with what was written; mutated/malformed stream (bit flips, truncations, CRLF, 23 malformed old-size lines, >4096-character lines, CR at the buffer boundary, non-canonical base64) compared with the model; Proof.Marshal/Unmarshal round trip incl. the empty list and empty hashes, mutated proof texts')

prop('C19',
     modules=['WitnessVerif.Props.C19'],
     scenarios=lambda tier: [sc('bastion', n=30 if tier == 'quick' else 300)] * (3 if tier == 'quick' else 8) + [sc('parsebody'), sc('prooffmt'), sc('hostile'), sc('dist', n=150 if tier == 'quick' else 3000), sc('bastione2e'), sc('omni'), sc('bastionproc')],
     diverge={'H': {'status'}, 'PB': None, 'PFU': None},
     nontrivial_line=lambda k, line: k in ('H', 'PB', 'PFU', 'HF') and ('class=mutated' in line or 'malformed' in line or k in ('PFU', 'HF')),
     rule='arbitrary and mutated bytes against the add-checkpoint handler (panics recovered and reported), parseBody and Proof.Unmarshal; status must be in {200,400,403,404,409,422,429,500}; all five feeder types (one cycle, under recover and a deadline) against a log server answering with log-signed checkpoints of sizes {0, 6, 2^62, 2^62+1, 2^63-1, 2^63, 2^64-1} x root lengths {0, 5, 32, 33} x tile answers {404, garbage}, truncated / empty / random / 3 MiB bodies, statuses 500/404, empty/huge/garbage tiles; the distributor against connection resets, redirects and error statuses',
     assumptions=['memory safety and panics inside dependencies are only exercised'])

prop('C07',
     modules=['WitnessVerif.Props.C07'],
     scenarios=lambda tier: [sc('fault')],
     diverge={'U': {'accept', 'ret', 'post', 'calls', 'oracle'}},
     nontrivial=lambda u: u.get('faults', '') != '',
     rule='11 history kinds (first use, growth, refresh, stale, bad proof, fork, same-size fork, bad signature, and the size-0 placeholder branch: first use at 0, refresh at 0, proof at 0) x 23 interface-level fault sets (every single and pairs of WriteOps/GetLatest/Set/Close/signer failures, and X = the read inside the write handle returns damaged bytes without an error: cut short, other origin, broken signature, empty, garbage) on the in-memory and the file-backed SQLite store, x 8-11 SQL-driver-level fault sets (begin, query, exec, commit, rollback and pairs) through a wrapping database/sql driver with the production pool size; (thorough: every subset of up to three interface faults, and pairs of consecutive faulty updates) each followed by fault-free reads (3 s deadline) and an honest continuation step; storage-call script, verdict, returned bytes and state compared with the model; non-trivial = a fault was injected',
     assumptions=['injected driver failures are clean (a failed COMMIT rolls back, as go-sqlite3 does)', 'the deadline is a runtime observation'],
     exhaustive=True)

prop('C05',
     modules=['WitnessVerif.Props.C05'],
     scenarios=lambda tier: [sc('conc'), sc('concfree', race=1)],
     diverge={'U': {'accept', 'post'}, 'LIN': {'smallstep'}},
     nontrivial_line=lambda k, line: k == 'LIN',
     rule='controlled schedules on ONE shared Witness (as in production): every request is parked before it starts, before each storage call and after each storage read (wrapper around LogStatePersistence) and released by a scheduler; depth-first enumeration of interleavings of 2 and 3 requests (bounded), the one-preemption family (a request runs to its k-th yield point, the others run to completion in every order, it finishes) and random schedules for conflicting first use, first-use fork, forks from the same old size, growth vs refresh, growth vs growth, different logs, update vs read, on the in-memory store and on file-backed SQLite through database/sql with the production pool size (blocked Begin = thread in flight); every other execution goes through ONE witnessAdapter as omniwitness.Main uses it (its view of every log is compared with storage afterwards), and the list of known logs is read with multiplicity after every execution; plus free-running rounds of 6-9 goroutines, also from a build with the Go race detector (any report is a violation); on the in-memory store the small-step model of the storage protocol (Model/StoreProtocol.lean, the system of theorem C05_linearizable_inmem) is replayed on the schedule that actually ran and must predict every request outcome and the final value; on SQLite the single-connection system of theorem C05_linearizable_sql (Lin.stepSql) is replayed on the scheduler-released events (a request owns the connection from its read inside the transaction to its Set/Close; a second reader inside a transaction while the first still owns it is a divergence) and must predict the same; monitor: a sequential order compatible with real time exists in which the model of the sequential witness gives every request its outcome (storage errors only for overlapping writes, no effect), final state = replayed state; non-trivial = one LIN record per execution',
     assumptions=['atomicity of a single storage call (Go mutex / SQLite locking) and the Go memory model are runtime facts, exercised only'],
     exhaustive=True)

prop('C04',
     modules=['WitnessVerif.Props.C04'],
     scenarios=lambda tier: hist_scenarios(tier, exh_q=2, exh_t=4) + [sc('fault'), sc('httpapi'), sc('binary')],
     diverge={'U': {'accept', 'ret', 'post', 'oracle'}, 'A': {'get'}},
     nontrivial=lambda u: u.get('err') == 'none',
     rule='every accepted Update of the history scenarios (first use, growth, same-size refresh; extension lines, extra known/unknown signature lines, stale and forged lines in the witness name, padding up to the 100-line limit; witness key sets of 1-3 legacy Ed25519 / cosignature-v1 keys; in-memory, SQLite :memory:, SQLite file): returned bytes compared byte-for-byte with the model (signature bytes taken from the real signers), independently verified (plain ed25519 over the reconstructed cosignature/v1 message), timestamp within the call window, read-after-update; non-trivial = accepted update',
     assumptions=['wall-clock time is an input (window measured around the call)'])

prop('C08',
     modules=['WitnessVerif.Props.C08'],
     scenarios=lambda tier: hist_scenarios(tier, exh_q=2, exh_t=4, hist_q=60, hist_t=600) + [sc('lib')],
     diverge={'U': {'accept', 'oracle'}, 'VC': None},
     nontrivial=lambda u: u.get('probe') == '1',
     rule='after every generated history (accepted and refused requests, forgeries, extension lines, up to 100 signature lines, first checkpoint of size 0) an honest probe is sent for each log: the log-signed checkpoint with just the log line, size >= stored size (explicit trees to 20, virtual trees growing by up to 2^40), old size = stored size, the RFC 6962 proof from the harness own implementation; VerifyConsistency compared with the model on all (m, n) with n <= 40 (300 thorough) and on sampled sizes to 2^63; non-trivial = probe records',
     assumptions=['F2 (stored size 0) is a known finding pinned by the test suite'])

prop('C13',
     modules=['WitnessVerif.Props.C13'],
     scenarios=lambda tier: [sc('feeder'), sc('conc')],
     diverge={'FD': None},
     nontrivial_line=lambda k, line: k == 'FD',
     rule='feeder.FeedOnce against a scripted witness (recording stub, and the real witness behind the real witnessAdapter) for all (witness size, log size) in -1..N x 0..N (N=6 quick, 12 thorough), honest and forked log, all patterns of up to 2 (quick) / 4 (thorough) transient failures over get-latest / fetch-proof / update, unverifiable checkpoints (other key, other origin), a witness that answers get-latest with bytes that are not this log\'s checkpoint (other key, other origin, cut short, garbage), witness ahead, context end; the sequence of calls (arguments, order) and the result compared with the model given the answers actually received; monitors check each Update against the latest checkpoint reported in the same attempt',
     assumptions=['backoff timing (cenkalti/backoff) is real time, not modelled: the model is a retry loop over the attempts that happened'],
     exhaustive=True)

prop('C15',
     modules=['WitnessVerif.Props.C15'],
     scenarios=lambda tier: [sc('dist')],
     diverge={'DS': None},
     nontrivial_line=lambda k, line: k == 'DS',
     rule='rest.Distributor.DistributeOnce against a stub witness whose answer per log is one of {valid, missing, wrong log key, no witness signature, invalid witness signature, corrupted, another log\'s checkpoint, two witness signatures} and a stub distributor service (it records EVERY request that reaches a path, in order) answering {200, 404, 500, connection reset, 307 redirect, 302 redirect, 201, 503 then 200, 502 then 200, stall}: the 56 combinations enumerated for the first cases, then random draws over 1..6 logs and witness key names with characters that need escaping; requests received (path, method, body digest, redirect target) and the returned error compared with the model',
     assumptions=['net/http client behaviour on redirects is observed, not modelled beyond method preservation'])

prop('C17',
     modules=['WitnessVerif.Props.C17'],
     scenarios=lambda tier: [sc('config'), sc('cfgmap'), sc('lib'), sc('omni')],
     diverge={'CF': None, 'CFM': None, 'CA': None},
     nontrivial_line=lambda k, line: k in ('CF', 'CFM'),
     rule='every entry of the embedded omniwitness/logs.yaml and of omniwitness/logs_test.yaml (working tree) is loaded through yaml.Unmarshal, config.NewLog, LogConfig.AsLogMap and its feeder is started for one cycle without network (start-up errors before the first request are failures); compared with the model; synthetic configurations (valid, ECDSA, malformed keys, duplicates) validate the model of NewVerifier/AsLogMap; the Lean tables are regenerated from the YAML files on every run and the coherence theorem is re-checked by kernel evaluation',
     assumptions=['x509.ParsePKIXPublicKey and net/url are not modelled: covered by loading the shipped entries through the real functions'],
     exhaustive=True)

prop('C12',
     modules=['WitnessVerif.Props.C12'],
     scenarios=lambda tier: [sc('isolation'), sc('conclogs'), sc('cfgmap'), sc('lib'), sc('bastion', n=10 if tier == 'quick' else 100), sc('dist', n=150 if tier == 'quick' else 2000), sc('httpapi', n=10 if tier == 'quick' else 100)],
     diverge={'ISO': None, 'CA': None, 'U': {'accept', 'post', 'oracle'}, 'H': {'status', 'post'}, 'DS': {'puts'}, 'A': None, 'LIN': None},
     nontrivial_line=lambda k, line: k in ('ISO', 'CA'),
     rule='per-log histories (honest chains with fork attempts, other logs\' checkpoints under this ID, stale requests; 2..5 logs of which three share a key) are run interleaved (random order-preserving merge) and each alone on fresh witnesses, outcomes and final text compared; controlled interleavings (depth-first over storage-call schedules, in-memory and SQLite) of requests naming two different logs, each log\'s projection of the history having to be explained by that log alone and no request failing because of a request naming another log; synthetic configurations through AsLogMap/config.NewLog (duplicate origins, same key name with different keys, ECDSA and malformed keys) followed by cross-key submissions to the witness built from that map; IDs observed at the bastion lookup, the distributor path and the HTTP route compared with hex(sha256("o:"+origin)) computed in Lean',
     exhaustive=False)

prop('C16',
     modules=['WitnessVerif.Props.C16'],
     scenarios=lambda tier: [sc('httpapi')] * (2 if tier == 'quick' else 8) + [sc('conc')],
     diverge={'A': None, 'U': {'accept', 'post'}},
     nontrivial_line=lambda k, line: k == 'A',
     rule='histories of accepted and refused updates over 1..4 logs (IDs from log.ID) on in-memory, SQLite :memory: and SQLite file stores; after steps, GET checkpoint through the registered gorilla/mux handlers (httptest server) and through the bundled client for every known ID and for unknown / odd IDs (upper case, truncated, extended, -, _, ., %2F, empty, .., 200 characters, %00, non-ASCII, spaces), GET logs decoded and sorted; whenever the service hands out an ETag or Last-Modified a later probe revalidates with it (304 only while the stored bytes are unchanged; between two probes every log is refreshed with the SAME text under other signature bytes); a read parked inside storage, an update accepted, then a second read (it must see the update); every history stores honest checkpoints of about 1.5, 3 and 10 KB (both sides of the 2048-byte chunking boundary of net/http) and probes after each; a quarter of the probes run while the store fails Logs / ReadOps / GetLatest, or (SQLite through the wrapping database/sql driver) while Query or the first, second or third Rows.Next fails (an error status is the only truthful answer: never 404, never \'does not exist\', never a 200 list that is not the stored set); compared with the model and the monitors 200 => that log holds exactly these bytes, else 404, client maps 404 to ErrNotExist')

prop('C18',
     modules=['WitnessVerif.Props.C18'],
     scenarios=lambda tier: [sc('tiles'), sc('lib')],
     diverge={'TP': None, 'TF': None, 'U': {'accept'}},
     nontrivial_line=lambda k, line: k in ('TP', 'TF'),
     rule='(a) SumDBClient.tilePath for tile indices at every carry boundary of the x%03d encoding (999/1000/1001, 10^6 +-1, 10^9 +-1, multiples) and random indices to 1.1*10^9, compared with tlog.Tile.Path and the Lean model; (b) sumdb.FeedLog (one cycle) against an in-memory stub SumDB (http.RoundTripper serving /latest and tiles built with the reference tlog functions) and a recording stub witness for sampled size pairs from < to (quick: 250 pairs to 160; thorough: ~1/40 of all pairs to 1200, every boundary 255/256/257/511/512/513): requested tile paths vs the tiles tlog.ProveTree reads through a reference TileReader, submitted proof vs the harness RFC 6962 proof, tlog.ProveTree, tlog.CheckTree, the Lean rfcProof over SHA-256, the recursive verifier and the witness verifier; every tenth pair also through the real witness',
     assumptions=['tile-to-hash reconstruction (tlog.TileHashReader) is dependency code: compared, not modelled'])

prop('C06',
     modules=['WitnessVerif.Props.C06'],
     scenarios=lambda tier: [sc('crash')] + ([sc('crash')] if tier == 'thorough' else []) + [sc('fault'), sc('binary')],
     diverge={'CR': None, 'U': {'accept', 'post', 'calls'}},
     nontrivial_line=lambda k, line: k == 'CR' and 'killed=1' in line,
     rule='(also the production binary: killed idle and, after a restart on the existing file, killed INSIDE a commit — this process holds a read transaction on the database file so that the COMMIT of the binary waits with its rollback journal on disk — everything acknowledged must be served by the next start) for first-use, growth and refresh updates (also: first use and refresh of the size-0 placeholder, an update right after a refused one and right after an accepted one by the same process, a store written in the released on-disk format) on a file-backed SQLite store opened through a wrapping database/sql driver (production pool size), a child process SIGKILLs itself at every driver-event boundary (entry and completion of begin, query, rows.Next, exec, commit; plus one run to completion); acknowledgements are flushed to a pipe before anything else; a fresh process reopens the file and reports every log\'s checkpoint (verified under log and witness keys) and the log list; compared with the model\'s prediction for that kill point; non-trivial = the process was killed',
     assumptions=['SQLite journal/fsync behaviour is trusted; SIGKILL does not model power loss'],
     exhaustive=True)

prop('C14',
     modules=['WitnessVerif.Props.C14'],
     scenarios=lambda tier: [sc('omni'), sc('tiles'), sc('feeder'), sc('binary')],
     diverge={'TF': None, 'TP': None, 'FD': {'closedloop'}},
     nontrivial_line=lambda k, line: k in ('OM', 'OMF', 'TL', 'BINP', 'BIND'),
     rule='omniwitness.Main in-process with ConfigLogs set to a generated configuration of seven logs sharing one key, one or two for every feeder type of the shipped configuration (sumdb, two tlog-tiles, pixel with height-1 tiles below a path, rekor as the active shard and as an inactive shard, serverless below a path) and one push-only log, served by independent in-memory stub log servers that accept only canonical paths (custom http.Transport), FeedInterval 40 ms, HTTP API on a local listener; growth schedules crossing 255/256/257 and 512/513 (thorough: 65535/65536/65537), in-memory storage (same object across restarts) and file-backed SQLite (reopened), the service restarted after every step; after each growth GET /witness/v0/logs/<id>/checkpoint must serve the published size and root, cosigned, within 200 poll intervals; then a roll-back (every log in turn presents half its size for 8 polls: the service neither stops nor moves, and follows again afterwards), an outage (every log grows while its tiles / proof endpoint answer 503 for six polls, so that each feed cycle uses up its whole deadline, then recovers: the service must follow again), then a fork of one log (diverging below the witnessed size), with and without restart: the served checkpoint must stay; plus the long-running SumDB feeders of the tiles scenario (small log and 65,800-leaf log, no restart), and the feeder scenario: every failure-free feed cycle against the real witness behind the real adapter is compared (calls, outcome, witness state afterwards) with the closed-loop model Omni.feedCycle that the byte-level theorem is about',
     assumptions=['liveness bound (poll intervals) and goroutine wiring are runtime observations'])
